//! `ndarray_npy::NpzReader`: read `.npy` members of a zip (`.npz`) archive into `Array4<f64>`.
//!
//! Zip: central-directory driven (as the `zip` crate), stored (0) and deflated (8)
//! members, zip64 extra fields, CRC-32 verified.  Npy: format versions 1-3,
//! descr `<f8` / `=f8` / `>f8`, C and Fortran order, exactly four dimensions.

use ndarray::Array4;
use std::io::{Read, Seek, SeekFrom};

#[derive(Debug)]
pub enum ReadNpzError {
    Io(std::io::Error),
    Zip(String),
    Npy(String),
}
impl std::fmt::Display for ReadNpzError {
    fn fmt(&self, f: &mut std::fmt::Formatter<'_>) -> std::fmt::Result {
        write!(f, "{self:?}")
    }
}
impl std::error::Error for ReadNpzError {}
impl From<std::io::Error> for ReadNpzError {
    fn from(e: std::io::Error) -> Self {
        ReadNpzError::Io(e)
    }
}

fn zerr<T>(m: &str) -> Result<T, ReadNpzError> {
    Err(ReadNpzError::Zip(m.to_owned()))
}
fn nerr<T>(m: &str) -> Result<T, ReadNpzError> {
    Err(ReadNpzError::Npy(m.to_owned()))
}

fn u16le(b: &[u8], p: usize) -> u16 {
    u16::from_le_bytes([b[p], b[p + 1]])
}
fn u32le(b: &[u8], p: usize) -> u32 {
    u32::from_le_bytes([b[p], b[p + 1], b[p + 2], b[p + 3]])
}
fn u64le(b: &[u8], p: usize) -> u64 {
    let mut a = [0u8; 8];
    a.copy_from_slice(&b[p..p + 8]);
    u64::from_le_bytes(a)
}

// ------------------------------------------------------------------- CRC-32
pub fn crc32(data: &[u8]) -> u32 {
    let mut table = [0u32; 256];
    for i in 0..256u32 {
        let mut c = i;
        for _ in 0..8 {
            c = if c & 1 != 0 { 0xEDB8_8320 ^ (c >> 1) } else { c >> 1 };
        }
        table[i as usize] = c;
    }
    let mut c = 0xFFFF_FFFFu32;
    for &b in data {
        c = table[((c ^ b as u32) & 0xFF) as usize] ^ (c >> 8);
    }
    c ^ 0xFFFF_FFFF
}

// ------------------------------------------------------------------ inflate
struct Bits<'a> {
    d: &'a [u8],
    p: usize,
    bit: u32,
    n: u32,
}
impl<'a> Bits<'a> {
    fn need(&mut self, k: u32) -> Result<(), ReadNpzError> {
        while self.n < k {
            if self.p >= self.d.len() {
                return zerr("deflate: unexpected end of stream");
            }
            self.bit |= (self.d[self.p] as u32) << self.n;
            self.p += 1;
            self.n += 8;
        }
        Ok(())
    }
    fn get(&mut self, k: u32) -> Result<u32, ReadNpzError> {
        if k == 0 {
            return Ok(0);
        }
        self.need(k)?;
        let v = self.bit & ((1u32 << k) - 1);
        self.bit >>= k;
        self.n -= k;
        Ok(v)
    }
}

struct Huff {
    count: [u16; 16],
    symbol: Vec<u16>,
}
impl Huff {
    fn new(lengths: &[u8]) -> Huff {
        let mut count = [0u16; 16];
        for &l in lengths {
            count[l as usize] += 1;
        }
        let mut offs = [0u16; 16];
        for i in 1..16 {
            offs[i] = offs[i - 1] + count[i - 1];
        }
        // symbols of length 0 are not coded
        let mut symbol = vec![0u16; lengths.len()];
        let mut offs2 = [0u16; 16];
        let mut acc = 0u16;
        for i in 1..16 {
            offs2[i] = acc;
            acc += count[i];
        }
        for (s, &l) in lengths.iter().enumerate() {
            if l != 0 {
                symbol[offs2[l as usize] as usize] = s as u16;
                offs2[l as usize] += 1;
            }
        }
        let _ = offs;
        count[0] = 0;
        Huff { count, symbol }
    }
    fn decode(&self, b: &mut Bits) -> Result<u16, ReadNpzError> {
        let mut code: i32 = 0;
        let mut first: i32 = 0;
        let mut index: i32 = 0;
        for len in 1..16 {
            code |= b.get(1)? as i32;
            let count = self.count[len] as i32;
            if code - count < first {
                return Ok(self.symbol[(index + (code - first)) as usize]);
            }
            index += count;
            first += count;
            first <<= 1;
            code <<= 1;
        }
        zerr("deflate: invalid Huffman code")
    }
}

const LBASE: [u16; 29] = [3, 4, 5, 6, 7, 8, 9, 10, 11, 13, 15, 17, 19, 23, 27, 31, 35, 43, 51, 59, 67, 83, 99, 115, 131, 163, 195, 227, 258];
const LEXT: [u8; 29] = [0, 0, 0, 0, 0, 0, 0, 0, 1, 1, 1, 1, 2, 2, 2, 2, 3, 3, 3, 3, 4, 4, 4, 4, 5, 5, 5, 5, 0];
const DBASE: [u16; 30] = [1, 2, 3, 4, 5, 7, 9, 13, 17, 25, 33, 49, 65, 97, 129, 193, 257, 385, 513, 769, 1025, 1537, 2049, 3073, 4097, 6145, 8193, 12289, 16385, 24577];
const DEXT: [u8; 30] = [0, 0, 0, 0, 1, 1, 2, 2, 3, 3, 4, 4, 5, 5, 6, 6, 7, 7, 8, 8, 9, 9, 10, 10, 11, 11, 12, 12, 13, 13];

fn codes(b: &mut Bits, out: &mut Vec<u8>, lit: &Huff, dist: &Huff) -> Result<(), ReadNpzError> {
    loop {
        let sym = lit.decode(b)? as usize;
        if sym < 256 {
            out.push(sym as u8);
        } else if sym == 256 {
            return Ok(());
        } else {
            let s = sym - 257;
            if s >= 29 {
                return zerr("deflate: invalid length symbol");
            }
            let len = LBASE[s] as usize + b.get(LEXT[s] as u32)? as usize;
            let ds = dist.decode(b)? as usize;
            if ds >= 30 {
                return zerr("deflate: invalid distance symbol");
            }
            let d = DBASE[ds] as usize + b.get(DEXT[ds] as u32)? as usize;
            if d > out.len() {
                return zerr("deflate: distance too far back");
            }
            let start = out.len() - d;
            for k in 0..len {
                let v = out[start + k];
                out.push(v);
            }
        }
    }
}

pub fn inflate(data: &[u8]) -> Result<Vec<u8>, ReadNpzError> {
    let mut b = Bits { d: data, p: 0, bit: 0, n: 0 };
    let mut out = Vec::new();
    loop {
        let last = b.get(1)?;
        let typ = b.get(2)?;
        match typ {
            0 => {
                b.bit = 0;
                b.n = 0;
                if b.p + 4 > data.len() {
                    return zerr("deflate: truncated stored block");
                }
                let len = u16le(data, b.p) as usize;
                let nlen = u16le(data, b.p + 2) as usize;
                if len != (!nlen & 0xFFFF) {
                    return zerr("deflate: stored block length check failed");
                }
                b.p += 4;
                if b.p + len > data.len() {
                    return zerr("deflate: truncated stored block");
                }
                out.extend_from_slice(&data[b.p..b.p + len]);
                b.p += len;
            }
            1 => {
                let mut l = [0u8; 288];
                for (i, v) in l.iter_mut().enumerate() {
                    *v = if i < 144 { 8 } else if i < 256 { 9 } else if i < 280 { 7 } else { 8 };
                }
                let lit = Huff::new(&l);
                let dist = Huff::new(&[5u8; 30]);
                codes(&mut b, &mut out, &lit, &dist)?;
            }
            2 => {
                let nlen = b.get(5)? as usize + 257;
                let ndist = b.get(5)? as usize + 1;
                let ncode = b.get(4)? as usize + 4;
                if nlen > 286 || ndist > 30 {
                    return zerr("deflate: too many length/distance codes");
                }
                const ORDER: [usize; 19] = [16, 17, 18, 0, 8, 7, 9, 6, 10, 5, 11, 4, 12, 3, 13, 2, 14, 1, 15];
                let mut cl = [0u8; 19];
                for &o in ORDER.iter().take(ncode) {
                    cl[o] = b.get(3)? as u8;
                }
                let clh = Huff::new(&cl);
                let mut lengths = vec![0u8; nlen + ndist];
                let mut i = 0;
                while i < nlen + ndist {
                    let sym = clh.decode(&mut b)?;
                    if sym < 16 {
                        lengths[i] = sym as u8;
                        i += 1;
                    } else {
                        let (prev, rep) = match sym {
                            16 => {
                                if i == 0 {
                                    return zerr("deflate: repeat without previous length");
                                }
                                (lengths[i - 1], 3 + b.get(2)? as usize)
                            }
                            17 => (0, 3 + b.get(3)? as usize),
                            _ => (0, 11 + b.get(7)? as usize),
                        };
                        if i + rep > nlen + ndist {
                            return zerr("deflate: too many lengths");
                        }
                        for _ in 0..rep {
                            lengths[i] = prev;
                            i += 1;
                        }
                    }
                }
                if lengths[256] == 0 {
                    return zerr("deflate: missing end-of-block code");
                }
                let lit = Huff::new(&lengths[..nlen]);
                let dist = Huff::new(&lengths[nlen..]);
                codes(&mut b, &mut out, &lit, &dist)?;
            }
            _ => return zerr("deflate: invalid block type"),
        }
        if last == 1 {
            break;
        }
    }
    Ok(out)
}

// ---------------------------------------------------------------------- zip
struct Member {
    name: String,
    method: u16,
    crc: u32,
    csize: u64,
    usize_: u64,
    offset: u64,
}

/// Reader of `.npz` archives.
pub struct NpzReader<R: Read + Seek> {
    _r: R,
    data: Vec<u8>,
    members: Vec<Member>,
}

impl<R: Read + Seek> NpzReader<R> {
    pub fn new(mut reader: R) -> Result<Self, ReadNpzError> {
        let mut data = Vec::new();
        reader.seek(SeekFrom::Start(0))?;
        reader.read_to_end(&mut data)?;
        let n = data.len();
        if n < 22 {
            return zerr("invalid Zip archive: too short");
        }
        // end of central directory record: scan backwards
        let mut eocd = None;
        let lo = n.saturating_sub(22 + 65535);
        let mut p = n - 22;
        loop {
            if u32le(&data, p) == 0x0605_4b50 {
                eocd = Some(p);
                break;
            }
            if p == lo {
                break;
            }
            p -= 1;
        }
        let eocd = match eocd {
            Some(p) => p,
            None => return zerr("invalid Zip archive: could not find central directory end"),
        };
        let mut count = u16le(&data, eocd + 10) as u64;
        let mut cd_size = u32le(&data, eocd + 12) as u64;
        let mut cd_off = u32le(&data, eocd + 16) as u64;
        if count == 0xFFFF || cd_size == 0xFFFF_FFFF || cd_off == 0xFFFF_FFFF {
            // zip64 locator just before the EOCD
            if eocd < 20 || u32le(&data, eocd - 20) != 0x0706_4b50 {
                return zerr("invalid Zip archive: zip64 locator missing");
            }
            let z = u64le(&data, eocd - 20 + 8) as usize;
            if z + 56 > n || u32le(&data, z) != 0x0606_4b50 {
                return zerr("invalid Zip archive: zip64 end record missing");
            }
            count = u64le(&data, z + 32);
            cd_size = u64le(&data, z + 40);
            cd_off = u64le(&data, z + 48);
        }
        if cd_off + cd_size > n as u64 {
            return zerr("invalid Zip archive: central directory out of bounds");
        }
        let mut members = Vec::new();
        let mut p = cd_off as usize;
        for _ in 0..count {
            if p + 46 > n || u32le(&data, p) != 0x0201_4b50 {
                return zerr("invalid Zip archive: bad central directory header");
            }
            let flags = u16le(&data, p + 8);
            let method = u16le(&data, p + 10);
            let crc = u32le(&data, p + 16);
            let mut csize = u32le(&data, p + 20) as u64;
            let mut usize_ = u32le(&data, p + 24) as u64;
            let nlen = u16le(&data, p + 28) as usize;
            let elen = u16le(&data, p + 30) as usize;
            let clen = u16le(&data, p + 32) as usize;
            let mut offset = u32le(&data, p + 42) as u64;
            if p + 46 + nlen + elen + clen > n {
                return zerr("invalid Zip archive: truncated central directory");
            }
            let name = String::from_utf8_lossy(&data[p + 46..p + 46 + nlen]).into_owned();
            // zip64 extended information
            let mut e = p + 46 + nlen;
            let eend = e + elen;
            while e + 4 <= eend {
                let id = u16le(&data, e);
                let sz = u16le(&data, e + 2) as usize;
                if id == 0x0001 {
                    let mut q = e + 4;
                    if usize_ == 0xFFFF_FFFF && q + 8 <= e + 4 + sz {
                        usize_ = u64le(&data, q);
                        q += 8;
                    }
                    if csize == 0xFFFF_FFFF && q + 8 <= e + 4 + sz {
                        csize = u64le(&data, q);
                        q += 8;
                    }
                    if offset == 0xFFFF_FFFF && q + 8 <= e + 4 + sz {
                        offset = u64le(&data, q);
                    }
                }
                e += 4 + sz;
            }
            if flags & 1 != 0 {
                return zerr("encrypted members are not supported");
            }
            members.push(Member { name, method, crc, csize, usize_, offset });
            p += 46 + nlen + elen + clen;
        }
        Ok(NpzReader { _r: reader, data, members })
    }

    pub fn len(&self) -> usize {
        self.members.len()
    }
    pub fn is_empty(&self) -> bool {
        self.members.is_empty()
    }
    pub fn names(&mut self) -> Result<Vec<String>, ReadNpzError> {
        Ok(self.members.iter().map(|m| m.name.clone()).collect())
    }

    fn member_bytes(&self, name: &str) -> Result<Vec<u8>, ReadNpzError> {
        let m = match self.members.iter().find(|m| m.name == name) {
            Some(m) => m,
            None => return zerr("specified file not found in archive"),
        };
        let d = &self.data;
        let p = m.offset as usize;
        if p + 30 > d.len() || u32le(d, p) != 0x0403_4b50 {
            return zerr("invalid Zip archive: bad local file header");
        }
        let nlen = u16le(d, p + 26) as usize;
        let elen = u16le(d, p + 28) as usize;
        let start = p + 30 + nlen + elen;
        let end = start + m.csize as usize;
        if end > d.len() {
            return zerr("invalid Zip archive: member data out of bounds");
        }
        let raw = &d[start..end];
        let out = match m.method {
            0 => raw.to_vec(),
            8 => inflate(raw)?,
            _ => return zerr("unsupported Zip archive: compression method"),
        };
        if out.len() as u64 != m.usize_ {
            return zerr("invalid Zip archive: uncompressed size mismatch");
        }
        if crc32(&out) != m.crc {
            return zerr("invalid checksum");
        }
        Ok(out)
    }

    /// Read the member `name` as an array (only `Array4<f64>` is provided).
    pub fn by_name<A: ReadNpy>(&mut self, name: &str) -> Result<A, ReadNpzError> {
        let bytes = self.member_bytes(name)?;
        A::read_npy(&bytes)
    }
}

/// Types readable from `.npy` bytes.
pub trait ReadNpy: Sized {
    fn read_npy(bytes: &[u8]) -> Result<Self, ReadNpzError>;
}

fn header_field<'a>(h: &'a str, key: &str) -> Option<&'a str> {
    let k1 = format!("'{key}'");
    let k2 = format!("\"{key}\"");
    let p = h.find(&k1).map(|p| p + k1.len()).or_else(|| h.find(&k2).map(|p| p + k2.len()))?;
    let rest = h[p..].trim_start();
    let rest = rest.strip_prefix(':')?;
    Some(rest.trim_start())
}

impl ReadNpy for Array4<f64> {
    fn read_npy(b: &[u8]) -> Result<Self, ReadNpzError> {
        if b.len() < 10 || &b[..6] != b"\x93NUMPY" {
            return nerr("start does not match magic string");
        }
        let (major, _minor) = (b[6], b[7]);
        let (hlen, hstart) = match major {
            1 => (u16le(b, 8) as usize, 10),
            2 | 3 => {
                if b.len() < 12 {
                    return nerr("truncated header");
                }
                (u32le(b, 8) as usize, 12)
            }
            _ => return nerr("unknown version number"),
        };
        if hstart + hlen > b.len() {
            return nerr("truncated header");
        }
        let h = match std::str::from_utf8(&b[hstart..hstart + hlen]) {
            Ok(s) => s,
            Err(_) => return nerr("header is not valid text"),
        };
        // descr
        let descr = header_field(h, "descr").ok_or(ReadNpzError::Npy("missing descr".into()))?;
        let q = descr.chars().next().unwrap_or(' ');
        if q != '\'' && q != '"' {
            return nerr("unsupported (structured) type descriptor");
        }
        let dend = descr[1..].find(q).ok_or(ReadNpzError::Npy("unterminated descr".into()))?;
        let dstr = &descr[1..1 + dend];
        let big = match dstr {
            "<f8" | "=f8" => false,
            ">f8" => true,
            _ => return nerr("incorrect descriptor for f64"),
        };
        // fortran_order
        let fo = header_field(h, "fortran_order").ok_or(ReadNpzError::Npy("missing fortran_order".into()))?;
        let fortran = if fo.starts_with("True") {
            true
        } else if fo.starts_with("False") {
            false
        } else {
            return nerr("bad fortran_order");
        };
        // shape
        let sh = header_field(h, "shape").ok_or(ReadNpzError::Npy("missing shape".into()))?;
        let sh = sh.strip_prefix('(').ok_or(ReadNpzError::Npy("bad shape".into()))?;
        let send = sh.find(')').ok_or(ReadNpzError::Npy("bad shape".into()))?;
        let mut dims = Vec::new();
        for tok in sh[..send].split(',') {
            let t = tok.trim();
            if t.is_empty() {
                continue;
            }
            let t = t.trim_end_matches('L');
            dims.push(t.parse::<usize>().map_err(|_| ReadNpzError::Npy("bad shape entry".into()))?);
        }
        if dims.len() != 4 {
            return nerr("wrong number of dimensions");
        }
        let n: usize = dims.iter().product();
        let body = &b[hstart + hlen..];
        if body.len() < n * 8 {
            return nerr("reached EOF before reading all data");
        }
        if body.len() > n * 8 {
            return nerr("file had extra bytes before EOF");
        }
        let mut v = Vec::with_capacity(n);
        for i in 0..n {
            let mut a = [0u8; 8];
            a.copy_from_slice(&body[i * 8..i * 8 + 8]);
            v.push(if big { f64::from_be_bytes(a) } else { f64::from_le_bytes(a) });
        }
        Array4::from_shape_vec_order((dims[0], dims[1], dims[2], dims[3]), v, fortran).map_err(|_| ReadNpzError::Npy("shape does not match data".into()))
    }
}
