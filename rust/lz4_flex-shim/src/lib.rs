//! Minimal LZ4 frame decoder with the API surface `dekoder` uses:
//! `lz4_flex::frame::FrameDecoder::new(reader)` implementing `std::io::Read`.
//!
//! Implements the LZ4 Frame Format 1.6.x: magic, frame descriptor with header
//! checksum, linked or independent blocks, optional block checksums, optional
//! content size and content checksum (xxHash32, all verified like the real
//! crate does), concatenated and skippable frames.

pub mod frame {
    use std::io::{self, Read};

    const MAGIC: u32 = 0x184D_2204;

    fn bad(msg: &str) -> io::Error {
        io::Error::new(io::ErrorKind::InvalidData, msg.to_owned())
    }

    // ---------------------------------------------------------------- xxHash32
    const P1: u32 = 2654435761;
    const P2: u32 = 2246822519;
    const P3: u32 = 3266489917;
    const P4: u32 = 668265263;
    const P5: u32 = 374761393;

    fn rd32(b: &[u8]) -> u32 {
        u32::from_le_bytes([b[0], b[1], b[2], b[3]])
    }
    fn round(acc: u32, inp: u32) -> u32 {
        acc.wrapping_add(inp.wrapping_mul(P2)).rotate_left(13).wrapping_mul(P1)
    }
    pub fn xxh32(data: &[u8], seed: u32) -> u32 {
        let len = data.len();
        let mut i = 0;
        let mut h: u32;
        if len >= 16 {
            let mut v1 = seed.wrapping_add(P1).wrapping_add(P2);
            let mut v2 = seed.wrapping_add(P2);
            let mut v3 = seed;
            let mut v4 = seed.wrapping_sub(P1);
            while i + 16 <= len {
                v1 = round(v1, rd32(&data[i..]));
                v2 = round(v2, rd32(&data[i + 4..]));
                v3 = round(v3, rd32(&data[i + 8..]));
                v4 = round(v4, rd32(&data[i + 12..]));
                i += 16;
            }
            h = v1
                .rotate_left(1)
                .wrapping_add(v2.rotate_left(7))
                .wrapping_add(v3.rotate_left(12))
                .wrapping_add(v4.rotate_left(18));
        } else {
            h = seed.wrapping_add(P5);
        }
        h = h.wrapping_add(len as u32);
        while i + 4 <= len {
            h = h.wrapping_add(rd32(&data[i..]).wrapping_mul(P3)).rotate_left(17).wrapping_mul(P4);
            i += 4;
        }
        while i < len {
            h = h.wrapping_add((data[i] as u32).wrapping_mul(P5)).rotate_left(11).wrapping_mul(P1);
            i += 1;
        }
        h ^= h >> 15;
        h = h.wrapping_mul(P2);
        h ^= h >> 13;
        h = h.wrapping_mul(P3);
        h ^= h >> 16;
        h
    }

    // ------------------------------------------------------------ block decode
    /// Decode one LZ4 block, appending to `out` (earlier content of `out` is the window).
    fn decode_block(src: &[u8], out: &mut Vec<u8>, window_start: usize) -> io::Result<()> {
        let mut i = 0usize;
        let n = src.len();
        while i < n {
            let token = src[i];
            i += 1;
            // literals
            let mut lit = (token >> 4) as usize;
            if lit == 15 {
                loop {
                    if i >= n {
                        return Err(bad("lz4: truncated literal length"));
                    }
                    let b = src[i];
                    i += 1;
                    lit += b as usize;
                    if b != 255 {
                        break;
                    }
                }
            }
            if i + lit > n {
                return Err(bad("lz4: literals overrun the block"));
            }
            out.extend_from_slice(&src[i..i + lit]);
            i += lit;
            if i == n {
                break; // last sequence: literals only
            }
            if i + 2 > n {
                return Err(bad("lz4: truncated match offset"));
            }
            let offset = u16::from_le_bytes([src[i], src[i + 1]]) as usize;
            i += 2;
            if offset == 0 || offset > out.len() - window_start {
                return Err(bad("lz4: invalid match offset"));
            }
            let mut mlen = (token & 0x0F) as usize;
            if mlen == 15 {
                loop {
                    if i >= n {
                        return Err(bad("lz4: truncated match length"));
                    }
                    let b = src[i];
                    i += 1;
                    mlen += b as usize;
                    if b != 255 {
                        break;
                    }
                }
            }
            mlen += 4;
            let start = out.len() - offset;
            for k in 0..mlen {
                let b = out[start + k];
                out.push(b);
            }
        }
        Ok(())
    }

    fn decode_frames(data: &[u8]) -> io::Result<Vec<u8>> {
        let mut out_all = Vec::new();
        let mut p = 0usize;
        let n = data.len();
        if n == 0 {
            return Ok(out_all);
        }
        while p < n {
            if p + 4 > n {
                return Err(bad("lz4 frame: truncated magic"));
            }
            let magic = rd32(&data[p..]);
            p += 4;
            if (0x184D_2A50..=0x184D_2A5F).contains(&magic) {
                if p + 4 > n {
                    return Err(bad("lz4 frame: truncated skippable frame"));
                }
                let sz = rd32(&data[p..]) as usize;
                p += 4;
                if p + sz > n {
                    return Err(bad("lz4 frame: truncated skippable frame"));
                }
                p += sz;
                continue;
            }
            if magic != MAGIC {
                return Err(bad("lz4 frame: wrong magic number"));
            }
            let desc_start = p;
            if p + 2 > n {
                return Err(bad("lz4 frame: truncated descriptor"));
            }
            let flg = data[p];
            let bd = data[p + 1];
            p += 2;
            if (flg >> 6) != 0b01 {
                return Err(bad("lz4 frame: unsupported version"));
            }
            if flg & 0b10 != 0 {
                return Err(bad("lz4 frame: reserved bit set"));
            }
            let block_indep = flg & 0x20 != 0;
            let block_checksum = flg & 0x10 != 0;
            let has_size = flg & 0x08 != 0;
            let content_checksum = flg & 0x04 != 0;
            let has_dict = flg & 0x01 != 0;
            let bmax = match (bd >> 4) & 0x7 {
                4 => 64 * 1024,
                5 => 256 * 1024,
                6 => 1024 * 1024,
                7 => 4 * 1024 * 1024,
                _ => return Err(bad("lz4 frame: invalid block size id")),
            };
            if bd & 0x8F != 0 {
                return Err(bad("lz4 frame: reserved BD bits set"));
            }
            let mut content_size: Option<u64> = None;
            if has_size {
                if p + 8 > n {
                    return Err(bad("lz4 frame: truncated content size"));
                }
                let mut b = [0u8; 8];
                b.copy_from_slice(&data[p..p + 8]);
                content_size = Some(u64::from_le_bytes(b));
                p += 8;
            }
            if has_dict {
                return Err(bad("lz4 frame: dictionaries are not supported"));
            }
            if p + 1 > n {
                return Err(bad("lz4 frame: truncated header checksum"));
            }
            let hc = data[p];
            let want = ((xxh32(&data[desc_start..p], 0) >> 8) & 0xFF) as u8;
            p += 1;
            if hc != want {
                return Err(bad("lz4 frame: header checksum mismatch"));
            }
            let mut out: Vec<u8> = Vec::new();
            loop {
                if p + 4 > n {
                    return Err(bad("lz4 frame: truncated block size"));
                }
                let bs = rd32(&data[p..]);
                p += 4;
                if bs == 0 {
                    break;
                }
                let uncompressed = bs & 0x8000_0000 != 0;
                let len = (bs & 0x7FFF_FFFF) as usize;
                if len > bmax {
                    return Err(bad("lz4 frame: block larger than the announced maximum"));
                }
                if p + len > n {
                    return Err(bad("lz4 frame: truncated block"));
                }
                let blk = &data[p..p + len];
                p += len;
                if block_checksum {
                    if p + 4 > n {
                        return Err(bad("lz4 frame: truncated block checksum"));
                    }
                    if rd32(&data[p..]) != xxh32(blk, 0) {
                        return Err(bad("lz4 frame: block checksum mismatch"));
                    }
                    p += 4;
                }
                let before = out.len();
                if uncompressed {
                    out.extend_from_slice(blk);
                } else {
                    let window_start = if block_indep { before } else { before.saturating_sub(64 * 1024) };
                    decode_block(blk, &mut out, window_start)?;
                }
                if out.len() - before > bmax {
                    return Err(bad("lz4 frame: decoded block exceeds the announced maximum"));
                }
            }
            if content_checksum {
                if p + 4 > n {
                    return Err(bad("lz4 frame: truncated content checksum"));
                }
                if rd32(&data[p..]) != xxh32(&out, 0) {
                    return Err(bad("lz4 frame: content checksum mismatch"));
                }
                p += 4;
            }
            if let Some(cs) = content_size {
                if cs != out.len() as u64 {
                    return Err(bad("lz4 frame: content size mismatch"));
                }
            }
            out_all.extend_from_slice(&out);
        }
        Ok(out_all)
    }

    /// Reader adaptor decoding an LZ4 frame stream.
    pub struct FrameDecoder<R: Read> {
        r: R,
        out: Vec<u8>,
        pos: usize,
        decoded: bool,
    }

    impl<R: Read> FrameDecoder<R> {
        pub fn new(r: R) -> Self {
            FrameDecoder { r, out: Vec::new(), pos: 0, decoded: false }
        }
        pub fn get_ref(&self) -> &R {
            &self.r
        }
        pub fn into_inner(self) -> R {
            self.r
        }
    }

    impl<R: Read> Read for FrameDecoder<R> {
        fn read(&mut self, buf: &mut [u8]) -> io::Result<usize> {
            if !self.decoded {
                let mut raw = Vec::new();
                self.r.read_to_end(&mut raw)?;
                self.out = decode_frames(&raw)?;
                self.decoded = true;
            }
            let n = buf.len().min(self.out.len() - self.pos);
            buf[..n].copy_from_slice(&self.out[self.pos..self.pos + n]);
            self.pos += n;
            Ok(n)
        }
    }
}
