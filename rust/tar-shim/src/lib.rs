//! `tar::Archive::new(reader).unpack(dst)` for ustar / POSIX.1-2001 (pax) / GNU long-name archives.
//! `tar::Builder` exists so that `dekoder` compiles; writing is not implemented.

use std::fs;
use std::io::{self, Read, Write};
use std::path::{Component, Path, PathBuf};

fn bad(m: &str) -> io::Error {
    io::Error::new(io::ErrorKind::Other, m.to_owned())
}

pub struct Archive<R: Read> {
    r: R,
}

fn octal(field: &[u8]) -> io::Result<u64> {
    // GNU base-256 for large values
    if !field.is_empty() && field[0] & 0x80 != 0 {
        let mut v: u64 = (field[0] & 0x7F) as u64;
        for &b in &field[1..] {
            v = (v << 8) | b as u64;
        }
        return Ok(v);
    }
    let s: String = field.iter().take_while(|&&b| b != 0).map(|&b| b as char).collect();
    let t = s.trim();
    if t.is_empty() {
        return Ok(0);
    }
    u64::from_str_radix(t, 8).map_err(|_| bad("numeric field was not a number"))
}

fn cstr(field: &[u8]) -> String {
    let end = field.iter().position(|&b| b == 0).unwrap_or(field.len());
    String::from_utf8_lossy(&field[..end]).into_owned()
}

fn pax_records(data: &[u8]) -> Vec<(String, String)> {
    let mut out = Vec::new();
    let mut p = 0;
    while p < data.len() {
        let sp = match data[p..].iter().position(|&b| b == b' ') {
            Some(s) => s,
            None => break,
        };
        let len: usize = match std::str::from_utf8(&data[p..p + sp]).ok().and_then(|s| s.parse().ok()) {
            Some(l) => l,
            None => break,
        };
        if len == 0 || p + len > data.len() {
            break;
        }
        let rec = &data[p + sp + 1..p + len];
        let rec = if rec.ends_with(b"\n") { &rec[..rec.len() - 1] } else { rec };
        if let Some(eq) = rec.iter().position(|&b| b == b'=') {
            out.push((String::from_utf8_lossy(&rec[..eq]).into_owned(), String::from_utf8_lossy(&rec[eq + 1..]).into_owned()));
        }
        p += len;
    }
    out
}

/// Destination of an entry inside `dst`, or None if it must be skipped (`..`, empty).
fn safe_join(dst: &Path, name: &str) -> Option<PathBuf> {
    let mut out = dst.to_path_buf();
    let mut any = false;
    for c in Path::new(name).components() {
        match c {
            Component::Prefix(_) | Component::RootDir | Component::CurDir => continue,
            Component::ParentDir => return None,
            Component::Normal(p) => {
                out.push(p);
                any = true;
            }
        }
    }
    if any {
        Some(out)
    } else {
        None
    }
}

impl<R: Read> Archive<R> {
    pub fn new(r: R) -> Self {
        Archive { r }
    }

    pub fn unpack<P: AsRef<Path>>(&mut self, dst: P) -> io::Result<()> {
        let dst = dst.as_ref();
        if dst.symlink_metadata().is_err() {
            fs::create_dir_all(dst)?;
        }
        let dst = &dst.canonicalize().unwrap_or(dst.to_path_buf());
        let mut data = Vec::new();
        self.r.read_to_end(&mut data)?;
        let n = data.len();
        let mut p = 0usize;
        let mut long_name: Option<String> = None;
        let mut long_link: Option<String> = None;
        let mut pax: Vec<(String, String)> = Vec::new();
        let mut dirs: Vec<PathBuf> = Vec::new();
        while p + 512 <= n {
            let h = &data[p..p + 512];
            if h.iter().all(|&b| b == 0) {
                break; // end-of-archive marker
            }
            // checksum
            let want = octal(&h[148..156])?;
            let mut sum: u64 = 0;
            for (i, &b) in h.iter().enumerate() {
                sum += if (148..156).contains(&i) { 32 } else { b as u64 };
            }
            if sum != want {
                return Err(bad("archive header checksum mismatch"));
            }
            let mut size = octal(&h[124..136])?;
            let typeflag = h[156];
            let mut name = cstr(&h[0..100]);
            let is_ustar = &h[257..262] == b"ustar";
            if is_ustar {
                let prefix = cstr(&h[345..500]);
                if !prefix.is_empty() {
                    name = format!("{prefix}/{name}");
                }
            }
            let mut linkname = cstr(&h[157..257]);
            p += 512;
            let body_start = p;
            match typeflag {
                b'x' | b'g' | b'L' | b'K' => {
                    if body_start + size as usize > n {
                        return Err(bad("unexpected EOF in extension header"));
                    }
                    let body = &data[body_start..body_start + size as usize];
                    match typeflag {
                        b'x' => pax = pax_records(body),
                        b'L' => long_name = Some(cstr(body)),
                        b'K' => long_link = Some(cstr(body)),
                        _ => {}
                    }
                    p = body_start + ((size as usize + 511) / 512) * 512;
                    continue;
                }
                _ => {}
            }
            if let Some(l) = long_name.take() {
                name = l;
            }
            if let Some(l) = long_link.take() {
                linkname = l;
            }
            for (k, v) in pax.drain(..) {
                match k.as_str() {
                    "path" => name = v,
                    "linkpath" => linkname = v,
                    "size" => size = v.parse().map_err(|_| bad("bad pax size"))?,
                    _ => {}
                }
            }
            let padded = ((size as usize + 511) / 512) * 512;
            let is_file = matches!(typeflag, b'0' | 0 | b'7');
            if is_file && body_start + size as usize > n {
                return Err(bad("unexpected EOF while reading file contents"));
            }
            let target = safe_join(dst, &name);
            match (typeflag, target) {
                (_, None) => {}
                (b'5', Some(t)) => {
                    fs::create_dir_all(&t)?;
                    dirs.push(t);
                }
                (b'0' | 0 | b'7', Some(t)) => {
                    if name.ends_with('/') {
                        fs::create_dir_all(&t)?;
                    } else {
                        if let Some(parent) = t.parent() {
                            fs::create_dir_all(parent)?;
                        }
                        if t.symlink_metadata().is_ok() {
                            let _ = fs::remove_file(&t);
                        }
                        let mut f = fs::File::create(&t)?;
                        f.write_all(&data[body_start..body_start + size as usize])?;
                    }
                }
                (b'2', Some(t)) => {
                    if let Some(parent) = t.parent() {
                        fs::create_dir_all(parent)?;
                    }
                    #[cfg(unix)]
                    {
                        let _ = fs::remove_file(&t);
                        std::os::unix::fs::symlink(&linkname, &t)?;
                    }
                }
                (b'1', Some(t)) => {
                    if let Some(src) = safe_join(dst, &linkname) {
                        if let Some(parent) = t.parent() {
                            fs::create_dir_all(parent)?;
                        }
                        let _ = fs::remove_file(&t);
                        fs::hard_link(src, &t)?;
                    }
                }
                _ => {} // devices, fifos: ignored
            }
            p = body_start + if is_file { padded } else { 0 };
        }
        let _ = dirs;
        Ok(())
    }
}

/// Writer stub.
pub struct Builder<W: Write> {
    _w: W,
}

impl<W: Write> Builder<W> {
    pub fn new(w: W) -> Self {
        Builder { _w: w }
    }
    pub fn append_dir_all<P: AsRef<Path>, Q: AsRef<Path>>(&mut self, _path: P, _src_path: Q) -> io::Result<()> {
        Err(io::Error::new(io::ErrorKind::Unsupported, "tar shim: writing archives is not implemented"))
    }
    pub fn finish(&mut self) -> io::Result<()> {
        Ok(())
    }
}
