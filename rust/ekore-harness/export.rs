//! Verification-only window into crate-private items of `ekore`.
//!
//! This file is *not* part of the repository: the C28 check compiles the
//! repository's `crates/ekore/src` tree (through symlinks) with this module
//! appended to `lib.rs`, so that the harness can evaluate the cached harmonic
//! sums (`Cache::get` and `K` are `pub(crate)`).

use crate::harmonics::cache::{Cache, K};
use num::complex::Complex;

/// All cache elements at `n`, each evaluated from a fresh cache, in declaration order.
pub fn harmonics(n: Complex<f64>) -> Vec<(&'static str, Complex<f64>)> {
    let ks: [(&'static str, K); 20] = [
        ("S1", K::S1),
        ("S2", K::S2),
        ("S3", K::S3),
        ("S4", K::S4),
        ("S5", K::S5),
        ("S1h", K::S1h),
        ("S2h", K::S2h),
        ("S3h", K::S3h),
        ("S1mh", K::S1mh),
        ("S2mh", K::S2mh),
        ("S3mh", K::S3mh),
        ("G3", K::G3),
        ("Sm1e", K::Sm1e),
        ("Sm1o", K::Sm1o),
        ("Sm2e", K::Sm2e),
        ("Sm2o", K::Sm2o),
        ("Sm3e", K::Sm3e),
        ("Sm3o", K::Sm3o),
        ("Sm21e", K::Sm21e),
        ("Sm21o", K::Sm21o),
    ];
    let mut out = Vec::new();
    for (name, k) in ks {
        let mut c = Cache::new(n);
        out.push((name, c.get(k)));
    }
    out
}

/// Same elements, but all taken from one shared cache (the way the anomalous dimensions use it).
pub fn harmonics_shared(n: Complex<f64>) -> Vec<Complex<f64>> {
    let mut c = Cache::new(n);
    vec![
        c.get(K::S1),
        c.get(K::S2),
        c.get(K::S3),
        c.get(K::S4),
        c.get(K::S5),
        c.get(K::S1h),
        c.get(K::S2h),
        c.get(K::S3h),
        c.get(K::S1mh),
        c.get(K::S2mh),
        c.get(K::S3mh),
        c.get(K::G3),
        c.get(K::Sm1e),
        c.get(K::Sm1o),
        c.get(K::Sm2e),
        c.get(K::Sm2o),
        c.get(K::Sm3e),
        c.get(K::Sm3o),
        c.get(K::Sm21e),
        c.get(K::Sm21o),
    ]
}
