//! Line protocol (stdin -> stdout), one request per line, whitespace separated.
//! Floats travel as 16-hex-digit IEEE-754 bit patterns, so nothing is lost in text.
//!
//!   shim <op> <a.re> <a.im> <b.re> <b.im> <k>       one Complex operation of the num shim
//!   harm <n.re> <n.im>                               20 cache elements (fresh cache each)
//!   harmshared <n.re> <n.im>                         20 cache elements (one shared cache)
//!   ns <order> <mode> <n.re> <n.im> <nf> <v0> <v1> <v2>
//!   s <order> <n.re> <n.im> <nf> <v0> <v1> <v2> <v3>
//!   nsqed <oqcd> <oqed> <mode> <n.re> <n.im> <nf> <v0> <v1> <v2>
//!   sqed <oqcd> <oqed> <n.re> <n.im> <nf> <v0..v6>
//!   vqed <oqcd> <oqed> <n.re> <n.im> <nf> <v0> <v1> <v2>
//!   polns <order> <mode> <n.re> <n.im> <nf>
//!   pols <order> <n.re> <n.im> <nf>
//!   omes <order> <n.re> <n.im> <nf> <L>
//!   omens <order> <n.re> <n.im> <nf> <L>
//!
//! Reply: "OK <re> <im> <re> <im> ..." (row-major), "PANIC <msg>" or "ERR <msg>".

use ekore::anomalous_dimensions::polarized::spacelike as pol;
use ekore::anomalous_dimensions::unpolarized::spacelike as unpol;
use ekore::harmonics::cache::Cache;
use ekore::operator_matrix_elements::unpolarized::spacelike as ome;
use num::complex::Complex;
use num::traits::Pow;
use std::io::{self, BufRead, Write};
use std::panic;

fn f(tok: &str) -> Result<f64, String> {
    u64::from_str_radix(tok, 16)
        .map(f64::from_bits)
        .map_err(|e| format!("bad float {tok}: {e}"))
}
fn u(tok: &str) -> Result<u64, String> {
    tok.parse::<u64>().map_err(|e| format!("bad int {tok}: {e}"))
}
fn i(tok: &str) -> Result<i64, String> {
    tok.parse::<i64>().map_err(|e| format!("bad int {tok}: {e}"))
}

fn push(out: &mut Vec<f64>, z: Complex<f64>) {
    out.push(z.re);
    out.push(z.im);
}

fn shim(t: &[&str]) -> Result<Vec<f64>, String> {
    let op = t[0];
    let a = Complex::new(f(t[1])?, f(t[2])?);
    let b = Complex::new(f(t[3])?, f(t[4])?);
    let k = i(t[5])?;
    let mut out = Vec::new();
    let z = match op {
        "add" => a + b,
        "sub" => a - b,
        "mul" => a * b,
        "div" => a / b,
        "neg" => -a,
        "addf" => a + b.re,
        "subf" => a - b.re,
        "mulf" => a * b.re,
        "divf" => a / b.re,
        "fadd" => b.re + a,
        "fsub" => b.re - a,
        "fmul" => b.re * a,
        "fdiv" => b.re / a,
        "powu" => a.powu(k as u32),
        "powi" => a.powi(k as i32),
        "powf" => a.powf(b.re),
        "powc" => a.powc(b),
        "powtrait" => Pow::pow(a, k as u32),
        "numpow" => num::pow(a, k as usize),
        "ln" => a.ln(),
        "exp" => a.exp(),
        "sqrt" => a.sqrt(),
        "inv" => a.inv(),
        "conj" => a.conj(),
        "norm" => Complex::new(a.norm(), a.norm_sqr()),
        "arg" => Complex::new(a.arg(), 0.0),
        "addassign" => {
            let mut c = a;
            c += b;
            c -= b.re;
            c
        }
        "mulassign" => {
            let mut c = a;
            c *= b;
            c /= b.re;
            c
        }
        "fpow" => Complex::new(Pow::pow(a.re, k as i32), Pow::pow(a.re.abs(), b.re)),
        _ => return Err(format!("unknown shim op {op}")),
    };
    push(&mut out, z);
    Ok(out)
}

fn handle(line: &str) -> Result<Vec<f64>, String> {
    let t: Vec<&str> = line.split_whitespace().collect();
    if t.is_empty() {
        return Err("empty".into());
    }
    let mut out: Vec<f64> = Vec::new();
    match t[0] {
        "shim" => return shim(&t[1..]),
        "harm" => {
            let n = Complex::new(f(t[1])?, f(t[2])?);
            for (_, z) in ekore::verif_export::harmonics(n) {
                push(&mut out, z);
            }
        }
        "harmshared" => {
            let n = Complex::new(f(t[1])?, f(t[2])?);
            for z in ekore::verif_export::harmonics_shared(n) {
                push(&mut out, z);
            }
        }
        "ns" => {
            let order = u(t[1])? as usize;
            let mode = u(t[2])? as u16;
            let mut c = Cache::new(Complex::new(f(t[3])?, f(t[4])?));
            let nf = u(t[5])? as u8;
            let v = [u(t[6])? as u8, u(t[7])? as u8, u(t[8])? as u8];
            for z in unpol::gamma_ns_qcd(order, mode, &mut c, nf, v) {
                push(&mut out, z);
            }
        }
        "s" => {
            let order = u(t[1])? as usize;
            let mut c = Cache::new(Complex::new(f(t[2])?, f(t[3])?));
            let nf = u(t[4])? as u8;
            let v = [u(t[5])? as u8, u(t[6])? as u8, u(t[7])? as u8, u(t[8])? as u8];
            for m in unpol::gamma_singlet_qcd(order, &mut c, nf, v) {
                for r in m {
                    for z in r {
                        push(&mut out, z);
                    }
                }
            }
        }
        "nsqed" => {
            let (oq, oe) = (u(t[1])? as usize, u(t[2])? as usize);
            let mode = u(t[3])? as u16;
            let mut c = Cache::new(Complex::new(f(t[4])?, f(t[5])?));
            let nf = u(t[6])? as u8;
            let v = [u(t[7])? as u8, u(t[8])? as u8, u(t[9])? as u8];
            for r in unpol::gamma_ns_qed(oq, oe, mode, &mut c, nf, v) {
                for z in r {
                    push(&mut out, z);
                }
            }
        }
        "sqed" => {
            let (oq, oe) = (u(t[1])? as usize, u(t[2])? as usize);
            let mut c = Cache::new(Complex::new(f(t[3])?, f(t[4])?));
            let nf = u(t[5])? as u8;
            let mut v = [0u8; 7];
            for j in 0..7 {
                v[j] = u(t[6 + j])? as u8;
            }
            for a in unpol::gamma_singlet_qed(oq, oe, &mut c, nf, v) {
                for b in a {
                    for r in b {
                        for z in r {
                            push(&mut out, z);
                        }
                    }
                }
            }
        }
        "vqed" => {
            let (oq, oe) = (u(t[1])? as usize, u(t[2])? as usize);
            let mut c = Cache::new(Complex::new(f(t[3])?, f(t[4])?));
            let nf = u(t[5])? as u8;
            let v = [u(t[6])? as u8, u(t[7])? as u8, u(t[8])? as u8];
            for a in unpol::gamma_valence_qed(oq, oe, &mut c, nf, v) {
                for b in a {
                    for r in b {
                        for z in r {
                            push(&mut out, z);
                        }
                    }
                }
            }
        }
        "polns" => {
            let order = u(t[1])? as usize;
            let mode = u(t[2])? as u16;
            let mut c = Cache::new(Complex::new(f(t[3])?, f(t[4])?));
            let nf = u(t[5])? as u8;
            for z in pol::gamma_ns_qcd(order, mode, &mut c, nf, [0, 0, 0]) {
                push(&mut out, z);
            }
        }
        "pols" => {
            let order = u(t[1])? as usize;
            let mut c = Cache::new(Complex::new(f(t[2])?, f(t[3])?));
            let nf = u(t[4])? as u8;
            for m in pol::gamma_singlet_qcd(order, &mut c, nf, [0, 0, 0, 0]) {
                for r in m {
                    for z in r {
                        push(&mut out, z);
                    }
                }
            }
        }
        "omes" => {
            let order = u(t[1])? as usize;
            let mut c = Cache::new(Complex::new(f(t[2])?, f(t[3])?));
            let nf = u(t[4])? as u8;
            let l = f(t[5])?;
            for m in ome::A_singlet(order, &mut c, nf, l) {
                for r in m {
                    for z in r {
                        push(&mut out, z);
                    }
                }
            }
        }
        "omens" => {
            let order = u(t[1])? as usize;
            let mut c = Cache::new(Complex::new(f(t[2])?, f(t[3])?));
            let nf = u(t[4])? as u8;
            let l = f(t[5])?;
            for m in ome::A_non_singlet(order, &mut c, nf, l) {
                for r in m {
                    for z in r {
                        push(&mut out, z);
                    }
                }
            }
        }
        other => return Err(format!("unknown request {other}")),
    }
    Ok(out)
}

fn main() {
    panic::set_hook(Box::new(|_| {}));
    let stdin = io::stdin();
    let stdout = io::stdout();
    let mut w = io::BufWriter::new(stdout.lock());
    for line in stdin.lock().lines() {
        let line = match line {
            Ok(l) => l,
            Err(_) => break,
        };
        if line.trim().is_empty() {
            continue;
        }
        let l2 = line.clone();
        let res = panic::catch_unwind(move || handle(&l2));
        match res {
            Ok(Ok(vals)) => {
                let mut s = String::from("OK");
                for v in vals {
                    s.push(' ');
                    s.push_str(&format!("{:016x}", v.to_bits()));
                }
                writeln!(w, "{s}").unwrap();
            }
            Ok(Err(e)) => writeln!(w, "ERR {e}").unwrap(),
            Err(p) => {
                let msg = p
                    .downcast_ref::<&str>()
                    .map(|s| s.to_string())
                    .or_else(|| p.downcast_ref::<String>().cloned())
                    .unwrap_or_else(|| "panic".into());
                writeln!(w, "PANIC {}", msg.replace('\n', " ")).unwrap();
            }
        }
    }
    w.flush().unwrap();
}
