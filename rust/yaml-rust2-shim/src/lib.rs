//! `yaml_rust2::{Yaml, YamlLoader}` for the documents eko writes as operator headers:
//! a block mapping `key: scalar` per line.  Scalars are resolved exactly like
//! yaml-rust2 does (`Yaml::from_str`: 0x/0o/+ integers, i64, then f64 incl. `.inf`/`.nan`,
//! `true`/`false`, `~`/`null`; quoted scalars are strings; `!!int/!!float/!!bool/!!null`
//! tags are honoured, other tags on scalars give strings).  Nested collections
//! (block sequences/mappings, flow collections) are recognised and returned as
//! opaque `Array`/`Hash` nodes - they are never scalars, which is all a header reader asks.

use std::ops::Index;

#[derive(Clone, Debug, PartialEq)]
pub enum Yaml {
    Real(String),
    Integer(i64),
    String(String),
    Boolean(bool),
    Array(Vec<Yaml>),
    Hash(Vec<(Yaml, Yaml)>),
    Null,
    BadValue,
}

static BAD_VALUE: Yaml = Yaml::BadValue;

#[derive(Debug, Clone, PartialEq)]
pub struct ScanError {
    pub info: String,
    pub line: usize,
}
impl std::fmt::Display for ScanError {
    fn fmt(&self, f: &mut std::fmt::Formatter<'_>) -> std::fmt::Result {
        write!(f, "{} at line {}", self.info, self.line)
    }
}
impl std::error::Error for ScanError {}

fn parse_f64(v: &str) -> Option<f64> {
    match v {
        ".inf" | ".Inf" | ".INF" | "+.inf" | "+.Inf" | "+.INF" => Some(f64::INFINITY),
        "-.inf" | "-.Inf" | "-.INF" => Some(f64::NEG_INFINITY),
        ".nan" | "NaN" | ".NAN" => Some(f64::NAN),
        _ => v.parse::<f64>().ok(),
    }
}

impl Yaml {
    /// Resolve a plain scalar (yaml-rust2 `Yaml::from_str`).
    #[allow(clippy::should_implement_trait)]
    pub fn from_str(v: &str) -> Yaml {
        if let Some(n) = v.strip_prefix("0x") {
            if let Ok(i) = i64::from_str_radix(n, 16) {
                return Yaml::Integer(i);
            }
        }
        if let Some(n) = v.strip_prefix("0o") {
            if let Ok(i) = i64::from_str_radix(n, 8) {
                return Yaml::Integer(i);
            }
        }
        if let Some(n) = v.strip_prefix('+') {
            if let Ok(i) = n.parse::<i64>() {
                return Yaml::Integer(i);
            }
        }
        match v {
            "~" | "null" => Yaml::Null,
            "true" => Yaml::Boolean(true),
            "false" => Yaml::Boolean(false),
            _ => {
                if let Ok(i) = v.parse::<i64>() {
                    Yaml::Integer(i)
                } else if parse_f64(v).is_some() {
                    Yaml::Real(v.to_owned())
                } else {
                    Yaml::String(v.to_owned())
                }
            }
        }
    }
    pub fn as_f64(&self) -> Option<f64> {
        match self {
            Yaml::Real(v) => parse_f64(v),
            _ => None,
        }
    }
    pub fn as_i64(&self) -> Option<i64> {
        match self {
            Yaml::Integer(v) => Some(*v),
            _ => None,
        }
    }
    pub fn as_str(&self) -> Option<&str> {
        match self {
            Yaml::String(v) => Some(v),
            _ => None,
        }
    }
    pub fn as_bool(&self) -> Option<bool> {
        match self {
            Yaml::Boolean(v) => Some(*v),
            _ => None,
        }
    }
    pub fn is_badvalue(&self) -> bool {
        matches!(self, Yaml::BadValue)
    }
    pub fn is_null(&self) -> bool {
        matches!(self, Yaml::Null)
    }
}

impl<'a> Index<&'a str> for Yaml {
    type Output = Yaml;
    fn index(&self, idx: &'a str) -> &Yaml {
        let key = Yaml::String(idx.to_owned());
        match self {
            Yaml::Hash(h) => h.iter().find(|(k, _)| *k == key).map(|(_, v)| v).unwrap_or(&BAD_VALUE),
            _ => &BAD_VALUE,
        }
    }
}
impl Index<usize> for Yaml {
    type Output = Yaml;
    fn index(&self, idx: usize) -> &Yaml {
        match self {
            Yaml::Array(v) => v.get(idx).unwrap_or(&BAD_VALUE),
            _ => &BAD_VALUE,
        }
    }
}

pub struct YamlLoader;

fn strip_comment(s: &str) -> &str {
    // a '#' starts a comment at line start or after whitespace, outside quotes
    let b = s.as_bytes();
    let mut in_s = false;
    let mut in_d = false;
    for i in 0..b.len() {
        match b[i] {
            b'\'' if !in_d => in_s = !in_s,
            b'"' if !in_s => in_d = !in_d,
            b'#' if !in_s && !in_d && (i == 0 || b[i - 1] == b' ' || b[i - 1] == b'\t') => return &s[..i],
            _ => {}
        }
    }
    s
}

fn unquote(v: &str, line: usize) -> Result<Option<String>, ScanError> {
    let c = v.chars().next().unwrap_or(' ');
    if c == '\'' {
        if v.len() < 2 || !v.ends_with('\'') {
            return Err(ScanError { info: "unterminated single-quoted scalar".into(), line });
        }
        return Ok(Some(v[1..v.len() - 1].replace("''", "'")));
    }
    if c == '"' {
        if v.len() < 2 || !v.ends_with('"') {
            return Err(ScanError { info: "unterminated double-quoted scalar".into(), line });
        }
        let inner = &v[1..v.len() - 1];
        let mut out = String::new();
        let mut it = inner.chars();
        while let Some(ch) = it.next() {
            if ch == '\\' {
                match it.next() {
                    Some('n') => out.push('\n'),
                    Some('t') => out.push('\t'),
                    Some('"') => out.push('"'),
                    Some('\\') => out.push('\\'),
                    Some('0') => out.push('\0'),
                    Some(o) => out.push(o),
                    None => {}
                }
            } else {
                out.push(ch);
            }
        }
        return Ok(Some(out));
    }
    Ok(None)
}

fn scalar(v: &str, line: usize) -> Result<Yaml, ScanError> {
    let v = v.trim();
    // optional tag
    if let Some(rest) = v.strip_prefix('!') {
        let (tag, val) = match rest.find(char::is_whitespace) {
            Some(p) => (&rest[..p], rest[p..].trim()),
            None => (rest, ""),
        };
        if let Some(s) = unquote(val, line)? {
            return Ok(Yaml::String(s));
        }
        // `!!xyz` is the core schema handle
        return Ok(match tag.strip_prefix('!') {
            Some("bool") => match val.parse::<bool>() {
                Ok(b) => Yaml::Boolean(b),
                Err(_) => Yaml::BadValue,
            },
            Some("int") => match val.parse::<i64>() {
                Ok(i) => Yaml::Integer(i),
                Err(_) => Yaml::BadValue,
            },
            Some("float") => match parse_f64(val) {
                Some(_) => Yaml::Real(val.to_owned()),
                None => Yaml::BadValue,
            },
            Some("null") => match val {
                "~" | "null" => Yaml::Null,
                _ => Yaml::BadValue,
            },
            _ => Yaml::String(val.to_owned()),
        });
    }
    if let Some(s) = unquote(v, line)? {
        return Ok(Yaml::String(s));
    }
    if v.starts_with('[') {
        return Ok(Yaml::Array(Vec::new()));
    }
    if v.starts_with('{') {
        return Ok(Yaml::Hash(Vec::new()));
    }
    if v.starts_with('&') || v.starts_with('*') || v.starts_with('|') || v.starts_with('>') {
        return Ok(Yaml::String(v.to_owned()));
    }
    Ok(Yaml::from_str(v))
}

fn indent_of(l: &str) -> usize {
    l.len() - l.trim_start_matches(' ').len()
}

impl YamlLoader {
    pub fn load_from_str(source: &str) -> Result<Vec<Yaml>, ScanError> {
        let mut docs: Vec<Yaml> = Vec::new();
        let mut cur: Option<Vec<(Yaml, Yaml)>> = None;
        let mut top_scalar: Option<Yaml> = None;
        let lines: Vec<&str> = source.lines().collect();
        let mut i = 0;
        while i < lines.len() {
            let raw = lines[i];
            let lno = i + 1;
            if raw.contains('\t') && raw.trim_start_matches(' ').starts_with('\t') {
                return Err(ScanError { info: "tab used for indentation".into(), line: lno });
            }
            let l = strip_comment(raw).trim_end();
            if l.trim().is_empty() {
                i += 1;
                continue;
            }
            if l.starts_with("%") {
                i += 1;
                continue;
            }
            if l == "---" || l.starts_with("--- ") || l == "..." {
                if let Some(h) = cur.take() {
                    docs.push(Yaml::Hash(h));
                } else if let Some(s) = top_scalar.take() {
                    docs.push(s);
                }
                i += 1;
                continue;
            }
            let ind = indent_of(l);
            if ind > 0 {
                return Err(ScanError { info: "unexpected indentation at top level".into(), line: lno });
            }
            // key: value
            let (key, val) = match split_key(l) {
                Some(kv) => kv,
                None => {
                    if cur.is_none() && top_scalar.is_none() {
                        top_scalar = Some(scalar(l, lno)?);
                        i += 1;
                        continue;
                    }
                    return Err(ScanError { info: "mapping values are not allowed in this context / missing ':'".into(), line: lno });
                }
            };
            let keyy = match unquote(key, lno)? {
                Some(s) => Yaml::String(s),
                None => Yaml::from_str(key),
            };
            // a tag or anchor alone, or nothing: the value is on the following lines
            let only_props = val.is_empty() || ((val.starts_with('!') || val.starts_with('&')) && !val.contains(char::is_whitespace));
            let mut value;
            if only_props {
                // look ahead: nested block (indented lines, or "- " items at the same indentation)
                let mut j = i + 1;
                let mut kind: Option<Yaml> = None;
                while j < lines.len() {
                    let nl = strip_comment(lines[j]).trim_end();
                    if nl.trim().is_empty() {
                        j += 1;
                        continue;
                    }
                    let nind = indent_of(nl);
                    let is_item = nl.trim_start().starts_with("- ") || nl.trim() == "-";
                    if nind > 0 || (nind == 0 && is_item) {
                        if kind.is_none() {
                            kind = Some(if is_item { Yaml::Array(Vec::new()) } else if split_key(nl.trim_start()).is_some() { Yaml::Hash(Vec::new()) } else { Yaml::String(nl.trim().to_owned()) });
                        }
                        j += 1;
                    } else {
                        break;
                    }
                }
                value = kind.unwrap_or(Yaml::Null);
                i = j;
            } else {
                value = scalar(val, lno)?;
                // plain multi-line scalars / nested content after an inline value: swallow continuation lines
                let mut j = i + 1;
                while j < lines.len() {
                    let nl = strip_comment(lines[j]).trim_end();
                    if !nl.trim().is_empty() && indent_of(nl) == 0 {
                        break;
                    }
                    if !nl.trim().is_empty() {
                        value = Yaml::String(format!("{} {}", val, nl.trim()));
                    }
                    j += 1;
                }
                i = j;
            }
            let h = cur.get_or_insert_with(Vec::new);
            if let Some(slot) = h.iter_mut().find(|(k, _)| *k == keyy) {
                slot.1 = value;
            } else {
                h.push((keyy, value));
            }
        }
        if let Some(h) = cur.take() {
            docs.push(Yaml::Hash(h));
        } else if let Some(s) = top_scalar.take() {
            docs.push(s);
        }
        Ok(docs)
    }
}

/// Split `key: value` at the first ": " (or trailing ':') outside quotes.
fn split_key(l: &str) -> Option<(&str, &str)> {
    let b = l.as_bytes();
    let mut in_s = false;
    let mut in_d = false;
    for i in 0..b.len() {
        match b[i] {
            b'\'' if !in_d => in_s = !in_s,
            b'"' if !in_s => in_d = !in_d,
            b':' if !in_s && !in_d => {
                if i + 1 == b.len() {
                    return Some((l[..i].trim(), ""));
                }
                if b[i + 1] == b' ' {
                    return Some((l[..i].trim(), l[i + 1..].trim()));
                }
            }
            _ => {}
        }
    }
    None
}
