//! `ndarray::Array4<A>`: owned rank-4 array with either C or Fortran memory layout.

use std::ops::Index;

#[derive(Clone, Debug, PartialEq)]
pub struct Array4<A> {
    dim: [usize; 4],
    strides: [usize; 4],
    data: Vec<A>,
}

#[derive(Debug)]
pub struct ShapeError;

impl<A> Array4<A> {
    /// Build from a flat vector in memory order; `fortran` selects column-major strides.
    pub fn from_shape_vec_order(dim: (usize, usize, usize, usize), data: Vec<A>, fortran: bool) -> Result<Self, ShapeError> {
        let d = [dim.0, dim.1, dim.2, dim.3];
        let n = d.iter().try_fold(1usize, |a, &b| a.checked_mul(b)).ok_or(ShapeError)?;
        if n != data.len() {
            return Err(ShapeError);
        }
        let strides = if fortran {
            [1, d[0], d[0] * d[1], d[0] * d[1] * d[2]]
        } else {
            [d[1] * d[2] * d[3], d[2] * d[3], d[3], 1]
        };
        Ok(Array4 { dim: d, strides, data })
    }
    pub fn from_shape_vec(dim: (usize, usize, usize, usize), data: Vec<A>) -> Result<Self, ShapeError> {
        Self::from_shape_vec_order(dim, data, false)
    }
    pub fn dim(&self) -> (usize, usize, usize, usize) {
        (self.dim[0], self.dim[1], self.dim[2], self.dim[3])
    }
    pub fn shape(&self) -> &[usize] {
        &self.dim
    }
    pub fn len(&self) -> usize {
        self.data.len()
    }
    pub fn is_empty(&self) -> bool {
        self.data.is_empty()
    }
    pub fn ndim(&self) -> usize {
        4
    }
    /// Iterate in logical (row-major index) order, whatever the memory layout.
    pub fn iter(&self) -> impl Iterator<Item = &A> + '_ {
        let d = self.dim;
        let s = self.strides;
        (0..self.data.len()).map(move |flat| {
            let l = flat % d[3];
            let k = (flat / d[3]) % d[2];
            let j = (flat / (d[3] * d[2])) % d[1];
            let i = flat / (d[3] * d[2] * d[1]);
            &self.data[i * s[0] + j * s[1] + k * s[2] + l * s[3]]
        })
    }
}

impl<A> Index<[usize; 4]> for Array4<A> {
    type Output = A;
    fn index(&self, ix: [usize; 4]) -> &A {
        for a in 0..4 {
            assert!(ix[a] < self.dim[a], "ndarray: index out of bounds");
        }
        &self.data[ix[0] * self.strides[0] + ix[1] * self.strides[1] + ix[2] * self.strides[2] + ix[3] * self.strides[3]]
    }
}
