//! Minimal stand-in for the `num` crate (offline build of `crates/ekore`).
//!
//! Only what ekore uses: `num::complex::Complex<f64>` with arithmetic (also
//! against `f64`), `powu/powi/powf/powc`, `ln/exp/sqrt/norm/norm_sqr/arg/inv/conj`,
//! the `Zero`/`One` traits, `num::traits::Pow` for `f64` and `Complex`, and the
//! free function `num::pow`.  The algorithms mirror num-complex 0.4 (naive
//! product/quotient formulas, exponentiation by squaring) so that rounding is
//! the same to the last few ulp; the C28 check validates them against mpmath
//! on random operands in every run.

pub mod traits {
    /// Additive identity.
    pub trait Zero: Sized {
        fn zero() -> Self;
        fn is_zero(&self) -> bool;
        fn set_zero(&mut self) {
            *self = Self::zero();
        }
    }
    /// Multiplicative identity.
    pub trait One: Sized {
        fn one() -> Self;
    }
    /// Generic power.
    pub trait Pow<RHS> {
        type Output;
        fn pow(self, rhs: RHS) -> Self::Output;
    }

    impl Zero for f64 {
        fn zero() -> Self {
            0.0
        }
        fn is_zero(&self) -> bool {
            *self == 0.0
        }
    }
    impl One for f64 {
        fn one() -> Self {
            1.0
        }
    }
    macro_rules! int_identities {
        ($($t:ty),*) => {$(
            impl Zero for $t { fn zero() -> Self { 0 } fn is_zero(&self) -> bool { *self == 0 } }
            impl One for $t { fn one() -> Self { 1 } }
        )*};
    }
    int_identities!(u8, u16, u32, u64, usize, i8, i16, i32, i64, isize);

    impl Pow<i32> for f64 {
        type Output = f64;
        fn pow(self, rhs: i32) -> f64 {
            self.powi(rhs)
        }
    }
    impl Pow<f64> for f64 {
        type Output = f64;
        fn pow(self, rhs: f64) -> f64 {
            self.powf(rhs)
        }
    }

    /// Raises a value to the power of exp, using exponentiation by squaring (as num-traits).
    pub fn pow<T: Clone + One + core::ops::Mul<T, Output = T>>(mut base: T, mut exp: usize) -> T {
        if exp == 0 {
            return T::one();
        }
        while exp & 1 == 0 {
            base = base.clone() * base;
            exp >>= 1;
        }
        if exp == 1 {
            return base;
        }
        let mut acc = base.clone();
        while exp > 1 {
            exp >>= 1;
            base = base.clone() * base;
            if exp & 1 == 1 {
                acc = acc * base.clone();
            }
        }
        acc
    }
}

pub use traits::{pow, One, Pow, Zero};

pub mod complex {
    use super::traits::{One, Pow, Zero};
    use core::ops::{Add, AddAssign, Div, DivAssign, Mul, MulAssign, Neg, Sub, SubAssign};

    /// A complex number in Cartesian form.
    #[derive(PartialEq, Copy, Clone, Debug, Default)]
    #[repr(C)]
    pub struct Complex<T> {
        pub re: T,
        pub im: T,
    }

    pub type Complex64 = Complex<f64>;

    impl<T> Complex<T> {
        #[inline]
        pub const fn new(re: T, im: T) -> Self {
            Complex { re, im }
        }
    }

    impl Complex<f64> {
        #[inline]
        pub fn i() -> Self {
            Complex::new(0.0, 1.0)
        }
        #[inline]
        pub fn norm_sqr(&self) -> f64 {
            self.re * self.re + self.im * self.im
        }
        #[inline]
        pub fn norm(&self) -> f64 {
            self.re.hypot(self.im)
        }
        #[inline]
        pub fn arg(&self) -> f64 {
            self.im.atan2(self.re)
        }
        #[inline]
        pub fn to_polar(&self) -> (f64, f64) {
            (self.norm(), self.arg())
        }
        #[inline]
        pub fn from_polar(r: f64, theta: f64) -> Self {
            Complex::new(r * theta.cos(), r * theta.sin())
        }
        #[inline]
        pub fn conj(&self) -> Self {
            Complex::new(self.re, -self.im)
        }
        #[inline]
        pub fn scale(&self, t: f64) -> Self {
            Complex::new(self.re * t, self.im * t)
        }
        #[inline]
        pub fn unscale(&self, t: f64) -> Self {
            Complex::new(self.re / t, self.im / t)
        }
        #[inline]
        pub fn inv(&self) -> Self {
            let norm_sqr = self.norm_sqr();
            Complex::new(self.re / norm_sqr, -self.im / norm_sqr)
        }
        #[inline]
        pub fn is_nan(&self) -> bool {
            self.re.is_nan() || self.im.is_nan()
        }
        #[inline]
        pub fn is_finite(&self) -> bool {
            self.re.is_finite() && self.im.is_finite()
        }
        #[inline]
        pub fn exp(&self) -> Self {
            Complex::from_polar(self.re.exp(), self.im)
        }
        #[inline]
        pub fn ln(&self) -> Self {
            let (r, theta) = self.to_polar();
            Complex::new(r.ln(), theta)
        }
        pub fn sqrt(&self) -> Self {
            if self.im == 0.0 {
                if self.re >= 0.0 {
                    Complex::new(self.re.sqrt(), self.im)
                } else {
                    let re = 0.0;
                    let im = (-self.re).sqrt();
                    if self.im.is_sign_positive() {
                        Complex::new(re, im)
                    } else {
                        Complex::new(re, -im)
                    }
                }
            } else {
                let (r, theta) = self.to_polar();
                Complex::from_polar(r.sqrt(), theta / 2.0)
            }
        }
        /// Integer power by squaring (num-complex `Pow<u32>`).
        pub fn powu(&self, exp: u32) -> Self {
            super::traits::pow(*self, exp as usize)
        }
        pub fn powi(&self, exp: i32) -> Self {
            if exp < 0 {
                self.inv().powu(exp.wrapping_neg() as u32)
            } else {
                self.powu(exp as u32)
            }
        }
        pub fn powf(&self, exp: f64) -> Self {
            if exp == 0.0 {
                return Complex::one();
            }
            let (r, theta) = self.to_polar();
            Complex::from_polar(r.powf(exp), theta * exp)
        }
        pub fn powc(&self, exp: Self) -> Self {
            if exp.is_zero() {
                return Complex::one();
            }
            let (r, theta) = self.to_polar();
            Complex::from_polar(
                r.powf(exp.re) * (-exp.im * theta).exp(),
                exp.re * theta + exp.im * r.ln(),
            )
        }
    }

    impl Zero for Complex<f64> {
        #[inline]
        fn zero() -> Self {
            Complex::new(0.0, 0.0)
        }
        #[inline]
        fn is_zero(&self) -> bool {
            self.re == 0.0 && self.im == 0.0
        }
    }
    impl One for Complex<f64> {
        #[inline]
        fn one() -> Self {
            Complex::new(1.0, 0.0)
        }
    }
    impl From<f64> for Complex<f64> {
        #[inline]
        fn from(re: f64) -> Self {
            Complex::new(re, 0.0)
        }
    }

    // ---- Complex (op) Complex
    impl Add for Complex<f64> {
        type Output = Self;
        #[inline]
        fn add(self, o: Self) -> Self {
            Complex::new(self.re + o.re, self.im + o.im)
        }
    }
    impl Sub for Complex<f64> {
        type Output = Self;
        #[inline]
        fn sub(self, o: Self) -> Self {
            Complex::new(self.re - o.re, self.im - o.im)
        }
    }
    impl Mul for Complex<f64> {
        type Output = Self;
        #[inline]
        fn mul(self, o: Self) -> Self {
            Complex::new(self.re * o.re - self.im * o.im, self.re * o.im + self.im * o.re)
        }
    }
    impl Div for Complex<f64> {
        type Output = Self;
        #[inline]
        fn div(self, o: Self) -> Self {
            let norm_sqr = o.norm_sqr();
            let re = self.re * o.re + self.im * o.im;
            let im = self.im * o.re - self.re * o.im;
            Complex::new(re / norm_sqr, im / norm_sqr)
        }
    }
    impl Neg for Complex<f64> {
        type Output = Self;
        #[inline]
        fn neg(self) -> Self {
            Complex::new(-self.re, -self.im)
        }
    }

    // ---- Complex (op) f64
    impl Add<f64> for Complex<f64> {
        type Output = Self;
        #[inline]
        fn add(self, o: f64) -> Self {
            Complex::new(self.re + o, self.im)
        }
    }
    impl Sub<f64> for Complex<f64> {
        type Output = Self;
        #[inline]
        fn sub(self, o: f64) -> Self {
            Complex::new(self.re - o, self.im)
        }
    }
    impl Mul<f64> for Complex<f64> {
        type Output = Self;
        #[inline]
        fn mul(self, o: f64) -> Self {
            Complex::new(self.re * o, self.im * o)
        }
    }
    impl Div<f64> for Complex<f64> {
        type Output = Self;
        #[inline]
        fn div(self, o: f64) -> Self {
            Complex::new(self.re / o, self.im / o)
        }
    }

    // ---- f64 (op) Complex
    impl Add<Complex<f64>> for f64 {
        type Output = Complex<f64>;
        #[inline]
        fn add(self, o: Complex<f64>) -> Complex<f64> {
            Complex::new(self + o.re, o.im)
        }
    }
    impl Sub<Complex<f64>> for f64 {
        type Output = Complex<f64>;
        #[inline]
        fn sub(self, o: Complex<f64>) -> Complex<f64> {
            Complex::new(self - o.re, 0.0 - o.im)
        }
    }
    impl Mul<Complex<f64>> for f64 {
        type Output = Complex<f64>;
        #[inline]
        fn mul(self, o: Complex<f64>) -> Complex<f64> {
            Complex::new(self * o.re, self * o.im)
        }
    }
    impl Div<Complex<f64>> for f64 {
        type Output = Complex<f64>;
        #[inline]
        fn div(self, o: Complex<f64>) -> Complex<f64> {
            let norm_sqr = o.norm_sqr();
            Complex::new(self * o.re / norm_sqr, -self * o.im / norm_sqr)
        }
    }

    // ---- references (ekore mostly works by value, a few sums use refs)
    macro_rules! forward_refs {
        ($imp:ident, $method:ident) => {
            impl<'a> $imp<&'a Complex<f64>> for Complex<f64> {
                type Output = Complex<f64>;
                #[inline]
                fn $method(self, o: &Complex<f64>) -> Complex<f64> {
                    self.$method(*o)
                }
            }
            impl<'a> $imp<Complex<f64>> for &'a Complex<f64> {
                type Output = Complex<f64>;
                #[inline]
                fn $method(self, o: Complex<f64>) -> Complex<f64> {
                    (*self).$method(o)
                }
            }
            impl<'a, 'b> $imp<&'b Complex<f64>> for &'a Complex<f64> {
                type Output = Complex<f64>;
                #[inline]
                fn $method(self, o: &Complex<f64>) -> Complex<f64> {
                    (*self).$method(*o)
                }
            }
            impl<'a> $imp<f64> for &'a Complex<f64> {
                type Output = Complex<f64>;
                #[inline]
                fn $method(self, o: f64) -> Complex<f64> {
                    (*self).$method(o)
                }
            }
        };
    }
    forward_refs!(Add, add);
    forward_refs!(Sub, sub);
    forward_refs!(Mul, mul);
    forward_refs!(Div, div);
    impl<'a> Neg for &'a Complex<f64> {
        type Output = Complex<f64>;
        #[inline]
        fn neg(self) -> Complex<f64> {
            -(*self)
        }
    }

    // ---- compound assignment
    macro_rules! assign_ops {
        ($imp:ident, $method:ident, $op:tt) => {
            impl $imp for Complex<f64> {
                #[inline]
                fn $method(&mut self, o: Self) { *self = *self $op o; }
            }
            impl $imp<f64> for Complex<f64> {
                #[inline]
                fn $method(&mut self, o: f64) { *self = *self $op o; }
            }
            impl<'a> $imp<&'a Complex<f64>> for Complex<f64> {
                #[inline]
                fn $method(&mut self, o: &Complex<f64>) { *self = *self $op *o; }
            }
        };
    }
    assign_ops!(AddAssign, add_assign, +);
    assign_ops!(SubAssign, sub_assign, -);
    assign_ops!(MulAssign, mul_assign, *);
    assign_ops!(DivAssign, div_assign, /);

    impl core::iter::Sum for Complex<f64> {
        fn sum<I: Iterator<Item = Self>>(iter: I) -> Self {
            iter.fold(Complex::zero(), |a, b| a + b)
        }
    }
    impl<'a> core::iter::Sum<&'a Complex<f64>> for Complex<f64> {
        fn sum<I: Iterator<Item = &'a Complex<f64>>>(iter: I) -> Self {
            iter.fold(Complex::zero(), |a, b| a + *b)
        }
    }

    // ---- Pow trait
    impl Pow<u32> for Complex<f64> {
        type Output = Complex<f64>;
        #[inline]
        fn pow(self, e: u32) -> Complex<f64> {
            self.powu(e)
        }
    }
    impl Pow<i32> for Complex<f64> {
        type Output = Complex<f64>;
        #[inline]
        fn pow(self, e: i32) -> Complex<f64> {
            self.powi(e)
        }
    }
    impl Pow<f64> for Complex<f64> {
        type Output = Complex<f64>;
        #[inline]
        fn pow(self, e: f64) -> Complex<f64> {
            self.powf(e)
        }
    }
    impl Pow<Complex<f64>> for Complex<f64> {
        type Output = Complex<f64>;
        #[inline]
        fn pow(self, e: Complex<f64>) -> Complex<f64> {
            self.powc(e)
        }
    }

    impl core::fmt::Display for Complex<f64> {
        fn fmt(&self, f: &mut core::fmt::Formatter<'_>) -> core::fmt::Result {
            if self.im < 0.0 || (self.im == 0.0 && self.im.is_sign_negative()) {
                write!(f, "{}-{}i", self.re, -self.im)
            } else {
                write!(f, "{}+{}i", self.re, self.im)
            }
        }
    }
}

pub use complex::{Complex, Complex64};
