//! dekoder-harness <command> ...
//!
//!   read <archive.tar> <workdir> <outdir>   EKO::extract + available_operators + load_operator for each;
//!                                           writes <outdir>/points.txt and <outdir>/<i>.{op,err}.bin
//!   has <archive.tar> <workdir> <scale-hex> <nf>     EKO::has_operator for a probe point
//!   lz4 <file> <out>                         shim unit check: decode an LZ4 frame
//!   npz <file.npz> <member> <out>            shim unit check: one Array4<f64> member -> "shape\n" + raw LE data
//!   yaml <file>                              shim unit check: print the top-level mapping
//!   untar <archive> <dst>                    shim unit check: unpack
//!
//! All floating point numbers are printed as IEEE-754 bit patterns (16 hex digits).

use dekoder::eko::{EKO, EvolutionPoint};
use std::fs::File;
use std::io::{Cursor, Read, Write};
use std::path::PathBuf;

fn dump(arr: &ndarray::Array4<f64>, path: &PathBuf) -> std::io::Result<()> {
    let mut f = std::io::BufWriter::new(File::create(path)?);
    let (a, b, c, d) = arr.dim();
    writeln!(f, "{a} {b} {c} {d}")?;
    for v in arr.iter() {
        f.write_all(&v.to_le_bytes())?;
    }
    f.flush()
}

fn main() {
    let args: Vec<String> = std::env::args().collect();
    if args.len() < 2 {
        eprintln!("usage: dekoder-harness <command> ...");
        std::process::exit(64);
    }
    let rc = match args[1].as_str() {
        "read" => cmd_read(&args[2..]),
        "has" => cmd_has(&args[2..]),
        "lz4" => cmd_lz4(&args[2..]),
        "npz" => cmd_npz(&args[2..]),
        "yaml" => cmd_yaml(&args[2..]),
        "untar" => cmd_untar(&args[2..]),
        _ => Err("unknown command".to_owned()),
    };
    if let Err(e) = rc {
        println!("FATAL {e}");
        std::process::exit(3);
    }
}

fn cmd_read(a: &[String]) -> Result<(), String> {
    let (tar, work, out) = (PathBuf::from(&a[0]), PathBuf::from(&a[1]), PathBuf::from(&a[2]));
    let eko = EKO::extract(tar, work).map_err(|e| format!("extract: {e} ({e:?})"))?;
    let mut pts = File::create(out.join("points.txt")).map_err(|e| e.to_string())?;
    let eps = eko.available_operators();
    for (i, ep) in eps.iter().enumerate() {
        let probe = EvolutionPoint { scale: ep.scale, nf: ep.nf };
        let has = eko.has_operator(&probe);
        match eko.load_operator(&probe) {
            Ok(op) => {
                let mut status = String::from("OK");
                match op.op {
                    Some(ref t) => dump(t, &out.join(format!("{i}.op.bin"))).map_err(|e| e.to_string())?,
                    None => status.push_str(" NOOP"),
                }
                match op.err {
                    Some(ref t) => dump(t, &out.join(format!("{i}.err.bin"))).map_err(|e| e.to_string())?,
                    None => status.push_str(" NOERR"),
                }
                writeln!(pts, "{i} {:016x} {} {has} {status}", ep.scale.to_bits(), ep.nf).map_err(|e| e.to_string())?;
            }
            Err(e) => {
                writeln!(pts, "{i} {:016x} {} {has} ERR {e} | {e:?}", ep.scale.to_bits(), ep.nf).map_err(|e| e.to_string())?;
            }
        }
    }
    println!("DONE {}", eps.len());
    Ok(())
}

fn cmd_has(a: &[String]) -> Result<(), String> {
    let eko = EKO::extract(PathBuf::from(&a[0]), PathBuf::from(&a[1])).map_err(|e| format!("extract: {e} ({e:?})"))?;
    let scale = f64::from_bits(u64::from_str_radix(&a[2], 16).map_err(|e| e.to_string())?);
    let nf: i64 = a[3].parse().map_err(|_| "bad nf".to_owned())?;
    println!("HAS {}", eko.has_operator(&EvolutionPoint { scale, nf }));
    Ok(())
}

fn cmd_lz4(a: &[String]) -> Result<(), String> {
    let mut r = lz4_flex::frame::FrameDecoder::new(File::open(&a[0]).map_err(|e| e.to_string())?);
    let mut buf = Vec::new();
    r.read_to_end(&mut buf).map_err(|e| format!("decode: {e}"))?;
    File::create(&a[1]).and_then(|mut f| f.write_all(&buf)).map_err(|e| e.to_string())?;
    println!("DONE {}", buf.len());
    Ok(())
}

fn cmd_npz(a: &[String]) -> Result<(), String> {
    let mut buf = Vec::new();
    File::open(&a[0]).and_then(|mut f| f.read_to_end(&mut buf)).map_err(|e| e.to_string())?;
    let mut npz = ndarray_npy::NpzReader::new(Cursor::new(buf)).map_err(|e| format!("npz: {e}"))?;
    let arr: ndarray::Array4<f64> = npz.by_name(&a[1]).map_err(|e| format!("member: {e}"))?;
    dump(&arr, &PathBuf::from(&a[2])).map_err(|e| e.to_string())?;
    println!("DONE {}", arr.len());
    Ok(())
}

fn cmd_yaml(a: &[String]) -> Result<(), String> {
    let txt = std::fs::read_to_string(&a[0]).map_err(|e| e.to_string())?;
    let docs = yaml_rust2::YamlLoader::load_from_str(&txt).map_err(|e| format!("scan: {e}"))?;
    println!("DOCS {}", docs.len());
    if let Some(yaml_rust2::Yaml::Hash(h)) = docs.first() {
        for (k, v) in h {
            let ks = match k {
                yaml_rust2::Yaml::String(s) => s.clone(),
                other => format!("{other:?}"),
            };
            match v {
                yaml_rust2::Yaml::Real(_) => println!("{ks} real {:016x}", v.as_f64().unwrap_or(f64::NAN).to_bits()),
                yaml_rust2::Yaml::Integer(i) => println!("{ks} int {i}"),
                yaml_rust2::Yaml::String(s) => println!("{ks} str {s}"),
                yaml_rust2::Yaml::Boolean(b) => println!("{ks} bool {b}"),
                yaml_rust2::Yaml::Null => println!("{ks} null"),
                yaml_rust2::Yaml::Array(_) => println!("{ks} seq"),
                yaml_rust2::Yaml::Hash(_) => println!("{ks} map"),
                yaml_rust2::Yaml::BadValue => println!("{ks} bad"),
            }
        }
    }
    Ok(())
}

fn cmd_untar(a: &[String]) -> Result<(), String> {
    let mut ar = tar::Archive::new(File::open(&a[0]).map_err(|e| e.to_string())?);
    ar.unpack(&a[1]).map_err(|e| format!("unpack: {e}"))?;
    println!("DONE");
    Ok(())
}
