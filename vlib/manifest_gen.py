"""Regenerate MANIFEST.json from the META dict of every property module.

Usage: python -m vlib.manifest_gen   (run through ./mk_manifest)
"""

import importlib
import json
import pathlib
import pkgutil

from . import core

NOT_APPLICABLE = {}  # pid -> reason (filled from not_applicable.json)


def main():
    home = core.HOME
    props = [json.loads(l) for l in (home / "properties.jsonl").read_text().splitlines() if l.strip()]
    na_file = home / "not_applicable.json"
    na = json.loads(na_file.read_text()) if na_file.exists() else {}
    checks, missing = [], []
    ready_file = home / "ready.txt"
    ready = set(ready_file.read_text().split()) if ready_file.exists() else None
    for p in props:
        pid = p["id"]
        modpath = home / "vlib" / "props" / f"{pid.lower()}.py"
        if pid in na or not modpath.exists() or (ready is not None and pid not in ready):
            missing.append(pid)
            continue
        mod = importlib.import_module(f"vlib.props.{pid.lower()}")
        m = mod.META
        checks.append(
            {
                "property_id": pid,
                "quick_cmd": f"./check {pid} --tier quick",
                "thorough_cmd": f"./check {pid} --tier thorough",
                "evidence_file": f"/verif/evidence/{pid}.json",
                "replay_cmd_template": f"./check {pid} --replay {{path}}",
                "engine": m.get("engine", "vlib"),
                "level_claimed": {
                    "category": m.get("level", "exploration"),
                    "text": m["level_text"],
                    "design_ref": m.get("design_ref", f"DESIGN.md §5 {pid}"),
                },
                "level_note": m["level_note"],
                "technique": m["technique"],
            }
        )
    hooks_file = home / "hooks.json"
    hooks = json.loads(hooks_file.read_text())
    man = {
        "version": 1,
        "setup_cmd": "./setup.sh",
        "hooks": hooks,
        "engines": [
            {
                "name": "vlib",
                "path": "/verif/vlib",
                "serves_properties": [c["property_id"] for c in checks],
                "kind_free_text": "runtime monitors (contracts, boundary wrappers, reference-model and differential oracles, failpoint enumeration) driven by seeded workloads against /repo's working tree",
            }
        ],
        "checks": checks,
        "notes": "All checks: ./check <id> --tier quick|thorough, env VERIF_SEED honoured; exit 0 held / 1 VIOLATION / 2 INCONCLUSIVE. See DESIGN.md.",
        "not_applicable": [
            {"property_id": pid, "reason": na.get(pid, "check not built yet in this session (planned, see DESIGN.md §5)")}
            for pid in missing
        ],
    }
    (home / "MANIFEST.json").write_text(json.dumps(man, indent=1) + "\n")
    import jsonschema

    schema = json.loads(pathlib.Path("/root/.vp/MANIFEST.schema.json").read_text())
    jsonschema.validate(man, schema)
    print(f"MANIFEST.json: {len(checks)} checks, {len(missing)} not claimed: {missing}")


if __name__ == "__main__":
    main()
