"""Core of the monitoring framework: three-valued verdicts, evidence, findings.

A property module (``vlib/props/cNN.py``) exposes ``META`` (dict) and
``run(ck)``.  ``ck`` is a :class:`Check`; the module generates cases, drives the
real code, and reports what its monitors observed through ``ck.case``,
``ck.hit``, ``ck.violation`` and ``ck.inconclusive``.
"""

from __future__ import annotations

import glob
import hashlib
import json
import os
import pathlib
import random
import sys
import time
import traceback

import numpy as np

HOME = pathlib.Path(os.environ.get("VERIF_HOME", pathlib.Path(__file__).resolve().parent.parent))
REPO = pathlib.Path(os.environ.get("VERIF_REPO", "/repo"))

LEVELS = (
    "exploration",
    "fault_enumeration",
    "model_checking",
    "proof",
    "translation_validation",
    "other",
)


def jsonable(obj, depth=0):
    """Best-effort conversion of witnesses/samples to plain JSON."""
    if depth > 8:
        return repr(obj)[:200]
    if obj is None or isinstance(obj, (bool, int, str)):
        return obj
    if isinstance(obj, float):
        return obj if np.isfinite(obj) else repr(obj)
    if isinstance(obj, complex):
        return [obj.real, obj.imag]
    if isinstance(obj, (np.bool_,)):
        return bool(obj)
    if isinstance(obj, np.integer):
        return int(obj)
    if isinstance(obj, np.floating):
        return jsonable(float(obj))
    if isinstance(obj, np.complexfloating):
        return [float(obj.real), float(obj.imag)]
    if isinstance(obj, np.ndarray):
        if obj.size > 64:
            return {
                "shape": list(obj.shape),
                "dtype": str(obj.dtype),
                "sha": hashlib.sha256(np.ascontiguousarray(obj).tobytes()).hexdigest()[:16],
            }
        return jsonable(obj.tolist(), depth + 1)
    if isinstance(obj, dict):
        return {str(k): jsonable(v, depth + 1) for k, v in obj.items()}
    if isinstance(obj, (list, tuple, set, frozenset)):
        return [jsonable(v, depth + 1) for v in obj]
    if isinstance(obj, (pathlib.Path,)):
        return str(obj)
    return repr(obj)[:300]


def load_known():
    """Known-findings: the committed single file plus per-property drop-ins."""
    entries = []
    files = [HOME / "known_findings.json"] + sorted(
        pathlib.Path(p) for p in glob.glob(str(HOME / "known_findings.d" / "*.json"))
    )
    for f in files:
        if f.exists():
            data = json.loads(f.read_text())
            entries.extend(data.get("findings", data) if isinstance(data, dict) else data)
    return entries


class Inconclusive(Exception):
    pass


class Check:
    def __init__(self, pid, meta, tier="quick", seed=0, replay=None):
        self.pid = pid
        self.meta = meta
        self.tier = tier
        self.seed = int(seed)
        self.replay = replay  # dict of the replayed witness or None
        self.quick = tier == "quick"
        self.thorough = tier == "thorough"
        self.rng = np.random.default_rng([self.seed, int(pid[1:])])
        self.pyrng = random.Random(self.seed * 1000 + int(pid[1:]))
        self.t0 = time.time()
        self.evaluations = 0
        self.nontrivial_keys = set()
        self.samples = []
        self.max_samples = 5
        self.hits = {}
        self.violations = []  # (key, what, witness)
        self.inconclusives = []  # strings
        self.held = 0
        self.extra = {}  # extra coverage keys
        self.assumptions = list(meta.get("assumptions", []))
        self.min_nontrivial = int(meta.get("min_nontrivial", 2))
        self.max_inconclusive_frac = float(meta.get("max_inconclusive_frac", 0.05))
        self.known = [e for e in load_known() if e.get("property") == pid]

    # ------------------------------------------------------------------ tiers
    def n(self, quick, thorough):
        """Pick a workload size by tier."""
        return quick if self.quick else thorough

    # --------------------------------------------------------------- recording
    def case(self, key=None, nontrivial=True, sample=None, n=1):
        """Register ``n`` executed cases. ``key`` identifies a distinct case."""
        self.evaluations += n
        if nontrivial:
            if key is None:
                key = ("auto", self.evaluations)
            self.nontrivial_keys.add(key if isinstance(key, (str, int, tuple)) else repr(key))
        if sample is not None and len(self.samples) < self.max_samples:
            self.samples.append(jsonable(sample))

    def ok(self, n=1):
        self.held += n

    def hit(self, name, n=1):
        self.hits[name] = self.hits.get(name, 0) + n

    def violation(self, key, what, witness=None):
        """Record a violation. ``key`` is a *mechanism* key (site/branch), never random data."""
        self.violations.append((str(key), str(what), jsonable(witness or {})))

    def inconclusive(self, why):
        self.inconclusives.append(str(why))

    def note(self, **kw):
        self.extra.update(jsonable(kw))

    # -------------------------------------------------------------- finishing
    def _classify(self):
        known_keys = {e["key"]: e for e in self.known if e.get("status", "known") == "known"}
        known_hit, unknown = {}, {}
        for key, what, wit in self.violations:
            if key in known_keys:
                known_hit.setdefault(key, []).append((what, wit))
            else:
                unknown.setdefault(key, []).append((what, wit))
        return known_keys, known_hit, unknown

    def finish(self):
        wall = time.time() - self.t0
        known_keys, known_hit, unknown = self._classify()
        lines = []
        for key, items in known_hit.items():
            e = known_keys[key]
            lines.append(
                f"KNOWN-FINDING: property={self.pid} key={key} {e.get('what', items[0][0])} (observed {len(items)}x)"
            )
        replay_dir = HOME / "replays"
        replay_paths = []
        if unknown:
            replay_dir.mkdir(exist_ok=True)
        for i, (key, items) in enumerate(unknown.items()):
            what, wit = items[0]
            safe = "".join(c if c.isalnum() or c in "-_." else "_" for c in key)[:80]
            p = replay_dir / f"{self.pid}-{safe}.json"
            p.write_text(
                json.dumps(
                    {
                        "property": self.pid,
                        "key": key,
                        "what": what,
                        "tier": self.tier,
                        "seed": self.seed,
                        "count": len(items),
                        "witness": wit,
                        "more": [w for _, w in items[1:4]],
                    },
                    indent=1,
                )
            )
            replay_paths.append((key, what, p, len(items)))

        n_distinct = len(self.nontrivial_keys)
        total_verdicts = max(1, self.evaluations)
        frac_inc = len(self.inconclusives) / total_verdicts
        run_inconclusive = None
        if not unknown and self.replay is not None:
            if self.evaluations == 0:
                run_inconclusive = "replayed case was not executed"
        elif not unknown:
            if self.evaluations == 0:
                run_inconclusive = "no case was executed"
            elif n_distinct < self.min_nontrivial:
                run_inconclusive = f"only {n_distinct} distinct non-trivial cases (< {self.min_nontrivial})"
            elif frac_inc > self.max_inconclusive_frac:
                run_inconclusive = (
                    f"{len(self.inconclusives)} inconclusive of {self.evaluations} cases: "
                    + "; ".join(sorted(set(self.inconclusives))[:3])
                )
            else:
                for m in self.meta.get("required_hits", []):
                    if self.hits.get(m, 0) == 0:
                        run_inconclusive = f"deciding monitor '{m}' observed nothing"
                        break

        level = self.meta.get("level", "exploration")
        assert level in LEVELS
        cov = {
            "evaluations": int(self.evaluations),
            "distinct_nontrivial": int(n_distinct),
            "rule": self.meta.get("rule", ""),
            "samples": self.samples or [],
            "monitor_hits": {k: int(v) for k, v in sorted(self.hits.items())},
            "held": int(self.held),
            "violated_known": {k: len(v) for k, v in known_hit.items()},
            "violated_unknown": {k: len(v) for k, v in unknown.items()},
            "inconclusive": len(self.inconclusives),
            "inconclusive_reasons": sorted(set(self.inconclusives))[:10],
            "verdict": "violated" if unknown else ("inconclusive" if run_inconclusive else "held-on-observed"),
        }
        if level == "other":
            cov["explanation"] = self.meta.get("explanation", self.meta.get("rule", "see DESIGN.md"))
        cov.update(self.extra)
        ev = {
            "property_id": self.pid,
            "tier": self.tier,
            "seed": self.seed,
            "level": level,
            "coverage": cov,
            "assumptions": self.assumptions,
            "wall_s": round(wall, 2),
            "violations": sum(len(v) for v in unknown.values()),
        }
        try:
            import jsonschema

            schema = json.loads(pathlib.Path("/root/.vp/EVIDENCE.schema.json").read_text())
            jsonschema.validate(ev, schema)
        except ImportError:
            pass
        except FileNotFoundError:
            pass
        except Exception as e:  # evidence that does not validate is no evidence
            if not unknown and not run_inconclusive and self.replay is None:
                run_inconclusive = f"evidence does not validate: {str(e)[:200]}"
                cov["verdict"] = "inconclusive"
        if self.replay is None:
            # evidence describes /repo itself; runs against a scratch worktree (mutation testing) go aside
            evdir = HOME / "evidence" if str(REPO) == "/repo" else HOME / ".work" / "evidence-scratch"
            evdir.mkdir(parents=True, exist_ok=True)
            (evdir / f"{self.pid}.json").write_text(json.dumps(ev, indent=1))
        for ln in lines:
            print(ln)
        print(
            f"[{self.pid}] tier={self.tier} seed={self.seed} evaluations={self.evaluations} "
            f"distinct_nontrivial={n_distinct} held={self.held} known={sum(len(v) for v in known_hit.values())} "
            f"unknown={sum(len(v) for v in unknown.values())} inconclusive={len(self.inconclusives)} "
            f"hits={dict(sorted(self.hits.items()))} wall={wall:.1f}s"
        )
        if unknown:
            for key, what, p, cnt in replay_paths:
                print(f"  violation key={key} x{cnt}: {what}")
                print(f"VIOLATION property={self.pid} replay={p}")
            return 1
        if run_inconclusive:
            print(f"INCONCLUSIVE property={self.pid} {run_inconclusive}")
            return 2
        print(f"HELD property={self.pid} on {self.evaluations} observed cases")
        return 0


def run_property(pid, tier, seed, replay_path=None):
    import importlib

    mod = importlib.import_module(f"vlib.props.{pid.lower()}")
    replay = None
    if replay_path:
        replay = json.loads(pathlib.Path(replay_path).read_text())
        tier = replay.get("tier", tier)
        seed = replay.get("seed", seed)
    ck = Check(pid, mod.META, tier=tier, seed=seed, replay=replay)
    try:
        if replay is not None and hasattr(mod, "replay"):
            mod.replay(ck, replay)
        else:
            mod.run(ck)
    except Inconclusive as e:
        ck.inconclusive(f"run aborted: {e}")
        ck.min_nontrivial = 10**9
    except Exception as e:  # harness failure is never a verdict on the code
        traceback.print_exc()
        ck.inconclusive(f"harness error {type(e).__name__}: {e}")
        ck.min_nontrivial = 10**9
    return ck.finish()
