"""Seeded workload generators shared by the solver-driven checks.

Everything here builds *raw* runcards (plain dicts) and turns them into the
repository's card objects only at the last moment, so the generators do not
depend on the code under test.
"""

import copy
import itertools
import os
import pathlib
import shutil
from math import nan

import numpy as np

from . import scratch

METHODS = [
    "iterate-exact",
    "iterate-expanded",
    "truncated",
    "ordered-truncated",
    "decompose-exact",
    "decompose-expanded",
    "perturbative-exact",
    "perturbative-expanded",
]


def raw_theory(
    order=(1, 0),
    alphas=0.118,
    alphaem=0.007496252,
    ref=(91.2, 5),
    masses=(1.51, 4.92, 172.5),
    scheme="POLE",
    ratios=(1.0, 1.0, 1.0),
    xif=1.0,
    matching_order=None,
    n3lo_ad_variation=(0, 0, 0, 0, 0, 0, 0),
    use_fhmruvv=True,
    em_running=False,
    mass_refs=(nan, nan, nan),
):
    th = dict(
        order=list(order),
        couplings=dict(alphas=float(alphas), alphaem=float(alphaem), ref=[float(ref[0]), int(ref[1])], em_running=bool(em_running)),
        heavy=dict(
            masses=[[float(m), float(r)] for m, r in zip(masses, mass_refs)],
            masses_scheme=scheme,
            matching_ratios=[float(r) for r in ratios],
        ),
        xif=float(xif),
        n3lo_ad_variation=list(n3lo_ad_variation),
        matching_order=list(matching_order) if matching_order is not None else [order[0] - 1, 0],
        use_fhmruvv=use_fhmruvv,
    )
    return th


def raw_operator(
    init=(1.65, 4),
    mugrid=((10.0, 5),),
    xgrid=(1e-2, 0.1, 0.5, 1.0),
    method="iterate-exact",
    iterations=1,
    max_order=(10, 0),
    degree=1,
    is_log=True,
    scvar=None,
    inversion=None,
    cores=1,
    polarized=False,
    time_like=False,
):
    return dict(
        init=[float(init[0]), int(init[1])],
        mugrid=[[float(m), int(n)] for m, n in mugrid],
        xgrid=[float(x) for x in xgrid],
        configs=dict(
            evolution_method=method,
            ev_op_max_order=list(max_order),
            ev_op_iterations=int(iterations),
            interpolation_polynomial_degree=int(degree),
            interpolation_is_log=bool(is_log),
            scvar_method=scvar,
            inversion_method=inversion,
            n_integration_cores=int(cores),
            polarized=bool(polarized),
            time_like=bool(time_like),
        ),
        debug=dict(skip_singlet=False, skip_non_singlet=False),
    )


def cards(th_raw, op_raw):
    """Raw dicts -> the repository's card objects."""
    from eko.io import runcards

    return (
        runcards.TheoryCard.from_dict(copy.deepcopy(th_raw)),
        runcards.OperatorCard.from_dict(copy.deepcopy(op_raw)),
    )


def solve(th_raw, op_raw, path=None, keep=False):
    """Run the real ``eko.solve`` in scratch; return {(mu2, nf): (operator, error)}.

    Exceptions from the solver propagate to the caller (who decides what they mean).
    """
    import eko
    from eko.io.struct import EKO

    th, op = cards(th_raw, op_raw)
    own = path is None
    d = scratch.mkdtemp() if own else None
    p = pathlib.Path(d) / "out.tar" if own else pathlib.Path(path)
    try:
        eko.solve(th, op, p)
        out = {}
        with EKO.read(p) as e:
            for ep, o in e.items():
                out[(float(ep[0]), int(ep[1]))] = (np.array(o.operator), None if o.error is None else np.array(o.error))
        return out
    finally:
        if own and not keep:
            shutil.rmtree(d, ignore_errors=True)


def covering_array(factors, strength=2, rng=None, extra_random=0):
    """Greedy t-wise covering array. ``factors``: dict name -> list of values.

    Returns a list of dicts.  Deterministic for a given rng.
    """
    names = list(factors)
    rng = rng or np.random.default_rng(0)
    need = set()
    for combo in itertools.combinations(range(len(names)), strength):
        for vals in itertools.product(*[range(len(factors[names[i]])) for i in combo]):
            need.add((combo, vals))
    rows = []
    while need:
        best, best_cov = None, -1
        for _ in range(40):
            # seed a candidate from an uncovered tuple, fill the rest at random
            combo, vals = next(iter(need)) if _ == 0 else list(need)[int(rng.integers(len(need)))]
            cand = [int(rng.integers(len(factors[n]))) for n in names]
            for i, v in zip(combo, vals):
                cand[i] = v
            cov = sum(1 for c in itertools.combinations(range(len(names)), strength) if (c, tuple(cand[i] for i in c)) in need)
            if cov > best_cov:
                best, best_cov = cand, cov
        rows.append(best)
        for c in itertools.combinations(range(len(names)), strength):
            need.discard((c, tuple(best[i] for i in c)))
    for _ in range(extra_random):
        rows.append([int(rng.integers(len(factors[n]))) for n in names])
    return [{n: factors[n][v] for n, v in zip(names, r)} for r in rows]


def toy_pdf(rng, pids, polarized=False):
    """Smooth toy PDFs  x f(x) = A x^a (1-x)^b (1+c x)  per flavour -> callable(pid, x)."""
    par = {}
    for pid in pids:
        par[pid] = (float(rng.uniform(0.2, 2.0)), float(rng.uniform(-0.3, 0.8)), float(rng.uniform(2.0, 6.0)), float(rng.uniform(0.0, 3.0)))
    if 22 in par and not polarized:
        A, a, b, c = par[22]
        par[22] = (A * 0.01, a, b, c)

    def xf(pid, x):
        A, a, b, c = par[pid]
        return A * x**a * (1 - x) ** b * (1 + c * x)

    return xf, par


# ----------------------------------------------------------------- path configs
DEFAULT_MASSES = (1.51, 4.92, 172.5)


def path_cfg(rng, qcd=None, qed=0, nf_pairs=None, max_targets=1, methods=None, pts=("unpol",), npts=(3,), scvars=(None,), same_patch_ok=True):
    """Random configuration whose targets require evolution along a flavour path.

    Returns a plain dict understood by :func:`cfg_cards`.
    """
    qcd = int(qcd if qcd is not None else rng.integers(1, 4))
    nf_pairs = nf_pairs or [(3, 3), (3, 4), (4, 4), (4, 5), (4, 3), (5, 4), (3, 5), (5, 3), (5, 5), (4, 6), (5, 6)]
    ratios = [float(x) for x in rng.choice([0.7, 1.0, 1.0, 1.5, 2.0], size=3)]
    masses = [DEFAULT_MASSES[0] * float(rng.uniform(0.9, 1.2)), DEFAULT_MASSES[1] * float(rng.uniform(0.9, 1.1)), float(rng.choice([172.5, 60.0, 30.0]))]
    walls = [m * r for m, r in zip(masses, ratios)]  # linear scales
    if not (walls[0] * 1.1 < walls[1] and walls[1] * 1.1 < walls[2]):
        ratios = [1.0, 1.0, 1.0]
        walls = list(masses)
    bounds = [1.25] + walls + [400.0]

    def scale_in_patch(nf):
        lo, hi = bounds[nf - 3], bounds[nf - 2]
        lo, hi = max(lo, 1.25), min(hi, 400.0)
        if hi <= lo * 1.05:
            lo, hi = max(1.25, lo * 0.8), lo * 1.6
        return float(np.exp(rng.uniform(np.log(lo * 1.02), np.log(hi * 0.98))))

    nf0, nff = nf_pairs[int(rng.integers(len(nf_pairs)))]
    consistent = bool(rng.integers(4))  # 1 in 4: mu0 not in its default patch
    mu0 = scale_in_patch(nf0) if consistent else float(np.exp(rng.uniform(np.log(1.3), np.log(100.0))))
    targets = []
    nt = int(rng.integers(1, max_targets + 1))
    for i in range(nt):
        nft = nff if i == 0 else int(rng.choice([nf0, nff, min(6, max(nf0, nff))]))
        mu = scale_in_patch(nft) if rng.integers(4) else float(np.exp(rng.uniform(np.log(1.3), np.log(200.0))))
        if (mu, nft) not in targets:
            targets.append((mu, nft))
    n = int(rng.choice(list(npts)))
    xmin = float(rng.choice([1e-3, 1e-2, 0.05]))
    scvar = scvars[int(rng.integers(len(scvars)))]
    down = any(t[1] < nf0 for t in targets)
    cfg = dict(
        qcd=qcd,
        qed=int(qed),
        method=str((methods or METHODS)[int(rng.integers(len(methods or METHODS)))]) if not qed else "iterate-exact",
        pt=str(pts[int(rng.integers(len(pts)))]),
        init=[mu0, int(nf0)],
        targets=[[float(m), int(f)] for m, f in targets],
        masses=masses,
        ratios=ratios,
        xgrid=[float(x) for x in np.geomspace(xmin, 1.0, n)],
        degree=int(min(n - 1, rng.integers(1, 4))),
        scvar=scvar,
        xif=float(rng.choice([0.5, 2.0, 1.4])) if scvar else 1.0,
        inversion=str(rng.choice(["exact", "expanded"])) if down else None,
        iters=int(rng.integers(1, 4)),
        alphas=float(rng.uniform(0.105, 0.122)),
        alphaem=0.007496252,
        em_running=bool(rng.integers(2)) if qed else False,
        max_order=[10, 0],
        cores=1,
        n3lo_var=[0] * 7,
        fhmruvv=True,
        matching_order=None,
        scheme="POLE",
    )
    return cfg


def cfg_cards(cfg):
    """cfg dict -> (raw theory, raw operator)."""
    th = raw_theory(
        order=(cfg["qcd"], cfg["qed"]),
        alphas=cfg["alphas"],
        alphaem=cfg.get("alphaem", 0.007496252),
        ref=tuple(cfg.get("ref", (91.2, 5))),
        masses=cfg["masses"],
        scheme=cfg.get("scheme", "POLE"),
        ratios=cfg["ratios"],
        xif=cfg["xif"],
        matching_order=cfg.get("matching_order"),
        n3lo_ad_variation=cfg.get("n3lo_var", [0] * 7),
        use_fhmruvv=cfg.get("fhmruvv", True),
        em_running=cfg.get("em_running", False),
    )
    op = raw_operator(
        init=cfg["init"],
        mugrid=cfg["targets"],
        xgrid=cfg["xgrid"],
        method=cfg["method"],
        iterations=cfg["iters"],
        max_order=cfg.get("max_order", [10, 0]),
        degree=cfg["degree"],
        is_log=cfg.get("is_log", True),
        scvar=cfg["scvar"],
        inversion=cfg["inversion"],
        cores=cfg.get("cores", 1),
        polarized=cfg["pt"] == "pol",
        time_like=cfg["pt"] == "tl",
    )
    return th, op


def cfg_key(cfg):
    import json

    return json.dumps(cfg, sort_keys=True, default=str)


def solve_cfg(cfg, **kw):
    th, op = cfg_cards(cfg)
    return solve(th, op, **kw)
