"""Seeded workload generators shared by the solver-driven checks.

Everything here builds *raw* runcards (plain dicts) and turns them into the
repository's card objects only at the last moment, so the generators do not
depend on the code under test.
"""

import copy
import itertools
import os
import pathlib
import shutil
from math import nan

import numpy as np

from . import scratch

METHODS = [
    "iterate-exact",
    "iterate-expanded",
    "truncated",
    "ordered-truncated",
    "decompose-exact",
    "decompose-expanded",
    "perturbative-exact",
    "perturbative-expanded",
]


def raw_theory(
    order=(1, 0),
    alphas=0.118,
    alphaem=0.007496252,
    ref=(91.2, 5),
    masses=(1.51, 4.92, 172.5),
    scheme="POLE",
    ratios=(1.0, 1.0, 1.0),
    xif=1.0,
    matching_order=None,
    n3lo_ad_variation=(0, 0, 0, 0, 0, 0, 0),
    use_fhmruvv=True,
    em_running=False,
    mass_refs=(nan, nan, nan),
):
    th = dict(
        order=list(order),
        couplings=dict(alphas=float(alphas), alphaem=float(alphaem), ref=[float(ref[0]), int(ref[1])], em_running=bool(em_running)),
        heavy=dict(
            masses=[[float(m), float(r)] for m, r in zip(masses, mass_refs)],
            masses_scheme=scheme,
            matching_ratios=[float(r) for r in ratios],
        ),
        xif=float(xif),
        n3lo_ad_variation=list(n3lo_ad_variation),
        matching_order=list(matching_order) if matching_order is not None else [order[0] - 1, 0],
        use_fhmruvv=use_fhmruvv,
    )
    return th


def raw_operator(
    init=(1.65, 4),
    mugrid=((10.0, 5),),
    xgrid=(1e-2, 0.1, 0.5, 1.0),
    method="iterate-exact",
    iterations=1,
    max_order=(10, 0),
    degree=1,
    is_log=True,
    scvar=None,
    inversion=None,
    cores=1,
    polarized=False,
    time_like=False,
):
    return dict(
        init=[float(init[0]), int(init[1])],
        mugrid=[[float(m), int(n)] for m, n in mugrid],
        xgrid=[float(x) for x in xgrid],
        configs=dict(
            evolution_method=method,
            ev_op_max_order=list(max_order),
            ev_op_iterations=int(iterations),
            interpolation_polynomial_degree=int(degree),
            interpolation_is_log=bool(is_log),
            scvar_method=scvar,
            inversion_method=inversion,
            n_integration_cores=int(cores),
            polarized=bool(polarized),
            time_like=bool(time_like),
        ),
        debug=dict(skip_singlet=False, skip_non_singlet=False),
    )


def cards(th_raw, op_raw):
    """Raw dicts -> the repository's card objects."""
    from eko.io import runcards

    return (
        runcards.TheoryCard.from_dict(copy.deepcopy(th_raw)),
        runcards.OperatorCard.from_dict(copy.deepcopy(op_raw)),
    )


def solve(th_raw, op_raw, path=None, keep=False):
    """Run the real ``eko.solve`` in scratch; return {(mu2, nf): (operator, error)}.

    Exceptions from the solver propagate to the caller (who decides what they mean).
    """
    import eko
    from eko.io.struct import EKO

    th, op = cards(th_raw, op_raw)
    own = path is None
    d = scratch.mkdtemp() if own else None
    p = pathlib.Path(d) / "out.tar" if own else pathlib.Path(path)
    try:
        eko.solve(th, op, p)
        out = {}
        with EKO.read(p) as e:
            for ep, o in e.items():
                out[(float(ep[0]), int(ep[1]))] = (np.array(o.operator), None if o.error is None else np.array(o.error))
        return out
    finally:
        if own and not keep:
            shutil.rmtree(d, ignore_errors=True)


def covering_array(factors, strength=2, rng=None, extra_random=0):
    """Greedy t-wise covering array. ``factors``: dict name -> list of values.

    Returns a list of dicts.  Deterministic for a given rng.
    """
    names = list(factors)
    rng = rng or np.random.default_rng(0)
    need = set()
    for combo in itertools.combinations(range(len(names)), strength):
        for vals in itertools.product(*[range(len(factors[names[i]])) for i in combo]):
            need.add((combo, vals))
    rows = []
    while need:
        best, best_cov = None, -1
        for _ in range(40):
            # seed a candidate from an uncovered tuple, fill the rest at random
            combo, vals = next(iter(need)) if _ == 0 else list(need)[int(rng.integers(len(need)))]
            cand = [int(rng.integers(len(factors[n]))) for n in names]
            for i, v in zip(combo, vals):
                cand[i] = v
            cov = sum(1 for c in itertools.combinations(range(len(names)), strength) if (c, tuple(cand[i] for i in c)) in need)
            if cov > best_cov:
                best, best_cov = cand, cov
        rows.append(best)
        for c in itertools.combinations(range(len(names)), strength):
            need.discard((c, tuple(best[i] for i in c)))
    for _ in range(extra_random):
        rows.append([int(rng.integers(len(factors[n]))) for n in names])
    return [{n: factors[n][v] for n, v in zip(names, r)} for r in rows]


def toy_pdf(rng, pids, polarized=False):
    """Smooth toy PDFs  x f(x) = A x^a (1-x)^b (1+c x)  per flavour -> callable(pid, x)."""
    par = {}
    for pid in pids:
        par[pid] = (float(rng.uniform(0.2, 2.0)), float(rng.uniform(-0.3, 0.8)), float(rng.uniform(2.0, 6.0)), float(rng.uniform(0.0, 3.0)))
    if 22 in par and not polarized:
        A, a, b, c = par[22]
        par[22] = (A * 0.01, a, b, c)

    def xf(pid, x):
        A, a, b, c = par[pid]
        return A * x**a * (1 - x) ** b * (1 + c * x)

    return xf, par
