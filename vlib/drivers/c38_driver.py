"""C38 driver: one workload run under fault injection, in a fresh process.

Usage:  python -m vlib.drivers.c38_driver <batch.json>

batch = {"jobs": [spec, ...], "timeout": seconds per job, "group": jobs per forked child};
jobs run in processes forked from a pristine zygote (eko imported, failpoints installed,
nothing run) and leave <workdir>/result.json (or <workdir>/driver.err).

spec = {
  "workload": "solve" | "user" | "edit" | "copy",
  "workdir":  scratch directory owned by this job (TMPDIR is redirected into it),
  "outdir":   optional directory for the target archive (e.g. on another file system),
  "seed_archive": path of an existing complete archive (edit workload only),
  "order": [1, 0],
  "run1":  [ {"ordinal": k, "mode": "before"|"partial"|"after", "kind": "error"|"interrupt"|"sysexit"}, ... ],
  "retry": null | [ ...same... ]      # faults injected while re-running on the same path
  "rerun": true|false                 # finally run the workload once more without faults
}

Failpoints are wrappers on I/O primitives of the stdlib / numpy / lz4 / yaml
and on the compute steps of the managed runner; every hit gets an ordinal (per
phase).  A phase with an empty fault list is a census.  Nothing here decides a
verdict: the driver reports what happened and the state of the target path
(read by ``vlib.oracles.archive_digest``, which does not use eko).
"""

import builtins
import errno
import io
import json
import os
import pathlib
import re
import shutil
import sys
import tarfile
import tempfile
import traceback

_real_open = builtins.open


class InjectedIOError(OSError):
    pass


class InjectedComputeError(RuntimeError):
    pass


class InjectedUserError(ValueError):
    pass


COMMIT_SITES = {"os.replace", "os.rename", "Path.replace", "Path.rename", "shutil.move"}
WRITE_SITES = {"file.write", "Path.write_text", "Path.write_bytes", "os.sendfile"}
COMPUTE_SITES = {"parts.evolve", "parts.match", "operators.join", "operators.retrieve", "recipes.create"}


class FP:
    """Global failpoint state."""

    def __init__(self):
        self.phase = None
        self.count = 0
        self.hits = []  # dicts
        self.plan = {}  # ordinal -> fault spec
        self.fired = []
        self.busy = False
        self.srcroot = None
        self.names = {}

    def start(self, phase, plan):
        self.phase = phase
        self.count = 0
        self.plan = {int(f["ordinal"]): f for f in (plan or [])}
        self.fired = []

    def stop(self):
        self.phase = None

    # ---------------------------------------------------------------- naming
    def caller(self):
        """Innermost frame that belongs to the code under test (or the user code)."""
        f = sys._getframe(2)
        while f is not None:
            fn = f.f_code.co_filename
            if self.srcroot and fn.startswith(self.srcroot):
                rel = fn[len(self.srcroot) :].lstrip("/")
                mod = rel[:-3].replace("/", ".") if rel.endswith(".py") else rel
                return f"{mod}:{f.f_code.co_qualname}"
            if fn == __file__ and f.f_code.co_name.startswith("wl_"):
                return f"user:{f.f_code.co_name}"
            f = f.f_back
        return "other"

    def detail(self, obj):
        if obj is None:
            return ""
        s = str(obj)
        for k, v in self.names.items():
            s = s.replace(k, v)
        s = re.sub(r"eko-[A-Za-z0-9_]{6,}", "<tmp>", s)
        s = re.sub(r"[A-Za-z0-9_\-]{11}=", "<h>", s)
        return s[-120:]

    # ------------------------------------------------------------------- hit
    def hit(self, site, detail=None):
        """Register a hit; return the fault spec to apply (or None)."""
        if self.phase is None or self.busy:
            return None
        self.busy = True
        try:
            k = self.count
            self.count += 1
            rec = dict(phase=self.phase, ordinal=k, site=site, detail=self.detail(detail), caller=self.caller(), after_fault=bool(self.fired))
            self.hits.append(rec)
            f = self.plan.get(k)
            if f is not None:
                self.fired.append(dict(rec, mode=f.get("mode", "before"), kind=f.get("kind", "error")))
            return f
        finally:
            self.busy = False

    @staticmethod
    def exc(site, fault):
        if fault.get("kind") == "interrupt":
            return KeyboardInterrupt(f"injected interrupt at {site}")
        if fault.get("kind") == "sysexit":
            return SystemExit(f"injected SystemExit at {site}")
        if site in COMPUTE_SITES:
            return InjectedComputeError(f"injected failure in {site}")
        if site == "user-code":
            return InjectedUserError("injected: user code raises inside the with block")
        return InjectedIOError(errno.ENOSPC, f"injected: No space left on device [{site}]")


fp = FP()


def _wrap(owner, name, site, detail_fn=None):
    orig = getattr(owner, name)

    def wrapper(*a, **kw):
        fault = fp.hit(site, detail_fn(*a, **kw) if detail_fn else None)
        if fault is None:
            return orig(*a, **kw)
        mode = fault.get("mode", "before")
        if mode == "after":
            orig(*a, **kw)
        elif mode == "partial" and site in ("Path.write_text", "Path.write_bytes"):
            data = a[1]
            orig(a[0], data[: len(data) // 2], *a[2:], **kw)
        elif mode == "partial" and site == "os.sendfile" and len(a) >= 4:
            orig(a[0], a[1], a[2], max(1, int(a[3]) // 2))
        raise fp.exc(site, fault)

    wrapper.__name__ = getattr(orig, "__name__", name)
    wrapper.__wrapped__ = orig
    setattr(owner, name, wrapper)
    return orig


class FileProxy:
    """Write-mode file object whose ``write`` is a failpoint."""

    def __init__(self, f, label):
        object.__setattr__(self, "_f", f)
        object.__setattr__(self, "_label", label)

    def write(self, data):
        fault = fp.hit("file.write", self._label)
        if fault is None:
            return self._f.write(data)
        mode = fault.get("mode", "before")
        if mode == "partial":
            self._f.write(data[: len(data) // 2])
            self._f.flush()
        elif mode == "after":
            self._f.write(data)
            self._f.flush()
        raise fp.exc("file.write", fault)

    def writelines(self, lines):
        for ln in lines:
            self.write(ln)

    def __getattr__(self, n):
        return getattr(self._f, n)

    def __setattr__(self, n, v):
        setattr(self._f, n, v)

    def __enter__(self):
        self._f.__enter__()
        return self

    def __exit__(self, *a):
        return self._f.__exit__(*a)

    def __iter__(self):
        return iter(self._f)


def _open_wrapper(orig):
    def wrapper(file, mode="r", *a, **kw):
        if isinstance(mode, str) and any(c in mode for c in "wax+") and not isinstance(file, int):
            fault = fp.hit("open(w)", file)
            if fault is not None:
                if fault.get("mode") == "after":
                    orig(file, mode, *a, **kw).close()
                raise fp.exc("open(w)", fault)
            return FileProxy(orig(file, mode, *a, **kw), file)
        return orig(file, mode, *a, **kw)

    wrapper.__wrapped__ = orig
    return wrapper


def install(srcroot):
    import lz4.frame
    import numpy as np
    import yaml

    fp.srcroot = srcroot
    P = pathlib.Path
    first = lambda *a, **k: a[0] if a else None  # noqa: E731
    second = lambda *a, **k: a[1] if len(a) > 1 else None  # noqa: E731
    for name in ("write_text", "write_bytes", "unlink", "mkdir", "rmdir", "rename", "replace", "touch"):
        _wrap(P, name, f"Path.{name}", first)
    w = _open_wrapper(_real_open)
    builtins.open = w
    io.open = w
    tarfile.bltn_open = w
    for name in ("save", "savez", "savez_compressed"):
        _wrap(np, name, f"np.{name}")
    _wrap(lz4.frame, "compress", "lz4.frame.compress")
    for name in ("dump", "safe_dump"):
        _wrap(yaml, name, f"yaml.{name}")
    _wrap(tarfile.TarFile, "add", "TarFile.add", lambda *a, **k: k.get("arcname") or (a[2] if len(a) > 2 else a[1]))
    _wrap(tarfile.TarFile, "addfile", "TarFile.addfile", lambda *a, **k: getattr(a[1], "name", None))
    _wrap(tarfile.TarFile, "extractall", "TarFile.extractall", second)
    for name in ("rmtree", "copytree", "move", "copy", "copy2", "copyfile"):
        _wrap(shutil, name, f"shutil.{name}", first)
    for name in ("mkdtemp", "mkstemp"):
        _wrap(tempfile, name, f"tempfile.{name}")
    for name in ("replace", "rename", "remove"):
        _wrap(os, name, f"os.{name}", first)
    if hasattr(os, "sendfile"):  # the data path of shutil.copyfile on Linux
        _wrap(os, "sendfile", "os.sendfile")

    from eko.runner import operators, parts, recipes

    _wrap(parts, "evolve", "parts.evolve")
    _wrap(parts, "match", "parts.match")
    _wrap(operators, "join", "operators.join")
    _wrap(operators, "retrieve", "operators.retrieve")
    _wrap(recipes, "create", "recipes.create")


def user_point(label):
    fault = fp.hit("user-code", label)
    if fault is not None:
        raise fp.exc("user-code", fault)


# ------------------------------------------------------------------ workloads
def _cards(order):
    from vlib import workload as W

    th = W.raw_theory(order=tuple(order))
    op = W.raw_operator(init=(1.65, 4), mugrid=((10.0, 5), (3.0, 4)), xgrid=(1e-2, 0.1, 0.5, 1.0))
    return W.cards(th, op)


def _rand_op(tag, n=4, err=True):
    import numpy as np

    from eko.io.items import Operator

    rng = np.random.default_rng([38, tag])
    a = rng.normal(size=(14, n, 14, n))
    return Operator(a, np.abs(rng.normal(size=a.shape)) * 1e-3 if err else None)


def wl_solve(path, order):
    import eko

    th, op = _cards(order)
    eko.solve(th, op, path)


def wl_user(path, order):
    """A user-written session creating a new EKO (no compute)."""
    from eko.io.struct import EKO
    from eko.runner import commons, recipes

    th, op = _cards(order)
    with EKO.create(path) as builder:
        user_point("after-create")
        eko = builder.load_cards(th, op).build()
        user_point("after-build")
        recs = recipes._create(op.evolgrid, commons.atlas(th, op))
        eko.load_recipes(sorted(recs, key=repr))
        user_point("after-recipes")
        eko[(100.0, 5)] = _rand_op(1)
        user_point("after-first-operator")
        del eko[(100.0, 5)]
        eko[(9.0, 4)] = _rand_op(2, err=False)
        user_point("before-exit")


def wl_edit(path, order):
    """An edit session on an existing archive."""
    import numpy as np

    from eko.interpolation import XGrid
    from eko.io.struct import EKO

    with EKO.edit(path) as eko:
        user_point("opened")
        eko[(49.0, 5)] = _rand_op(3)
        user_point("after-add")
        eko.xgrid = XGrid(np.array([2e-2, 0.2, 0.6, 1.0]))
        user_point("after-metadata")
        eko[(100.0, 5)] = _rand_op(4)
        user_point("before-exit")


def wl_copy(path, order):
    """Deep copy of an open (read-only) EKO to a new archive path."""
    from eko.io.struct import EKO

    src = pathlib.Path.cwd() / "seed-copy.tar"  # the job's work directory
    with EKO.read(src) as eko:
        user_point("opened")
        eko.deepcopy(pathlib.Path(path))
        user_point("copied")


WORKLOADS = dict(solve=wl_solve, user=wl_user, edit=wl_edit, copy=wl_copy)


# ---------------------------------------------------------------------- state
def state(target):
    from vlib.oracles import archive_digest as ad

    target = pathlib.Path(target)
    sib = sorted(p.name for p in target.parent.iterdir() if p.name != target.name)
    st = dict(exists=os.path.lexists(target), siblings=sib)
    if st["exists"]:
        try:
            st["digest"] = ad.digest(target)
            st["size"] = target.stat().st_size
        except ad.Corrupt as e:
            st["corrupt"] = str(e)[:300]
            st["size"] = target.stat().st_size
    return st


def eko_reads(target):
    """Does the code under test read the archive back completely?"""
    from eko.io.struct import EKO

    fp_phase = fp.phase
    fp.phase = None
    try:
        with EKO.read(pathlib.Path(target)) as e:
            n = 0
            for _ep, op in e.items():
                assert op.operator.ndim == 4
                n += 1
            _ = e.theory_card, e.operator_card
        return dict(ok=True, n=n)
    except BaseException as ex:  # report, parent decides
        return dict(ok=False, exc=f"{type(ex).__name__}: {str(ex)[:200]}")
    finally:
        fp.phase = fp_phase


def run_phase(name, plan, fn, target, order):
    fp.start(name, plan)
    res = dict(phase=name, raised=False)
    try:
        fn(target, order)
    except BaseException as e:
        res["raised"] = True
        res["exc_type"] = type(e).__name__
        res["exc"] = str(e)[:300]
        res["injected"] = isinstance(e, (InjectedIOError, InjectedComputeError, InjectedUserError)) or (
            isinstance(e, (KeyboardInterrupt, SystemExit)) and "injected" in str(e)
        )
        res["tb"] = traceback.format_exc()[-1800:]
    finally:
        fp.stop()
    res["n_hits"] = fp.count
    res["fired"] = list(fp.fired)
    res["state"] = state(target)
    return res


def run_one(spec):
    """Run one injection spec in *this* process (a fresh fork of the pristine zygote)."""
    work = pathlib.Path(spec["workdir"])
    tmp = work / "tmp"
    # the output directory may live on another file system than the temporary directory
    out = pathlib.Path(spec["outdir"]) if spec.get("outdir") else work / "out"
    tmp.mkdir(parents=True, exist_ok=True)
    out.mkdir(parents=True, exist_ok=True)
    os.environ["TMPDIR"] = str(tmp)
    tempfile.tempdir = str(tmp)
    os.chdir(work)
    target = out / "eko.tar"
    fp.names = {str(tmp): "<TMPDIR>", str(out): "<OUT>"}
    if spec["workload"] == "edit":
        shutil.copyfile(spec["seed_archive"], target)
    if spec["workload"] == "copy":
        shutil.copyfile(spec["seed_archive"], work / "seed-copy.tar")
    fn = WORKLOADS[spec["workload"]]
    order = spec.get("order", [1, 0])
    result = dict(spec=spec, srcroot=fp.srcroot, phases=[])
    result["devices"] = dict(out=os.stat(out).st_dev, tmp=os.stat(tmp).st_dev)
    result["initial_state"] = state(target)
    r1 = run_phase("run1", spec.get("run1") or [], fn, target, order)
    result["phases"].append(r1)
    if r1["state"].get("exists") and spec.get("check_reads", True):
        r1["eko_reads"] = eko_reads(target)
    if spec.get("retry") is not None:
        r2 = run_phase("retry", spec["retry"], fn, target, order)
        result["phases"].append(r2)
    if spec.get("rerun"):
        r3 = run_phase("rerun", [], fn, target, order)
        if r3["state"].get("exists"):
            r3["eko_reads"] = eko_reads(target)
        result["phases"].append(r3)
    if spec.get("keep_archive") and os.path.exists(target):
        shutil.copyfile(target, spec["keep_archive"])
    result["hits"] = fp.hits
    with _real_open(work / "result.json", "w") as fd:
        json.dump(result, fd)


def main(batch_path):
    """Zygote: import the code under test and install the failpoints once, then run the
    injections of the batch in forked children (no workload ever runs in the zygote, so
    every child starts from the state of a freshly started interpreter).

    ``batch["group"]`` injections share one child (process creation costs ~0.5 s on the
    verification box); each has its own work/tmp/out directories and its own failpoint
    counters.  The parent re-runs every injection that shows a violation alone
    (group = 1) before reporting it, so sharing a child can never produce an alarm.
    """
    import time

    batch = json.loads(_real_open(batch_path).read())
    import eko  # noqa: F401
    from eko.io import struct  # noqa: F401
    from vlib import workload  # noqa: F401
    from vlib.oracles import archive_digest  # noqa: F401

    srcroot = os.path.dirname(os.path.dirname(os.path.abspath(eko.__file__))) + "/"
    install(srcroot)
    timeout = float(batch.get("timeout", 300))
    group = max(1, int(batch.get("group", 1)))
    jobs = batch["jobs"]
    for g0 in range(0, len(jobs), group):
        specs = jobs[g0 : g0 + group]
        for spec in specs:
            pathlib.Path(spec["workdir"]).mkdir(parents=True, exist_ok=True)
        sys.stdout.flush()
        sys.stderr.flush()
        pid = os.fork()
        if pid == 0:
            code = 0
            try:
                for spec in specs:
                    work = pathlib.Path(spec["workdir"])
                    try:
                        fp.hits = []
                        fp.stop()
                        run_one(spec)
                    except BaseException:
                        code = 7
                        try:
                            with _real_open(work / "driver.err", "w") as fd:
                                fd.write(traceback.format_exc()[-3000:])
                        except BaseException:
                            pass
            finally:
                os._exit(code)
        t0 = time.time()
        while True:
            done, _st = os.waitpid(pid, os.WNOHANG)
            if done:
                break
            if time.time() - t0 > timeout * len(specs):
                try:
                    os.kill(pid, 9)
                except OSError:
                    pass
                os.waitpid(pid, 0)
                for spec in specs:
                    work = pathlib.Path(spec["workdir"])
                    if not (work / "result.json").exists():
                        with _real_open(work / "driver.err", "w") as fd:
                            fd.write("timeout")
                break
            time.sleep(0.01)
        # keep only the reports of the jobs
        for spec in specs:
            work = pathlib.Path(spec["workdir"])
            shutil.rmtree(work / "tmp", ignore_errors=True)
            shutil.rmtree(work / "out", ignore_errors=True)
            if spec.get("outdir"):
                shutil.rmtree(spec["outdir"], ignore_errors=True)


if __name__ == "__main__":
    main(sys.argv[1])
