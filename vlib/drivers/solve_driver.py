"""Solve one pair of raw cards in this (fresh) process and leave the archive at a path.

Usage: python -m vlib.drivers.solve_driver <spec.json>
spec = {"theory": raw theory dict, "operator": raw operator dict, "out": path of the archive,
        "record_interpolator": optional path: JSON list of (log, degree, grid) of every
        InterpolatorDispatcher constructed during the solve}
Exit code 0 and "<out>" present on success; exit 3 and "<out>.err" with the exception otherwise.
"""

import json
import pathlib
import sys
import traceback


def main(spec_path):
    spec = json.loads(pathlib.Path(spec_path).read_text())
    out = pathlib.Path(spec["out"])
    try:
        from vlib import workload as W

        seen = []
        if spec.get("record_interpolator"):
            from eko import interpolation

            orig = interpolation.InterpolatorDispatcher.__init__

            def init(self, *a, **kw):
                orig(self, *a, **kw)
                seen.append(dict(log=bool(self.log), degree=int(self.polynomial_degree), grid=[float(x) for x in self.xgrid.raw], basis_log=[bool(getattr(b, "_mode_log", None)) for b in self.basis][:1]))

            interpolation.InterpolatorDispatcher.__init__ = init
        import eko

        th, op = W.cards(spec["theory"], spec["operator"])
        eko.solve(th, op, out)
        if spec.get("record_interpolator"):
            pathlib.Path(spec["record_interpolator"]).write_text(json.dumps(seen))
    except BaseException as e:
        pathlib.Path(str(out) + ".err").write_text(f"{type(e).__name__}: {e}\n{traceback.format_exc()[-2000:]}")
        sys.exit(3)


if __name__ == "__main__":
    main(sys.argv[1])
