"""./check <id> [--tier quick|thorough] [--seed N] [--replay file]"""

import argparse
import os
import sys

from . import core


def main(argv=None):
    ap = argparse.ArgumentParser()
    ap.add_argument("pid")
    ap.add_argument("--tier", default=os.environ.get("VERIF_TIER", "quick"), choices=["quick", "thorough"])
    ap.add_argument("--seed", type=int, default=int(os.environ.get("VERIF_SEED", "0")))
    ap.add_argument("--replay", default=None)
    a = ap.parse_args(argv)
    pid = a.pid.upper()
    rc = core.run_property(pid, a.tier, a.seed, a.replay)
    sys.stdout.flush()
    sys.exit(rc)


if __name__ == "__main__":
    main()
