"""Scratch directories outside /repo and /verif, always removed."""

import atexit
import contextlib
import os
import shutil
import tempfile

_made = []


def mkdtemp(prefix="eko-verif-"):
    d = tempfile.mkdtemp(prefix=prefix, dir=os.environ.get("VERIF_TMP") or None)
    _made.append((os.getpid(), d))
    return d


@contextlib.contextmanager
def tmpdir(prefix="eko-verif-"):
    d = mkdtemp(prefix)
    try:
        yield d
    finally:
        shutil.rmtree(d, ignore_errors=True)


@atexit.register
def _sweep():
    for pid, d in _made:
        if pid == os.getpid():
            shutil.rmtree(d, ignore_errors=True)
