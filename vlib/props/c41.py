"""C41: legacy runcards and v1/v2 archives upgrade to equivalent current structures."""

import copy
import io
import json
import math
import pathlib
import tarfile

import numpy as np
import yaml

from .. import scratch
from .. import workload as W
from ..oracles import archive_digest as ad
from .c40 import gen_operator_raw, gen_theory_raw, same

META = dict(
    level="translation_validation",
    design_ref="DESIGN.md §5 C41",
    technique="translation validation against an independent statement of the field mapping: (a) synthetic old-style (PTO/QED/HQ/ModEv...) runcards -> Legacy converter compared with expected values computed here; (b) current archives rewritten into the 0.13 (v1) and 0.14 (v2) layouts by the inverse field mapping, read back with EKO.read and compared field by field / bitwise with the archive they were derived from",
    level_text="Every generated legacy card pair and every synthetic v1/v2 archive is translated by the real converter and the result is validated against the expectation; sampling over PTO, QED, HQ scheme, ModEv, ModSV, inversion, grids, thresholds, nf0 (given / inferred) and over random current cards for the archives.",
    level_note="Trusted base: my statement of the legacy formats. Old runcards: keys as used by benchmarks/ and ekomark (PTO, QED, alphas, alphaqed, Qref, nfref, Qedref, mc/mb/mt, kcThr.., Qmc.., HQ, XIF, ModEv, ModSV, Q0, nf0, PTO_matching; operator: interpolation_xgrid, mugrid|Q2grid|mu2grid, ev_op_*, debug_skip_*). Archives: layout reconstructed from the read-set of eko/io/v1.py, v2.py and metadata.py and from the old-format cards in extras/lh_bench_23/cfg.py (couplings.scale/num_flavs_ref/max_num_flavs, heavy.num_flavs_init/num_flavs_max_pdf/intrinsic_flavors, operator mu0, metadata bases.xgrid, use_fhmv in 0.13). Fields the converters never read (max_num_flavs, num_flavs_max_pdf, intrinsic_flavors, other entries of bases) cannot be checked.",
    assumptions=[
        "legacy metadata 'bases.xgrid' is a plain list of x values (logarithmic grid) or a {grid, log} mapping (the form the converters pass through; used here for linear grids)",
        "em_running of a legacy card is 'Qedref present and equal to Qref' (convention of the converter; checked only for consistency)",
        "0.13/0.14 archives name inventory files exactly as the current code does (operators directory copied verbatim)",
        "fields never read by the converters (max_num_flavs, num_flavs_max_pdf, intrinsic_flavors, bases.*) are not checked",
    ],
    rule="case = one legacy card pair (keyed by PTO, QED, HQ, ModEv, ModSV, nf0 given?, grid kind) or one (archive, data version) pair (keyed by order, matching order, scheme, method, #targets, version); non-trivial: cards - at least one non-default setting among PTO>0, QED>0, MSBAR, ModSV, k!=1, nf0 inferred; archives - at least one operator and a theory with order>(1,0) or MSBAR or non-unit ratios",
    min_nontrivial=60,
    required_hits=["legacy_cards_converted", "archives_read", "operators_compared", "linear_grid_archives", "log_grid_archives"],
    max_inconclusive_frac=0.05,
)
META["level_text"] += ' Each legacy archive is additionally edited (metadata rewritten), closed and read again.'

MODEV = {"EXA": "iterate-exact", "EXP": "iterate-expanded", "TRN": "truncated"}


# ----------------------------------------------------------------- old runcards
def gen_legacy(rng):
    pto = int(rng.integers(0, 4))
    qed = int(rng.integers(0, 3))
    hq = ["POLE", "MSBAR"][int(rng.integers(2))]
    ms = sorted(float(x) for x in (rng.uniform(1.2, 2.0), rng.uniform(4.0, 5.0), rng.uniform(150.0, 180.0)))
    while True:  # the default flow needs mu_c < mu_b < mu_t
        ks = [float(rng.choice([1.0, 1.0, 0.5, 2.0, rng.uniform(0.7, 1.5)])) for _ in range(3)]
        if ms[0] * ks[0] < ms[1] * ks[1] < ms[2] * ks[2]:
            break
    modev = ["EXA", "EXP", "TRN", "iterate-exact", "decompose-exact", "perturbative-exact", "ordered-truncated"][int(rng.integers(7))]
    th = dict(
        PTO=pto,
        QED=qed,
        alphas=float(rng.uniform(0.1, 0.35)),
        Qref=float(rng.uniform(1.5, 100.0)),
        nfref=int(rng.integers(3, 7)),
        mc=ms[0],
        mb=ms[1],
        mt=ms[2],
        kcThr=ks[0],
        kbThr=ks[1],
        ktThr=ks[2],
        HQ=hq,
        XIF=float(rng.choice([1.0, 0.5, 2.0, rng.uniform(0.5, 2.0)])),
        ModEv=modev,
        Q0=float(rng.uniform(1.0, 3.0)),
        nf0=None,
        # keys of the old format the converter has no use for
        MaxNfAs=6,
        MaxNfPdf=6,
        FNS="ZM-VFNS",
        IC=int(rng.integers(0, 2)),
        Comments="generated",
    )
    aem = float(rng.uniform(0.007, 0.008))
    r = rng.random()
    if r < 0.5:
        th["alphaqed"] = aem
    elif r < 0.8:
        th["alphaem"] = aem
    elif r < 0.9:
        th["alphaqed"] = None
        th["alphaem"] = aem
    else:
        aem = 0.0  # neither given
    r = rng.random()
    if r < 0.3:
        th["Qedref"] = th["Qref"]
        emr = True
    elif r < 0.6:
        th["Qedref"] = float(th["Qref"] * rng.uniform(1.5, 3.0))
        emr = False
    else:
        emr = False
    if hq == "MSBAR":
        qm = [float(m * rng.choice([1.0, 1.0, rng.uniform(0.8, 2.0)])) for m in ms]
        th["Qmc"], th["Qmb"], th["Qmt"] = qm
    else:
        qm = [math.nan] * 3
        if rng.random() < 0.5:
            th["Qmc"], th["Qmb"], th["Qmt"] = ms  # present but meaningless for pole masses
    # thresholds of the default flow
    walls = [m * k for m, k in zip(ms, ks)]

    def nf_at(mu):
        return 3 + sum(1 for w in walls if mu > w)

    def away(mu):
        return all(abs(mu / w - 1.0) > 0.03 for w in walls)

    while not away(th["Q0"]):
        th["Q0"] = float(rng.uniform(1.0, 3.0))
    nf0_given = bool(rng.random() < 0.5)
    if nf0_given:
        th["nf0"] = int(rng.integers(3, 6))
    init = (th["Q0"], th["nf0"] if nf0_given else nf_at(th["Q0"]))
    modsv = [None, "exponentiated", "expanded", "absent"][int(rng.integers(4))]
    if modsv != "absent":
        th["ModSV"] = modsv
    inv = ["exact", "expanded", "absent"][int(rng.integers(3))]
    if inv != "absent":
        th["backward_inversion"] = inv
    pto_m = None
    if rng.random() < 0.3:
        pto_m = [int(rng.integers(0, 4)), 0]
        th["PTO_matching"] = pto_m
    n3 = None
    if rng.random() < 0.3:
        n3 = [int(x) for x in rng.integers(0, 3, 7)]
        th["n3lo_ad_variation"] = n3
    fh = None
    if rng.random() < 0.3:
        fh = bool(rng.random() < 0.5)
        th["use_fhmruvv"] = fh

    # operator
    n = int(rng.integers(2, 9))
    xg = [float(x) for x in np.geomspace(10 ** rng.uniform(-6, -1), 1.0, n)]
    nmu = int(rng.integers(1, 5))
    mus = []
    while len(mus) < nmu:
        mu = float(10 ** rng.uniform(0.0, 3.0))
        if away(mu):
            mus.append(mu)
    grid_kind = ["mugrid", "Q2grid", "mu2grid"][int(rng.integers(3))]
    op = dict(
        interpolation_xgrid=xg,
        interpolation_polynomial_degree=int(rng.integers(1, 5)),
        interpolation_is_log=bool(rng.random() < 0.7),
        ev_op_max_order=int(rng.integers(1, 20)),
        ev_op_iterations=int(rng.integers(1, 40)),
        n_integration_cores=int(rng.integers(1, 4)),
        debug_skip_non_singlet=bool(rng.random() < 0.2),
        debug_skip_singlet=bool(rng.random() < 0.2),
        polarized=bool(rng.random() < 0.3),
        time_like=bool(rng.random() < 0.3),
        inputgrid=None,
        targetgrid=None,
        inputpids=None,
        targetpids=None,
    )
    if grid_kind == "mugrid":
        op["mugrid"] = list(mus)
    else:
        op[grid_kind] = [mu**2 for mu in mus]

    expect_th = dict(
        order=(pto + 1, qed),
        alphas=th["alphas"],
        alphaem=aem,
        ref=(th["Qref"], th["nfref"]),
        em_running=emr,
        masses=[(m, q) for m, q in zip(ms, qm)],
        scheme=hq,
        ratios=ks,
        xif=th["XIF"],
        matching_order=tuple(pto_m) if pto_m else (pto, 0),
        n3lo=tuple(n3) if n3 else (0,) * 7,
        use_fhmruvv=True if fh is None else fh,
    )
    expect_op = dict(
        init=init,
        mugrid=[(mu, nf_at(mu)) for mu in mus],
        mugrid_exact=grid_kind == "mugrid",
        xgrid=xg,
        method=MODEV.get(modev, modev),
        inversion="expanded" if inv == "absent" else inv,
        scvar="expanded" if modsv == "absent" else modsv,
        max_order=(op["ev_op_max_order"], qed),
        copied={k: op[k] for k in ("interpolation_polynomial_degree", "interpolation_is_log", "ev_op_iterations", "n_integration_cores", "polarized", "time_like")},
        debug=dict(skip_singlet=op["debug_skip_singlet"], skip_non_singlet=op["debug_skip_non_singlet"]),
    )
    desc = dict(PTO=pto, QED=qed, HQ=hq, ModEv=modev, ModSV=modsv, inv=inv, nf0_given=nf0_given, grid=grid_kind, k_unit=all(k == 1.0 for k in ks), pto_matching=pto_m is not None)
    return th, op, expect_th, expect_op, desc


def feq(a, b, rel=0.0):
    a, b = float(a), float(b)
    if math.isnan(a) and math.isnan(b):
        return True
    if rel:
        return abs(a - b) <= rel * max(abs(a), abs(b))
    return a == b


def compare_legacy(th_new, op_new, et, eo):
    """Return list of (field, got, want)."""
    bad = []

    def chk(name, got, want, ok):
        if not ok:
            bad.append((name, repr(got)[:120], repr(want)[:120]))

    chk("order", th_new.order, et["order"], tuple(th_new.order) == tuple(et["order"]))
    chk("couplings.alphas", th_new.couplings.alphas, et["alphas"], feq(th_new.couplings.alphas, et["alphas"]))
    chk("couplings.alphaem", th_new.couplings.alphaem, et["alphaem"], feq(th_new.couplings.alphaem, et["alphaem"]))
    r = th_new.couplings.ref
    chk("couplings.ref", r, et["ref"], feq(r[0], et["ref"][0]) and int(r[1]) == et["ref"][1])
    chk("couplings.em_running", th_new.couplings.em_running, et["em_running"], bool(th_new.couplings.em_running) == et["em_running"])
    ms = th_new.heavy.masses
    chk("heavy.masses", ms, et["masses"], len(ms) == 3 and all(feq(m[0], w[0]) and feq(m[1], w[1]) for m, w in zip(ms, et["masses"])))
    chk("heavy.masses_scheme", th_new.heavy.masses_scheme, et["scheme"], th_new.heavy.masses_scheme.name == et["scheme"])
    chk("heavy.matching_ratios", th_new.heavy.matching_ratios, et["ratios"], [float(x) for x in th_new.heavy.matching_ratios] == et["ratios"])
    chk("xif", th_new.xif, et["xif"], feq(th_new.xif, et["xif"]))
    chk("matching_order", th_new.matching_order, et["matching_order"], tuple(th_new.matching_order) == tuple(et["matching_order"]))
    chk("n3lo_ad_variation", th_new.n3lo_ad_variation, et["n3lo"], tuple(th_new.n3lo_ad_variation) == tuple(et["n3lo"]))
    chk("use_fhmruvv", th_new.use_fhmruvv, et["use_fhmruvv"], th_new.use_fhmruvv is et["use_fhmruvv"] or th_new.use_fhmruvv == et["use_fhmruvv"])

    i = op_new.init
    chk("init", i, eo["init"], feq(i[0], eo["init"][0]) and int(i[1]) == eo["init"][1])
    mg = op_new.mugrid
    rel = 0.0 if eo["mugrid_exact"] else 4e-16
    chk("mugrid", mg, eo["mugrid"], len(mg) == len(eo["mugrid"]) and all(feq(g[0], w[0], rel) and int(g[1]) == w[1] for g, w in zip(mg, eo["mugrid"])))
    xr = np.asarray(op_new.xgrid.raw)
    chk("xgrid", xr, eo["xgrid"], len(xr) == len(eo["xgrid"]) and np.array_equal(xr, np.asarray(eo["xgrid"])))
    c = op_new.configs
    chk("configs.evolution_method", c.evolution_method, eo["method"], c.evolution_method.value == eo["method"])
    chk("configs.inversion_method", c.inversion_method, eo["inversion"], (c.inversion_method.value if c.inversion_method else None) == eo["inversion"])
    chk("configs.scvar_method", c.scvar_method, eo["scvar"], (c.scvar_method.value if c.scvar_method else None) == eo["scvar"])
    chk("configs.ev_op_max_order", c.ev_op_max_order, eo["max_order"], tuple(c.ev_op_max_order) == tuple(eo["max_order"]))
    for k, v in eo["copied"].items():
        chk(f"configs.{k}", getattr(c, k), v, getattr(c, k) == v and type(getattr(c, k)) is type(v))
    chk("debug.skip_singlet", op_new.debug.skip_singlet, eo["debug"]["skip_singlet"], op_new.debug.skip_singlet == eo["debug"]["skip_singlet"])
    chk("debug.skip_non_singlet", op_new.debug.skip_non_singlet, eo["debug"]["skip_non_singlet"], op_new.debug.skip_non_singlet == eo["debug"]["skip_non_singlet"])
    return bad


def check_legacy_cards(ck, n):
    from eko.io import runcards

    rng = ck.rng
    for _ in range(n):
        th, op, et, eo, desc = gen_legacy(rng)
        key = json.dumps(desc, sort_keys=True)
        nontrivial = desc["PTO"] > 0 or desc["QED"] > 0 or desc["HQ"] == "MSBAR" or not desc["k_unit"] or not desc["nf0_given"] or desc["ModSV"] not in (None, "absent")
        ck.case(key, nontrivial=nontrivial, sample=dict(kind="legacy-runcards", **desc))
        wit = dict(theory=th, operator=op, seed=ck.seed)
        th_in, op_in = copy.deepcopy(th), copy.deepcopy(op)
        try:
            leg = runcards.Legacy(th_in, op_in)
            th_new = leg.new_theory
            op_new = leg.new_operator
        except Exception as e:
            ck.violation(f"C41/legacy-cards/raises/{type(e).__name__}", f"Legacy converter raised {type(e).__name__}: {str(e)[:200]} on {desc}", wit)
            continue
        ck.hit("legacy_cards_converted")
        bad = compare_legacy(th_new, op_new, et, eo)
        if bad:
            for name, got, want in bad[:4]:
                ck.violation(f"C41/legacy-cards/{name}", f"Legacy converter: {name} = {got}, expected {want} for {desc}", dict(wit, field=name, got=got, want=want))
        else:
            ck.ok()


def _nan_equal(a, b):
    return same(a, b, "", allow_seq_mix=False) is None


# ------------------------------------------------------------------- archives
def build_current(rng, path):
    """Build a current-format archive with random cards and random operators (no solve)."""
    from eko.io.items import Operator
    from eko.io.struct import EKO

    th_raw = gen_theory_raw(rng)
    th_raw.setdefault("use_fhmruvv", bool(rng.random() < 0.5))
    op_raw = gen_operator_raw(rng)
    # linear grids too: the legacy layouts carry them as bases.xgrid = {grid, log: false}
    if not op_raw["mugrid"] or rng.random() < 0.3:
        op_raw["mugrid"] = [(float(rng.uniform(2.0, 100.0)), int(rng.integers(3, 7))) for _ in range(int(rng.integers(1, 4)))]
    # distinct targets
    seen, mg = set(), []
    for mu, nf in op_raw["mugrid"]:
        if (mu, nf) not in seen:
            seen.add((mu, nf))
            mg.append([mu, nf])
    op_raw["mugrid"] = mg
    th, op = W.cards(th_raw, op_raw)
    nx = len(op_raw["xgrid"])
    with EKO.create(path) as builder:
        eko = builder.load_cards(th, op).build()
        for mu, nf in mg:
            a = rng.normal(size=(14, nx, 14, nx))
            err = np.abs(rng.normal(size=a.shape)) * 1e-4 if rng.random() < 0.6 else None
            eko[(mu**2, nf)] = Operator(a, err)
            del eko[(mu**2, nf)]
    return th_raw, op_raw


def to_legacy_archive(src, dst, version, rng):
    """Rewrite a current archive into the 0.13 (version=1) / 0.14 (version=2) layout."""
    notes = {}
    with tarfile.open(src, "r") as tin, tarfile.open(dst, "w") as tout:
        members = tin.getmembers()
        raw = {}
        for m in members:
            if m.isfile() and m.name.lstrip("./") in ("theory.yaml", "operator.yaml", "metadata.yaml"):
                raw[m.name.lstrip("./")] = yaml.safe_load(tin.extractfile(m).read().decode())
        th = copy.deepcopy(raw["theory.yaml"])
        op = copy.deepcopy(raw["operator.yaml"])
        md = copy.deepcopy(raw["metadata.yaml"])
        # theory
        ref = th["couplings"].pop("ref")
        th["couplings"]["scale"] = ref[0]
        th["couplings"]["num_flavs_ref"] = ref[1]
        th["couplings"]["max_num_flavs"] = 6
        th["heavy"]["num_flavs_init"] = op["init"][1]
        th["heavy"]["num_flavs_max_pdf"] = 6
        th["heavy"]["intrinsic_flavors"] = [4] if rng.random() < 0.5 else []
        if version == 1 and rng.random() < 0.6:
            th["use_fhmv"] = th.pop("use_fhmruvv")
            notes["use_fhmv"] = True
        # operator
        init = op.pop("init")
        op["mu0"] = init[0]
        op["eko_version"] = "0.13.5" if version == 1 else "0.14.2"
        if version == 1 and rng.random() < 0.5:
            op["configs"].pop("n_integration_cores", None)
        # metadata
        xg = md.pop("xgrid")
        md["bases"] = dict(xgrid=xg, targetgrid=None, inputgrid=None, targetpids=None, inputpids=None)
        md["version"] = "0.13.5" if version == 1 else "0.14.2"
        md["data_version"] = 1
        new = {"theory.yaml": th, "operator.yaml": op, "metadata.yaml": md}
        for m in members:
            name = m.name.lstrip("./")
            if m.isfile() and name in new:
                data = yaml.safe_dump(new[name]).encode()
                ti = copy.copy(m)
                ti.size = len(data)
                tout.addfile(ti, io.BytesIO(data))
            elif m.isfile():
                tout.addfile(m, tin.extractfile(m))
            else:
                tout.addfile(m)
    return raw, new, notes


def check_archives(ck, n, root):
    from eko.io import runcards
    from eko.io.struct import EKO

    rng = ck.rng
    for i in range(n):
        src = root / f"cur{i}.tar"
        try:
            th_raw, op_raw = build_current(rng, src)
        except Exception as e:
            ck.case(("build", i), nontrivial=False)
            ck.inconclusive(f"could not build a current archive: {type(e).__name__}: {str(e)[:150]}")
            continue
        arrays0 = ad.arrays(src)
        ymls0 = ad.yaml_members(src)
        # what the current reader says about the current archive is the reference for the cards
        with EKO.read(src) as e0:
            th0, op0 = e0.theory_card, e0.operator_card
            md0 = (tuple(e0.metadata.origin), np.array(e0.xgrid.raw), bool(e0.xgrid.log))
            eps0 = sorted(e0)
        # the reference must itself agree with the generated raw cards (independent of the reader)
        exp_th = runcards.TheoryCard.from_dict(copy.deepcopy(th_raw))
        exp_op = runcards.OperatorCard.from_dict(copy.deepcopy(op_raw))
        d = same(exp_th, th0, "theory") or same(exp_op, op0, "operator")
        if d:
            ck.case(("ref", i), nontrivial=False)
            ck.inconclusive(f"current archive does not read back its own cards ({d}); C36's business, reference unusable")
            continue
        for version in (1, 2):
            dst = root / f"v{version}-{i}.tar"
            desc = dict(version=version, order=th_raw["order"], matching_order=th_raw.get("matching_order"), scheme=th_raw["heavy"]["masses_scheme"].upper(), method=op_raw["configs"]["evolution_method"], targets=len(op_raw["mugrid"]), nx=len(op_raw["xgrid"]), is_log=bool(op_raw["configs"]["interpolation_is_log"]))
            _raw, new, notes = to_legacy_archive(src, dst, version, rng)
            desc.update(notes)
            ck.hit("linear_grid_archives" if not desc["is_log"] else "log_grid_archives")
            nontrivial = len(eps0) >= 1 and (not desc["is_log"] or tuple(th_raw["order"]) > (1, 0) or desc["scheme"] == "MSBAR" or any(r != 1.0 for r in th_raw["heavy"]["matching_ratios"]))
            ck.case(json.dumps(desc, sort_keys=True, default=str), nontrivial=nontrivial, sample=dict(kind="legacy-archive", **desc))
            wit = dict(desc, theory_yaml=new["theory.yaml"], operator_yaml={k: v for k, v in new["operator.yaml"].items() if k != "xgrid"}, metadata_yaml={k: v for k, v in new["metadata.yaml"].items() if k != "bases"}, seed=ck.seed)
            try:
                with EKO.read(dst) as e1:
                    th1, op1 = e1.theory_card, e1.operator_card
                    md1 = (tuple(e1.metadata.origin), np.array(e1.xgrid.raw), bool(e1.xgrid.log))
                    dv = e1.metadata.data_version
                    eps1 = sorted(e1)
                    ops1 = {}
                    for ep, o in e1.items():
                        ops1[ep] = (np.array(o.operator), None if o.error is None else np.array(o.error))
            except Exception as e:
                ck.violation(f"C41/archive-v{version}/read-raises/{type(e).__name__}", f"EKO.read of a synthetic v{version} archive raised {type(e).__name__}: {str(e)[:200]}", wit)
                continue
            ck.hit("archives_read")
            bad = []
            dth = same(th0, th1, "theory")
            if dth:
                bad.append(("theory", dth))
            # n_integration_cores is not a physical setting (v1 forces 1)
            op1c = copy.deepcopy(op1)
            op0c = copy.deepcopy(op0)
            op1c.configs.n_integration_cores = op0c.configs.n_integration_cores = 1
            op1c.eko_version = op0c.eko_version = ""
            dop = same(op0c, op1c, "operator")
            if dop:
                bad.append(("operator", dop))
            if not (md0[0][0] == md1[0][0] and int(md0[0][1]) == int(md1[0][1]) and np.array_equal(md0[1], md1[1])):
                bad.append(("metadata", f"origin/xgrid {md0[0]} -> {md1[0]}"))
            # XGrid.__eq__ ignores the flag: compare it explicitly, against the source and against the card's declaration
            if md1[2] != md0[2] or md1[2] != bool(op_raw["configs"]["interpolation_is_log"]):
                bad.append(("metadata.xgrid.log", f"xgrid log flag {md0[2]} (declared is_log={op_raw['configs']['interpolation_is_log']}) -> {md1[2]}"))
            if dv != version:
                bad.append(("metadata", f"data_version {dv}, expected {version}"))
            if [(float(a), int(b)) for a, b in eps0] != [(float(a), int(b)) for a, b in eps1]:
                bad.append(("evolution-points", f"{eps0} -> {eps1}"))
            else:
                # bitwise operators against the independent reader of the source archive
                hdr = {k: v for k, v in ymls0.items() if k.startswith("operators/")}
                for name, h in hdr.items():
                    arrs = arrays0.get(name[: -len(".yaml")] + ".npz.lz4") or arrays0.get(name[: -len(".yaml")] + ".npy.lz4")
                    ep = next((e for e in ops1 if float(e[0]) == float(h["scale"]) and int(e[1]) == int(h["nf"])), None)
                    if arrs is None or ep is None:
                        bad.append(("operators", f"operator {h} missing"))
                        continue
                    ck.hit("operators_compared")
                    got_op, got_err = ops1[ep]
                    if got_op.tobytes() != arrs["operator"].tobytes() or got_op.shape != arrs["operator"].shape:
                        bad.append(("operators", f"operator at {ep} differs bitwise"))
                    if ("error" in arrs) != (got_err is not None) or (got_err is not None and got_err.tobytes() != arrs["error"].tobytes()):
                        bad.append(("operators", f"error at {ep} differs"))
            if bad:
                for what, d in bad[:4]:
                    field = d.split(":")[0].strip() if what in ("theory", "operator") else what
                    ck.violation(f"C41/archive-v{version}/{field}", f"v{version} archive upgrade: {d}", dict(wit, difference=d))
            else:
                ck.ok()
            # ---- the legacy archive after an edit session that rewrites its metadata (here: the grid assigned to
            # itself): it still declares its data version and must still load into the same structures
            try:
                with EKO.edit(dst) as e2:
                    e2.xgrid = e2.xgrid
                with EKO.read(dst) as e3:
                    th3, op3, eps3 = e3.theory_card, e3.operator_card, sorted(e3)
                    x3 = (np.array(e3.xgrid.raw), bool(e3.xgrid.log))
                ck.hit("reread_after_edit")
                op3c = copy.deepcopy(op3)
                op3c.configs.n_integration_cores = 1
                op3c.eko_version = ""
                d3 = same(th1, th3, "theory") or same(op1c, op3c, "operator")
                ck.case(json.dumps(dict(desc, history="edit-then-read"), sort_keys=True, default=str), nontrivial=nontrivial)
                if d3 or eps3 != eps1 or not np.array_equal(x3[0], md1[1]) or x3[1] != md1[2]:
                    ck.violation(f"C41/archive-v{version}/reread-after-edit/differs", f"v{version} archive re-read after an edit session differs from its first load: {d3 or 'evolution points / grid'}", dict(wit, difference=str(d3)))
                else:
                    ck.ok()
            except Exception as e:
                ck.case(json.dumps(dict(desc, history="edit-then-read"), sort_keys=True, default=str), nontrivial=nontrivial)
                ck.violation(f"C41/archive-v{version}/reread-after-edit/{type(e).__name__}", f"a v{version} archive that loads fine cannot be loaded any more after an edit session rewrote its metadata: {type(e).__name__}: {str(e)[:150]}", wit)
            dst.unlink(missing_ok=True)
        src.unlink(missing_ok=True)


def run(ck):
    check_legacy_cards(ck, ck.n(250, 5000))
    with scratch.tmpdir(prefix="c41-") as root:
        import tempfile

        old_tmp = tempfile.tempdir
        (pathlib.Path(root) / "tmp").mkdir()
        tempfile.tempdir = str(pathlib.Path(root) / "tmp")  # eko's own temporary directories go to scratch too
        try:
            check_archives(ck, ck.n(40, 500), pathlib.Path(root))
        finally:
            tempfile.tempdir = old_tmp
    # translation-validation coverage: translated inputs, and translations whose output was compared
    ck.note(
        programs=int(ck.hits.get("legacy_cards_converted", 0) + ck.hits.get("archives_read", 0)),
        disagreements_checked=int(ck.hits.get("legacy_cards_converted", 0) + ck.hits.get("archives_read", 0)),
    )
