"""C13: evolution integrals equal their defining integrals / Taylor truncations; N3LO roots are roots."""

import warnings

import numpy as np

from .. import jobs
from ..oracles import evint
from ..oracles import literature as lit

META = dict(
    level="exploration",
    design_ref="DESIGN.md §5 C13",
    technique="reference-value monitor: every closed-form evolution integral of eko.kernels.{evolution_integrals,as4_evolution_integrals} evaluated on random couplings/beta towers against 30-digit mpmath quadrature of a^k/beta(a) (exact), an independent series reciprocal (expanded) and the residual of the cubic (roots)",
    level_text="Randomised exploration of the input domain (a0,a1 in [1e-3,0.1] both orderings, nf 3-6 with literature and QED-shifted beta, random positive b-towers incl. imaginary Delta, near-coincident couplings); every function is compared with the numerical value of its defining integral, so a wrong coefficient/branch anywhere in the sampled domain shows as an O(1e-3..1) relative deviation against a 1e-11 tolerance.",
    level_note="Trusted base: mpmath quad (error estimate checked, must be < 1e-20 relative), literature beta transcription (C20 oracle, self-checked), mpmath.polyroots for the conditioning bound. Inputs outside the sampled box and the numba-compiled build are not covered.",
    rule="case = (function, beta source, nf or random tower id, a0, a1); distinct by construction (continuous random draws); non-trivial = |a1/a0-1| > 2% and all participating b_k != 0 (for j34/j24: Delta real and imaginary both sampled); boundary cases (a1->a0) are executed and judged but not counted as non-trivial",
    min_nontrivial=300,
    required_hits=["exact_vs_quad", "expanded_vs_series", "roots_residual", "nnlo_imag_delta", "nnlo_imag_delta_nf6", "nnlo_real_delta"],
    max_inconclusive_frac=0.02,
)
META["level_text"] += ' Beta towers exactly on the internal boundaries d2=0 and d1=0 of the Cardano formula are included; half of the N3LO calls hand the b-coefficients over as a float64 array that must come back untouched.'

EPS = np.finfo(float).eps
TOL_EXACT = 1e-11
TOL_EXP = 1e-13
TOL_ROOT = 1e-9


# ------------------------------------------------------------------ workload
def _towers(rng, n_rand):
    """beta towers as plain float lists [beta0, beta1, beta2, beta3] with a label."""
    out = []
    for nf in range(3, 7):
        out.append((f"qcd-nf{nf}", nf, [float(lit.beta_qcd(k, nf)) for k in range(4)]))
    for nf in range(3, 7):
        for _ in range(2):
            aem = float(rng.uniform(1e-4, 0.02))
            bs = [float(x) for x in evint.betas_qed_fixed(nf, 4, aem)]
            out.append((f"qed-shift-nf{nf}", nf, bs))
    for i in range(n_rand):
        beta0 = float(rng.uniform(5.0, 12.0))
        b1 = float(10 ** rng.uniform(-0.5, 1.2))
        b2 = float(10 ** rng.uniform(-0.5, 2.5))
        # N3LO: stay inside the real-Cardano domain of roots() (checked below), positive b3
        b3 = float(10 ** rng.uniform(0.0, 3.5))
        out.append((f"random-{i}", None, [beta0, beta0 * b1, beta0 * b2, beta0 * b3]))
    # towers exactly on the internal boundaries of the Cardano formula, where the polynomial itself is
    # perfectly regular: d2 = -2 b2^3 + 9 b1 b2 b3 - 27 b3^2 = 0 (sign change of the cube-root argument)
    # and d1 = -b2^2 + 3 b1 b3 = 0; beta0 = 8 and dyadic rescalings a -> s a keep the zeros exact
    for i, (b1, b2, b3) in enumerate([(3.0, 3.0, 2.0), (4.0, 6.0, 4.0), (4.5, 3.0, 4.0), (6.0, 6.0, 2.0)]):
        for s_ in (1.0, 2.0, 4.0, 0.5):
            out.append((f"cardano-boundary-{i}-x{s_:g}", None, [8.0, 8.0 * b1 * s_, 8.0 * b2 * s_**2, 8.0 * b3 * s_**3]))
    # perturbed-physical towers (always in the domain of the closed forms)
    for i in range(n_rand):
        nf = int(rng.integers(3, 7))
        f = rng.uniform(0.6, 1.6, 4)
        out.append((f"perturbed-nf{nf}-{i}", None, [float(lit.beta_qcd(k, nf)) * float(f[k]) for k in range(4)]))
    return out


def _couplings(rng, n, boundary):
    prs = []
    for _ in range(n):
        a0, a1 = np.exp(rng.uniform(np.log(1e-3), np.log(0.1), 2))
        if abs(a1 / a0 - 1) < 0.02:
            a1 = a0 * 1.5 if a0 < 0.06 else a0 / 1.5
        prs.append((float(a0), float(a1)))
    for _ in range(boundary):
        a0 = float(np.exp(rng.uniform(np.log(1e-3), np.log(0.1))))
        d = float(10 ** rng.uniform(-9, -2.5)) * (1 if rng.random() < 0.5 else -1)
        prs.append((a0, a0 * (1 + d)))
    return prs


def _cardano_ok(bl):
    """Domain of the real-arithmetic Cardano formula used by roots(): one real root and a
    well-conditioned real cube root. Outside of it the function is not applicable (returns nan)."""
    b1, b2, b3 = bl
    d1 = -(b2**2) + 3 * b1 * b3
    d2 = -2 * b2**3 + 9 * b1 * b2 * b3 - 27 * b3**2
    disc = 4 * d1**3 + d2**2
    if not disc > 0:
        return False, "three-real-roots"
    s = d2 + np.sqrt(disc)
    if not s > 0:
        return False, "negative-cube-root"
    if abs(d2) / s > 1e4:
        return False, "ill-conditioned"
    return True, ""


# ------------------------------------------------------------------ references
def _amp(k, bs):
    return evint.partial_fraction_amp(k, bs)


def _exp_scale(k, a0, a1, bs):
    """Sum of |terms| of the truncated series (floating-point conditioning of the expanded forms)."""
    m = len(bs) - 1
    c = [float(abs(x)) for x in evint.recip_series([b / bs[0] for b in bs[1:]], max(0, m))]
    tot = 0.0
    for j in range(0, m - k + 2):
        p = k - 2 + j
        if p == -1:
            tot += c[j] * (abs(np.log(a1 / a0)) + 1.0)  # log(a1/a0): rounding the ratio alone is an absolute error eps
        else:
            tot += c[j] * (a1 ** (p + 1) + a0 ** (p + 1)) / (p + 1)
    return tot / bs[0]


def _call_all(order, a0, a1, bs):
    """Evaluate every evolution integral of the code under test for this order.

    Returns dict name -> (k, kind, value); the *code under test* is called here."""
    from eko.kernels import as4_evolution_integrals as a4
    from eko.kernels import evolution_integrals as ei

    beta0 = bs[0]
    b_vec = [b / beta0 for b in bs]
    out = {}
    if order == 1:
        out["ei.j12"] = (1, "exact", ei.j12(a1, a0, beta0))
    elif order == 2:
        out["ei.j13_exact"] = (1, "exact", ei.j13_exact(a1, a0, beta0, b_vec))
        out["ei.j23_exact"] = (2, "exact", ei.j23_exact(a1, a0, beta0, b_vec))
        out["ei.j13_expanded"] = (1, "expanded", ei.j13_expanded(a1, a0, beta0, b_vec))
        out["ei.j23_expanded"] = (2, "expanded", ei.j23_expanded(a1, a0, beta0))
    elif order == 3:
        out["ei.j14_exact"] = (1, "exact", ei.j14_exact(a1, a0, beta0, b_vec))
        out["ei.j24_exact"] = (2, "exact", ei.j24_exact(a1, a0, beta0, b_vec))
        out["ei.j34_exact"] = (3, "exact", ei.j34_exact(a1, a0, beta0, b_vec))
        out["ei.j14_expanded"] = (1, "expanded", ei.j14_expanded(a1, a0, beta0, b_vec))
        out["ei.j24_expanded"] = (2, "expanded", ei.j24_expanded(a1, a0, beta0, b_vec))
        out["ei.j34_expanded"] = (3, "expanded", ei.j34_expanded(a1, a0, beta0))
    elif order == 4:
        bl = b_vec[1:]
        if (hash((a0, a1)) & 1) == 0:
            # the b-coefficients as a float64 array (what a caller slicing a NumPy beta vector hands over);
            # the callee must not modify it
            bl = np.array(bl, dtype=np.float64)
            bl_before = bl.copy()
        else:
            bl_before = None
        j12 = ei.j12(a1, a0, beta0)
        ok, _why = _cardano_ok(bl)
        if ok:
            r = a4.roots(bl)
            j13 = a4.j13_exact(a1, a0, beta0, bl, r)
            j23 = a4.j23_exact(a1, a0, beta0, bl, r)
            j33 = a4.j33_exact(a1, a0, beta0, bl, r)
            out["as4.j03_exact"] = (1, "exact", a4.j03_exact(j12, j13, j23, j33, bl))
            out["as4.j13_exact"] = (2, "exact", j13)
            out["as4.j23_exact"] = (3, "exact", j23)
            out["as4.j33_exact"] = (4, "exact", j33)
            out["as4.roots"] = (0, "roots", [complex(x) for x in r])
        e13 = a4.j13_expanded(a1, a0, beta0, bl)
        e23 = a4.j23_expanded(a1, a0, beta0, bl)
        e33 = a4.j33_expanded(a1, a0, beta0)
        out["as4.j03_expanded"] = (1, "expanded", a4.j03_expanded(j12, e13, e23, e33, bl))
        out["as4.j13_expanded"] = (2, "expanded", e13)
        out["as4.j23_expanded"] = (3, "expanded", e23)
        out["as4.j33_expanded"] = (4, "expanded", e33)
        if bl_before is not None and not np.array_equal(bl, bl_before):
            raise RuntimeError(f"the array of b-coefficients handed to the N3LO integrals was modified in place: {bl_before.tolist()} -> {bl.tolist()}")
    return out


def _judge(case):
    """Worker: run the code under test on one (tower, order, a0, a1) and compare with the oracle."""
    warnings.simplefilter("ignore")
    label, nf, bs4, order, a0, a1, boundary = case
    bs = bs4[:order]
    res = []  # (fn, status, detail)
    try:
        vals = _call_all(order, a0, a1, bs)
    except Exception as e:  # a closed form that raises inside its documented domain
        return [("call", "viol", dict(what=f"raised {type(e).__name__}: {e}", label=label, order=order, a0=a0, a1=a1, betas=bs))]
    imag_delta = None
    if order == 3:
        b1, b2 = bs[1] / bs[0], bs[2] / bs[0]
        imag_delta = (4 * b2 - b1 * b1) < 0
    for fn, (k, kind, got) in vals.items():
        wit = dict(fn=fn, label=label, nf=nf, order=order, a0=a0, a1=a1, betas=bs, boundary=boundary)
        if kind == "roots":
            bl = [b / bs[0] for b in bs[1:]]
            worst, scale_w = 0.0, 1.0
            for x in got:
                terms = [1.0, bl[0] * x, bl[1] * x * x, bl[2] * x**3]
                r = abs(sum(terms))
                sc = max(abs(t) for t in terms)
                if not np.isfinite(r) or r / sc > worst:
                    worst, scale_w = (r / sc if np.isfinite(r) else float("inf")), sc
            sep = min(abs(got[i] - got[j]) for i in range(3) for j in range(i))
            mag = max(abs(x) for x in got)
            wit.update(roots=got, residual_over_scale=worst, min_separation=sep)
            if not (worst <= TOL_ROOT) or not (sep > 1e-8 * mag):
                res.append((fn, "viol", wit))
            else:
                res.append((fn, "ok", dict(margin=worst / TOL_ROOT, kind=kind)))
            continue
        gotc = complex(got)
        if kind == "exact":
            ref, err = evint.jint(k, a0, a1, bs)
            if abs(err) > 1e-20 * abs(ref) + 1e-40:
                res.append((fn, "inc", f"oracle quad error {float(abs(err)):.1e} too large"))
                continue
            ref = complex(ref)
            kappa = 1.0
            if order == 3 and bs[2] != 0:
                # the NNLO closed forms go through atan(z), z=(b1+2 a b2)/Delta; for b1^2 >> 4|b2| z sits next to
                # the branch point +-i of atan and 1+-iz cancels: inherent amplification b1^2/(4|b2|) of the formula
                kappa = max(1.0, (bs[1] / bs[0]) ** 2 / (4 * abs(bs[2] / bs[0])))
            tol = TOL_EXACT * abs(ref) + 64 * EPS * _amp(k, bs) * kappa
        else:
            ref = complex(evint.jint_expanded(k, a0, a1, bs))
            tol = TOL_EXP * abs(ref) + 16 * EPS * _exp_scale(k, a0, a1, bs)
        d = abs(gotc - ref)
        wit.update(observed=gotc, expected=ref, abs_diff=d, tol=tol)
        if not np.isfinite(d) or d > tol:
            res.append((fn, "viol", wit))
        else:
            res.append((fn, "ok", dict(margin=d / tol, kind=kind, imag_delta=imag_delta, rel=d / abs(ref) if ref else 0.0)))
    return res


def _batch(cases):
    return [(_c, _judge(_c)) for _c in cases]


def _site(fn, label, nf):
    src = "qcd" if label.startswith("qcd") else "qed-shift" if label.startswith("qed") else "random-b"
    nfk = f"/nf{nf}" if nf is not None else ""
    return f"C13/{fn}/{src}{nfk}"


def run(ck):
    rng = ck.rng
    towers = _towers(rng, ck.n(12, 100))
    n_pairs, n_bnd = ck.n(10, 40), ck.n(2, 8)
    cases = []
    for label, nf, bs in towers:
        for a0, a1 in _couplings(rng, n_pairs, n_bnd):
            boundary = abs(a1 / a0 - 1) < 0.02
            for order in (1, 2, 3, 4):
                cases.append((label, nf, bs, order, a0, a1, boundary))
    _register(ck, cases)


def _register(ck, cases):
    chunks = [cases[i : i + 40] for i in range(0, len(cases), 40)]
    worst = {}
    out_of_domain = {}
    for chunk, st, val in jobs.pmap(_batch, chunks, timeout=ck.n(900, 7200)):
        if st != "ok":
            for _ in chunk:
                ck.case(None, nontrivial=False)
                ck.inconclusive(f"worker {st}: {str(val)[:120]}")
            continue
        for case, res in val:
            label, nf, bs4, order, a0, a1, boundary = case
            if order == 4:
                ok, why = _cardano_ok([b / bs4[0] for b in bs4[1:]])
                if not ok:
                    out_of_domain[why] = out_of_domain.get(why, 0) + 1
                    if not label.startswith("random"):
                        # physical towers must always be in the domain
                        ck.violation(_site("as4.roots", label, nf) + "/domain", f"real-Cardano formula not applicable for a physical beta tower ({why})", dict(label=label, betas=bs4))
            for fn, status, detail in res:
                nontrivial = (not boundary) and all(b != 0 for b in bs4[:order])
                ck.case((fn, label, order, a0, a1), nontrivial=nontrivial and status != "inc", sample=dict(fn=fn, label=label, a0=a0, a1=a1, order=order, status=status, detail=detail) if (ck.evaluations % 997 == 0 or not ck.samples) else None)
                if status == "inc":
                    ck.inconclusive(f"{fn}: {detail}")
                    continue
                if fn == "call":
                    ck.violation(f"C13/raises/order{order}", detail["what"], detail)
                    continue
                kind = "roots" if fn.endswith("roots") else "expanded" if fn.endswith("expanded") else "exact"
                ck.hit({"roots": "roots_residual", "expanded": "expanded_vs_series", "exact": "exact_vs_quad"}[kind])
                if status == "ok":
                    ck.ok()
                    worst[fn] = max(worst.get(fn, 0.0), detail["margin"])
                    if detail.get("imag_delta") is True and kind == "exact":
                        ck.hit("nnlo_imag_delta")
                        if nf == 6:
                            ck.hit("nnlo_imag_delta_nf6")
                    elif detail.get("imag_delta") is False and kind == "exact":
                        ck.hit("nnlo_real_delta")
                else:
                    what = (
                        f"{fn} roots residual {detail.get('residual_over_scale')}"
                        if kind == "roots"
                        else f"{fn}({detail['label']}, a0={a0:.5g}, a1={a1:.5g}) = {detail['observed']} but defining integral/expansion = {detail['expected']} (|diff|={detail['abs_diff']:.3e} > tol {detail['tol']:.1e})"
                    )
                    ck.violation(_site(fn, label, nf) + ("/boundary" if boundary and kind != "roots" else ""), what, detail)
    ck.note(worst_margin_used={k: round(v, 6) for k, v in sorted(worst.items())}, roots_out_of_domain_random_towers=out_of_domain)


def replay(ck, rep):
    w = rep["witness"]
    bs = list(w["betas"]) + [1.0] * (4 - len(w["betas"]))
    case = (w["label"], w.get("nf"), bs, int(w["order"]), float(w["a0"]), float(w["a1"]), bool(w.get("boundary", False)))
    _register(ck, [case])
    ck.min_nontrivial = 0
    ck.meta = dict(ck.meta, required_hits=[])
