"""C12: exact singlet methods converge to the path-ordered solution."""

import math

import numpy as np

from .. import jobs
from ..oracles import pathord as po

META = dict(
    level="exploration",
    design_ref="DESIGN.md §5 C12",
    technique="reference-model monitor with bounded-progress oracle: iterated / perturbative singlet kernels (QCD 2x2, QED 4x4 singlet and 2x2 valence) vs an adaptive path-ordered ODE solution; convergence rate in the iteration count, monotone decrease in the expansion order",
    level_text="Randomised exploration over non-commuting complex towers, orders 2-4 (QED (1-3,1-2)), nf 3-6, both evolution directions, fixed and running alpha_em. 'Converges' is decided as bounded progress: fitted rate of the error over iterations 10..320 and the size of the last error; for the perturbative solution monotone decrease over ev_op_max_order. Nothing is claimed beyond the generated inputs and the iteration counts tried.",
    level_note="Trusted base: scipy DOP853 at rtol 1e-13 (cross-checked in-run against mpmath's Taylor integrator for the QCD ODE, and the t=ln mu^2 formulation against the a_s formulation for the QED one); beta coefficients incl. the mixed beta^(2,1) and the QED ones from vlib/oracles/literature.py; the coupling steps handed to the QED kernels are sampled from the oracle's own RGE trajectory in the way Operator.compute_aem_list documents (geometric in mu^2, midpoint in mu^2).",
    rule="case = (kernel, order, nf, random tower, coupling pair or (mu2_from, mu2_to, a_s, a_em, running)); distinct by construction; non-trivial = normalised commutator of the tower > 0.05 and the kernel differs from the identity by > 1e-2",
    min_nontrivial=60,
    required_hits=["qcd_iterate_rate", "qcd_perturbative_decrease", "qcd_perturbative_rate", "qed_singlet_rate", "qed_valence_rate", "oracle_crosscheck_mp", "oracle_crosscheck_qed"],
    max_inconclusive_frac=0.05,
)

ITS = [10, 20, 40, 80, 160, 320]
LAMS = [2.0**-k for k in range(11)]
RATE = -1.8
# the absolute bound of DESIGN.md (1e-8 at max_order 12, 25 iterations) is only what correct code delivers for
# a <= 0.015: the truncation error is ~(c a)^12 with c up to ~10 (nf=3, N3LO); measured 1.2e-8 at a=0.0227
ABS_AMAX = 0.015
MLADDER = lambda n: [n, 6, 9, 12]  # noqa: E731


def qed_tower(rng, order, d, scale_s=(4.0, 40.0, 400.0, 4000.0), scale_e=(1.0, 4.0, 40.0)):
    g = np.zeros((order[0] + 1, order[1] + 1, d, d), dtype=complex)
    for i in range(order[0] + 1):
        for j in range(order[1] + 1):
            if i == 0 and j == 0:
                continue
            sc = (scale_s[i - 1] if i > 0 else 1.0) * (scale_e[j] if j > 0 else 1.0)
            g[i, j] = (rng.normal(size=(d, d)) + 1j * rng.normal(size=(d, d))) * sc / math.sqrt(2 * d)
    return g


def qed_commutator(gam):
    flat = [gam[i, j] for i in range(gam.shape[0]) for j in range(gam.shape[1]) if np.linalg.norm(gam[i, j]) > 0]
    return po.commutator_size(np.array(flat))


def _rate(its, errs, floor):
    pts = [(i, e) for i, e in zip(its, errs) if e > floor and np.isfinite(e)]
    if len(pts) < 3:
        return None
    return float(np.polyfit(np.log([p[0] for p in pts]), np.log([p[1] for p in pts]), 1)[0])


def _chunk(arg):
    seed, cid, nq, nqed, oerr = arg
    from eko.kernels import EvoMethods as EM
    from eko.kernels import singlet as s
    from eko.kernels import singlet_qed as qed_s
    from eko.kernels import valence_qed as qed_v

    rng = np.random.default_rng([seed, 12, cid])
    out = []
    for _ in range(nq):
        n = int(rng.integers(2, 5))
        nf = int(rng.integers(3, 7))
        gam = po.tower(rng, n)
        a0 = float(rng.uniform(0.004, 0.045))
        r = float(rng.uniform(1.3, 3.5))
        a1 = a0 * r if (rng.random() < 0.5 and a0 * r < 0.055) else a0 / r
        bet = po.betas(nf, n)
        ref = po.path_ordered(gam, a0, a1, bet)
        nr = float(np.linalg.norm(ref))
        comm = po.commutator_size(gam)
        nontriv = bool(comm > 0.05 and np.linalg.norm(ref - np.eye(2)) > 1e-2)
        base = dict(n=n, nf=nf, a0=a0, a1=a1, gam=gam, nontrivial=nontriv, cid=cid)
        # iterate
        m = "ITERATE_EXACT" if rng.random() < 0.7 else "ITERATE_EXPANDED"
        errs = [float(np.linalg.norm(s.dispatcher((n, 0), EM[m], gam.copy(), a1, a0, nf, it, (10, 0)) - ref) / nr) for it in ITS]
        out.append(dict(base, kind="qcd-iterate", method=m, errs=errs))
        # perturbative-exact: expansion order ladder at 25 iterations, iteration ladder at max order 12
        em = [float(np.linalg.norm(s.dispatcher((n, 0), EM.PERTURBATIVE_EXACT, gam.copy(), a1, a0, nf, 25, (M, 0)) - ref) / nr) for M in MLADDER(n)]
        ei = [float(np.linalg.norm(s.dispatcher((n, 0), EM.PERTURBATIVE_EXACT, gam.copy(), a1, a0, nf, it, (12, 0)) - ref) / nr) for it in (1, 5)] + [em[-1]]
        out.append(dict(base, kind="qcd-perturbative", method="PERTURBATIVE_EXACT", errs_M=em, errs_it=ei))
        # documented rate: U truncated at ev_op_max_order = M leaves an O(a^M) error
        M = int(rng.choice([n + 1, n + 3, 10]))
        b0, b1 = (a0, a1)
        if M == 10:  # only measurable at large couplings
            b0 = float(rng.uniform(0.08, 0.15))
            b1 = b0 / float(rng.uniform(1.25, 3.0))
            if rng.random() < 0.5:
                b0, b1 = b1, b0
        it = int(rng.choice([1, 4]))
        ds, fl = [], []
        for lam in LAMS:
            k = s.dispatcher((n, 0), EM.PERTURBATIVE_EXACT, gam.copy(), lam * b1, lam * b0, nf, it, (M, 0))
            rf = po.path_ordered(gam, lam * b0, lam * b1, bet)
            ds.append(float(np.linalg.norm(k - rf)))
            fl.append(100.0 * (oerr + 2e-15) * float(np.linalg.norm(rf)))
        out.append(dict(base, a0=b0, a1=b1, kind="qcd-perturbative-rate", method="PERTURBATIVE_EXACT", M=M, it=it, deltas=ds, floors=fl))
    for _ in range(nqed):
        for d, disp, kind in ((4, qed_s.dispatcher, "qed-singlet"), (2, qed_v.dispatcher, "qed-valence")):
            order = (int(rng.integers(1, 4)), int(rng.integers(1, 3)))
            nf = int(rng.integers(3, 7))
            running = bool(rng.integers(2))
            gam = qed_tower(rng, order, d)
            lo = float(rng.uniform(2.0, 50.0))
            hi = lo * float(rng.uniform(3.0, 100.0))
            as_lo = float(rng.uniform(0.015, 0.035))
            aem_lo = float(math.exp(rng.uniform(math.log(4e-4), math.log(8e-3))))
            traj = po.qed_trajectory(as_lo, aem_lo, lo, hi, nf, order, running)
            mu2f, mu2t = (lo, hi) if rng.random() < 0.5 else (hi, lo)
            ref = po.qed_path_ordered(gam, traj, mu2f, mu2t)
            nr = float(np.linalg.norm(ref))
            errs = []
            for it in ITS:
                asl, ah = po.qed_steps(traj, mu2f, mu2t, it)
                k = disp(order, EM.ITERATE_EXACT, gam.copy(), asl, ah, nf, it, (10, 0))
                errs.append(float(np.linalg.norm(k - ref) / nr))
            nontriv = bool(qed_commutator(gam) > 0.05 and np.linalg.norm(ref - np.eye(d)) > 1e-2)
            out.append(
                dict(kind=kind, method="ITERATE_EXACT", order=order, nf=nf, running=running, mu2_from=mu2f, mu2_to=mu2t, as_lo=as_lo, aem_lo=aem_lo,
                     mu2_lo=lo, mu2_hi=hi, gam=gam, errs=errs, nontrivial=nontriv, cid=cid)
            )
    return out


def _register(ck, r, oerr):
    floor = 100.0 * max(oerr, 1e-13)
    if r["kind"] == "qcd-iterate":
        n = r["n"]
        ck.case(("it", r["cid"], n, r["nf"], round(r["a0"], 12)), nontrivial=r["nontrivial"], sample=dict(kind=r["kind"], method=r["method"], order=n, nf=r["nf"], a0=r["a0"], a1=r["a1"], errs=r["errs"]))
        ck.hit("qcd_iterate_rate")
        rate = _rate(ITS, r["errs"], floor)
        key = f"C12/qcd-{r['method'].lower().replace('_', '-')}/order{n}"
        wit = dict(method=r["method"], order=[n, 0], nf=r["nf"], a0=r["a0"], a1=r["a1"], gamma=r["gam"], iterations=ITS, errs=r["errs"], rate=rate)
        if rate is None:
            if max(r["errs"]) <= floor:
                ck.ok()  # already at the oracle's precision for every iteration count
            else:
                ck.inconclusive(f"{key}: fewer than 3 errors above the oracle floor")
            return
        if rate <= RATE and r["errs"][-1] <= 1e-5:
            ck.ok()
        else:
            ck.violation(key, f"eko_iterate order {n}: error vs path-ordered ODE falls like iter^{rate:.2f} (need <= {RATE}), err(320)={r['errs'][-1]:.2e} (need <= 1e-5)", wit)
    elif r["kind"] == "qcd-perturbative":
        n = r["n"]
        amax = max(r["a0"], r["a1"])
        ck.case(("pert", r["cid"], n, r["nf"], round(r["a0"], 12)), nontrivial=r["nontrivial"], sample=dict(kind=r["kind"], order=n, nf=r["nf"], a0=r["a0"], a1=r["a1"], errs_max_order=r["errs_M"], errs_iterations=r["errs_it"]))
        ck.hit("qcd_perturbative_decrease")
        em, ei = r["errs_M"], r["errs_it"]
        f2 = 1e-12
        mono_M = all(em[i + 1] <= em[i] * (1 + 1e-9) or em[i] <= f2 for i in range(len(em) - 1))
        mono_it = all(ei[i + 1] <= ei[i] * (1 + 1e-6) + f2 for i in range(len(ei) - 1))
        small = em[-1] <= 1e-8 if amax <= ABS_AMAX else True
        if mono_M and mono_it and small:
            ck.ok()
        else:
            why = []
            if not mono_M:
                why.append(f"error not decreasing over ev_op_max_order {MLADDER(n)}: {['%.2e' % e for e in em]}")
            if not mono_it:
                why.append(f"error increasing over iterations (1,5,25): {['%.2e' % e for e in ei]}")
            if not small:
                why.append(f"error {em[-1]:.2e} > 1e-8 at (12, 25) with a <= {ABS_AMAX}")
            ck.violation(
                f"C12/qcd-perturbative-exact/order{n}",
                f"eko_perturbative(is_exact) order {n}: " + "; ".join(why),
                dict(order=[n, 0], nf=r["nf"], a0=r["a0"], a1=r["a1"], gamma=r["gam"], max_orders=MLADDER(n), errs_max_order=em, errs_iterations=ei),
            )
    elif r["kind"] == "qcd-perturbative-rate":
        n, M = r["n"], r["M"]
        ck.case(("prate", r["cid"], n, M, r["nf"], round(r["a0"], 12)), nontrivial=r["nontrivial"], sample=None)
        ck.hit("qcd_perturbative_rate")
        key = f"C12/qcd-perturbative-exact/order{n}/rate"
        sl, nus = po.slope(LAMS, r["deltas"], r["floors"])
        if sl is None:
            ck.inconclusive(f"{key}: fewer than 3 points above the noise floor (max_order {M})")
            return
        ok, expo = po.exponent_ok(sl, M, 0.5)
        if ok:
            ck.ok()
        else:
            ck.violation(
                key,
                f"eko_perturbative(is_exact) order {n}, ev_op_max_order {M}: error vs path-ordered ODE scales like a^{expo:.2f}, documented truncation rate is a^{M}",
                dict(order=[n, 0], nf=r["nf"], a0=r["a0"], a1=r["a1"], gamma=r["gam"], ev_op_max_order=[M, 0], ev_op_iterations=r["it"], lambdas=LAMS, deltas=r["deltas"], floors=r["floors"], slope=sl),
            )
    else:
        o = r["order"]
        ck.case((r["kind"], r["cid"], tuple(o), r["nf"], round(r["mu2_from"], 9)), nontrivial=r["nontrivial"], sample=dict(kind=r["kind"], order=list(o), nf=r["nf"], running=r["running"], errs=r["errs"]))
        ck.hit("qed_singlet_rate" if r["kind"] == "qed-singlet" else "qed_valence_rate")
        rate = _rate(ITS, r["errs"], floor)
        key = f"C12/{r['kind']}-iterate/order{o[0]}{o[1]}/{'running' if r['running'] else 'fixed'}-aem"
        wit = dict(
            order=list(o), nf=r["nf"], alphaem_running=r["running"], mu2_from=r["mu2_from"], mu2_to=r["mu2_to"], a_s_at_mu2_lo=r["as_lo"], a_em_at_mu2_lo=r["aem_lo"],
            mu2_lo=r["mu2_lo"], mu2_hi=r["mu2_hi"], gamma=r["gam"].tolist(), iterations=ITS, errs=r["errs"], rate=rate,
        )
        if rate is None:
            if max(r["errs"]) <= floor:
                ck.ok()
            else:
                ck.inconclusive(f"{key}: fewer than 3 errors above the oracle floor")
            return
        if rate <= RATE and r["errs"][-1] <= 1e-4:
            ck.ok()
        else:
            ck.violation(key, f"QED eko_iterate dim {r['gam'].shape[-1]} order {tuple(o)}: error vs path-ordered ODE in ln mu^2 falls like iter^{rate:.2f} (need <= {RATE}), err(320)={r['errs'][-1]:.2e}", wit)


def _crosscheck(ck):
    dev = po.calibrate(ck.rng, n=ck.n(3, 8))
    ck.hit("oracle_crosscheck_mp")
    # QED formulation (trajectory + ODE in t) against the a_s formulation for a_em = 0
    worst = 0.0
    for _ in range(ck.n(4, 12)):
        n = int(ck.rng.integers(1, 4))
        nf = int(ck.rng.integers(3, 7))
        g = po.tower(ck.rng, n)
        q = np.zeros((n + 1, 2, 2, 2), dtype=complex)
        q[1:, 0] = g
        q[0, 1] = 7.0  # multiplies a_em = 0
        lo, hi = 4.0, 4.0 * float(ck.rng.uniform(3, 100))
        traj = po.qed_trajectory(float(ck.rng.uniform(0.015, 0.035)), 0.0, lo, hi, nf, (n, 1), False)
        e_t = po.qed_path_ordered(q, traj, lo, hi)
        e_a = po.path_ordered(g, traj(math.log(lo))[0], traj(math.log(hi))[0], po.betas(nf, n))
        worst = max(worst, float(np.linalg.norm(e_t - e_a) / np.linalg.norm(e_a)))
    ck.hit("oracle_crosscheck_qed")
    ck.note(oracle_dev_mp=dev, oracle_dev_qed_formulations=worst)
    if dev > 1e-10 or worst > 1e-10:
        ck.inconclusive(f"oracle cross-check failed: mp {dev:.2e}, qed formulations {worst:.2e}")
        return None
    return max(10 * dev, 10 * worst, 1e-13)


def run(ck):
    oerr = _crosscheck(ck)
    if oerr is None:
        return
    nq, nqed = ck.n(64, 1500), ck.n(24, 400)
    nch = ck.n(8, 100)
    chunks = [(ck.seed, cid, math.ceil(nq / nch), math.ceil(nqed / nch), oerr) for cid in range(nch)]
    for item, st, val in jobs.pmap(_chunk, chunks, timeout=ck.n(1200, 7200)):
        if st != "ok":
            ck.case(("chunk", item[1]), nontrivial=False)
            ck.inconclusive(f"chunk {item[1]} {st}: {str(val)[:300]}")
            continue
        for r in val:
            _register(ck, r, oerr)
