"""C22: backward matching and decoupling inversions are true inverses."""

import numpy as np
import sympy as sp

from ..oracles import decoupling as dc

META = dict(
    level="exploration",
    design_ref="DESIGN.md §5 C22",
    technique="algebraic-identity monitor: build_ome is probed on random non-commuting complex matrix towers; its polynomial coefficients in a_s are recovered by exact interpolation and compared with an independently computed truncated Neumann series (and the product with the forward operator must vanish order by order); invert_matching_coeffs is compared with sympy series reversion and composed with the forward relation",
    level_text="Randomised exploration: matrix dimension 1-4, matching order 0-3, random complex towers with measured non-commutativity, random a_s (complex allowed for interpolation nodes); random decoupling coefficient tables incl. the real POLE/MSBAR/mass tables for nf 3-5.",
    level_note="Trusted base: numpy matrix products/inverse for the reference, sympy for series reversion. The identity is checked coefficient-by-coefficient, so it holds as an identity in non-commuting matrices for the sampled towers (a polynomial identity of degree <= 3 in the entries).",
    rule="case = (method, order, dim, tower id); non-trivial when order >= 1 and (for order >= 2) the relative commutator ||A0 A1 - A1 A0||/(||A0|| ||A1||) > 0.05; decoupling case non-trivial when c11 != 0 and the table is dense",
    min_nontrivial=200,
    required_hits=["forward_sum", "exact_inverse", "expanded_coefficients", "expanded_product_orders", "coupling_reversion", "mass_inverse"],
    max_inconclusive_frac=0.02,
)
META["level_text"] += " The mass decoupling is also observed as applied: msbar_masses.evolve exactly on a matching scale (ratio != 1) up and back down, for alpha_s scaled by lambda in {1,1/2,1/4,1/8}; up x down - 1 must fall at least like lambda^(n-0.3) at order n."
META["required_hits"] = list(META["required_hits"]) + ["mass_roundtrip_applied"]


def _neumann(A, n):
    """Coefficients E_0..E_n of (1 + sum_{k<n} a^(k+1) A_k)^(-1) truncated at a^n (matrix polynomial arithmetic)."""
    d = A.shape[1]
    X = [np.zeros((d, d), complex)] + [A[k] if k < n else np.zeros((d, d), complex) for k in range(3)]  # X[p] a^p, p=1..3

    def mul(P, Q):
        R = [np.zeros((d, d), complex) for _ in range(4)]
        for i in range(4):
            for j in range(4 - i):
                R[i + j] = R[i + j] + P[i] @ Q[j]
        return R

    one = [np.eye(d, dtype=complex)] + [np.zeros((d, d), complex) for _ in range(3)]
    res = [m.copy() for m in one]
    term = [m.copy() for m in one]
    for _ in range(3):
        term = [-m for m in mul(term, X)]  # ordered product: (-X)^j, X on the right
        res = [r + t for r, t in zip(res, term)]
    return [res[p] if p <= n else np.zeros((d, d), complex) for p in range(4)]


def _interp_coeffs(fn, d):
    """Matrix coefficients of a polynomial of degree <= 3 in a from 7 evaluations (least squares, checks degree)."""
    nodes = 0.9 * np.exp(2j * np.pi * np.arange(7) / 7)  # scaled roots of unity: a perfectly conditioned Vandermonde
    vals = np.array([fn(complex(z)) for z in nodes])  # (7, d, d)
    V = np.vander(nodes, 7, increasing=True)  # up to a^6: higher coefficients must vanish
    co = np.linalg.solve(V, vals.reshape(7, -1)).reshape(7, d, d)
    return co


def run(ck):
    from eko.evolution_operator.quad_ker import MatchingMethods, build_ome

    rng = ck.rng
    n_t = ck.n(170, 7000)
    worst = 0.0
    for t in range(n_t):
        d = int(rng.integers(1, 5))
        scale = float(np.exp(rng.uniform(-1.5, 2.0)))
        A = (rng.normal(size=(3, d, d)) + 1j * rng.normal(size=(3, d, d))) * scale
        if rng.integers(0, 6) == 0 and d > 1:
            A[1] = A[0] @ A[0] * 0.3 + 0.2 * A[0]  # commuting tower as a control
        A0 = A.copy()
        comm = 0.0
        if d > 1:
            comm = float(np.linalg.norm(A[0] @ A[1] - A[1] @ A[0]) / (np.linalg.norm(A[0]) * np.linalg.norm(A[1])))
        a_s = float(rng.uniform(0.005, 0.04))
        for n in range(0, 4):
            order = (n, 0)
            nontriv = n >= 1 and (n < 2 or comm > 0.05)
            base = (n, d, t)
            # ---- forward
            try:
                F = build_ome(A, order, a_s, MatchingMethods.FORWARD)
                Bx = build_ome(A, order, a_s, MatchingMethods.BACKWARD_EXACT)
            except Exception as e:
                ck.case(("raise",) + base)
                ck.violation(f"C22/build_ome/raises/order{n}", f"build_ome raised {type(e).__name__}: {e}", dict(order=order, dim=d, seed=ck.seed, tower=t))
                continue
            Fref = np.eye(d, dtype=complex) + sum(a_s ** (k + 1) * A0[k] for k in range(n))
            ck.hit("forward_sum")
            ck.case(("fwd",) + base, nontrivial=n >= 1)
            if np.abs(F - Fref).max() > 1e-14 * max(1.0, np.abs(Fref).max()):
                ck.violation(f"C22/build_ome/forward/order{n}", "forward matching operator is not 1 + sum a^k A_k", dict(order=order, dim=d, a_s=a_s, A=A0, got=F, want=Fref, seed=ck.seed))
            else:
                ck.ok()
            # ---- exact inverse
            cond = np.linalg.cond(Fref)
            ck.hit("exact_inverse")
            ck.case(("exact",) + base, nontrivial=n >= 1, sample=dict(kind="exact-inverse", order=n, dim=d, a_s=a_s, cond=cond, residual=float(np.abs(Fref @ Bx - np.eye(d)).max())) if t < 2 and n == 3 else None)
            if cond < 1e6:
                r1 = np.abs(Fref @ Bx - np.eye(d)).max()
                r2 = np.abs(Bx @ Fref - np.eye(d)).max()
                if max(r1, r2) > 1e-12 * cond:
                    ck.violation(f"C22/build_ome/exact-inverse/order{n}", f"exact backward operator is not the matrix inverse: residual {max(r1, r2):.2e}", dict(order=order, dim=d, a_s=a_s, A=A0, got=Bx, seed=ck.seed))
                else:
                    ck.ok()
            else:
                ck.inconclusive("ill-conditioned forward operator")
            # ---- expanded inverse: coefficients in a_s
            try:
                co = _interp_coeffs(lambda z: build_ome(A, order, z, MatchingMethods.BACKWARD_EXPANDED), d)
            except Exception as e:
                ck.case(("exp-raise",) + base)
                ck.violation(f"C22/build_ome/raises/expanded/order{n}", f"build_ome expanded raised {type(e).__name__}: {e}", dict(order=order, dim=d, seed=ck.seed))
                continue
            E = _neumann(A0, n)
            sz = max(1.0, max(np.abs(A0[k]).sum(axis=1).max() for k in range(3))) ** 3
            ck.hit("expanded_coefficients")
            ck.case(("exp",) + base, nontrivial=nontriv, sample=dict(kind="expanded-inverse", order=n, dim=d, rel_commutator=comm, max_coeff_dev=float(max(np.abs(co[p] - E[p]).max() for p in range(4)))) if t < 3 and n == 3 else None)
            devs = [np.abs(co[p] - (E[p] if p < 4 else 0)).max() for p in range(7)]
            worst = max(worst, max(devs) / sz)
            badp = [p for p in range(7) if devs[p] > 1e-11 * sz]
            if badp:
                p0 = badp[0]
                ck.violation(
                    f"C22/build_ome/expanded/order{n}/a{p0}",
                    f"expanded backward operator: coefficient of a_s^{p0} differs from the series inverse of the forward operator (max dev {devs[p0]:.2e}, relative commutator {comm:.2f})",
                    dict(order=order, dim=d, A=A0, got=co[p0], want=E[p0] if p0 < 4 else 0, seed=ck.seed, tower=t),
                )
            else:
                ck.ok()
            # ---- product with the forward operator vanishes order by order through a^n
            ck.hit("expanded_product_orders")
            ck.case(("prod",) + base, nontrivial=nontriv)
            Fco = [np.eye(d, dtype=complex)] + [A0[k] if k < n else np.zeros((d, d), complex) for k in range(3)]
            okp = True
            for side in ("left", "right"):
                for p in range(1, n + 1):
                    c = sum((Fco[i] @ co[p - i]) if side == "left" else (co[p - i] @ Fco[i]) for i in range(0, p + 1))
                    if np.abs(c).max() > 1e-11 * sz * max(1.0, np.abs(A0).max()):
                        okp = False
                        ck.violation(
                            f"C22/build_ome/expanded-product/order{n}/a{p}",
                            f"(forward x expanded-backward) has a non-vanishing a_s^{p} term ({side} product, size {np.abs(c).max():.2e}) at matching order {n}",
                            dict(order=order, dim=d, A=A0, side=side, term=c, seed=ck.seed, tower=t),
                        )
                        break
                if not okp:
                    break
            if okp:
                ck.ok()
            if not np.array_equal(A, A0):
                ck.violation("C22/build_ome/mutates-input", "build_ome modified its input tower", dict(order=order, dim=d, seed=ck.seed))
                A = A0.copy()

    # ------------------------------------------------------------------ decoupling inversions
    from eko import couplings as ec
    from eko import msbar_masses as mm

    tables = []
    for scheme in ("POLE", "MSBAR"):
        for nf in (3, 4, 5):
            tables.append((f"{scheme}-nf{nf}", np.array(ec.compute_matching_coeffs_up(scheme, nf), dtype=float)))
    for _ in range(ck.n(40, 1500)):
        c = np.zeros((4, 4))
        for n in range(1, 4):
            for l in range(0, n + 1):
                c[n, l] = float(rng.normal() * 10 ** rng.uniform(-0.5, 1.5))
        c[1, 0] = 0.0  # the documented domain (no constant term at first order)
        if rng.integers(0, 5) == 0:
            c[1, 1] = 0.0
        tables.append(("random", c))
    x, Ls = sp.Symbol("x"), dc.L
    for name, c in tables:
        cup = {(n, l): sp.Float(float(c[n, l]), 30) for n in range(1, 4) for l in range(0, n + 1)}
        want = dc.series_inverse(cup)
        got = np.array(ec.invert_matching_coeffs(c.copy()), dtype=float)
        ck.hit("coupling_reversion")
        dense = c[1, 1] != 0 and np.count_nonzero(c) >= 8
        ck.case(("revert", name, float(c[3, 1]), float(c[2, 1])), nontrivial=dense, sample=dict(kind="reversion", table=name, c_up=c.tolist(), code_down=got.tolist()) if name == "POLE-nf4" else None)
        sz = max(1.0, np.abs(c).max()) ** 3
        bad = None
        for n in range(0, 4):
            for l in range(0, 4):
                w = float(want.get((n, l), 0.0)) if (n >= 1 and l <= n) else 0.0
                if abs(got[n, l] - w) > 1e-11 * sz:
                    bad = bad or (n, l, got[n, l], w)
        # composition through a^4, both ways
        comp_dev = 0.0
        f = x * (1 + sum(cup[n, l] * x**n * Ls**l for (n, l) in cup))
        g = lambda y: y * (1 + sum(sp.Float(float(got[n, l]), 30) * y**n * Ls**l for n in range(1, 4) for l in range(0, n + 1)))
        for comp in (sp.expand(g(f)), sp.expand(f.subs(x, g(x)))):
            for k in range(2, 5):
                ck_ = sp.expand(comp.coeff(x, k))
                for l in range(0, 4):
                    comp_dev = max(comp_dev, abs(complex(ck_.coeff(Ls, l))))
        if bad is not None or comp_dev > 1e-10 * sz:
            which = f"d{bad[0]}{bad[1]}" if bad else "composition"
            ck.violation(
                f"C22/invert_matching_coeffs/{which}",
                f"downward coefficients are not the perturbative inverse of the upward ones ({'entry ' + str(bad) if bad else ''} composition residual {comp_dev:.2e})",
                dict(table=name, c_up=c, got=got, bad=bad, composition_residual=comp_dev, seed=ck.seed),
            )
        else:
            ck.ok()
    # mass relation: same coupling on both sides => product of the two factors is 1 through a^3
    for nf in (3, 4, 5):
        up = np.array(mm.compute_matching_coeffs_up(nf), dtype=float)
        dn = np.array(mm.compute_matching_coeffs_down(nf), dtype=float)
        fu = 1 + sum(sp.Float(float(up[n, l]), 30) * x**n * Ls**l for n in range(1, 4) for l in range(0, 4))
        fd = 1 + sum(sp.Float(float(dn[n, l]), 30) * x**n * Ls**l for n in range(1, 4) for l in range(0, 4))
        prod = sp.expand(fu * fd)
        dev = 0.0
        for k in range(1, 4):
            ck_ = sp.expand(prod.coeff(x, k))
            for l in range(0, 7):
                dev = max(dev, abs(complex(ck_.coeff(Ls, l))))
        ck.hit("mass_inverse")
        ck.case(("mass-inverse", nf), nontrivial=True)
        if dev > 1e-10 * max(1.0, np.abs(up).max()):
            ck.violation("C22/mass-decoupling/inverse", f"mass decoupling up x down != 1 through a^3 for nf={nf} (residual {dev:.2e})", dict(nf=nf, up=up, down=dn, seed=ck.seed))
        else:
            ck.ok()
    # mass decoupling as applied by msbar_masses.evolve: exactly on a matching scale, going up and coming
    # back down must compose to the identity through the implemented order, i.e. up x down - 1 = O(a_s^n)
    # at order n; measured as a slope in a scale factor lambda of alpha_s (zero-length segments: matching only)
    import warnings

    from ..oracles import coupling_path as cp

    rng = ck.rng
    lams = [1.0, 0.5, 0.25, 0.125]
    margin = np.inf
    for rep in range(ck.n(2, 20)):
        for nf in (3, 4, 5):
            for n in (2, 3, 4):
                m = np.array([1.27, 4.18, 163.0]) * np.exp(rng.uniform(-0.08, 0.08, 3))
                ratios = np.exp(rng.uniform(np.log(0.5), np.log(2.0), 3))
                ratios[nf - 3] = float(rng.choice([0.5, 0.7, 1.6, 2.0]))  # L != 0 at the wall that is crossed
                method = str(rng.choice(["exact", "expanded"]))
                wall = float(m[nf - 3] ** 2 * ratios[nf - 3])
                pts = []
                try:
                    for lam in lams:
                        with warnings.catch_warnings():
                            warnings.simplefilter("ignore")
                            sc = cp.make_couplings(0.118 * lam, 0.007496, 91.2, 5, (n, 0), method, False, (m**2).tolist(), [1.0, 1.0, 1.0], "MSBAR")
                            up = float(mm.evolve(1.0, wall, sc, ratios.tolist(), 1.0, wall, nf_ref=nf, nf_to=nf + 1))
                            dn = float(mm.evolve(1.0, wall, sc, ratios.tolist(), 1.0, wall, nf_ref=nf + 1, nf_to=nf))
                        pts.append((lam, abs(up * dn - 1.0), up, dn))
                except Exception as e:  # noqa
                    ck.case(("mass-roundtrip", nf, n, method, rep), nontrivial=False)
                    ck.inconclusive(f"msbar_masses.evolve on a wall raised {type(e).__name__}: {str(e)[:80]} (C18's business)")
                    continue
                ck.hit("mass_roundtrip_applied")
                use = [(l, d) for l, d, _, _ in pts if d > 1e-15]
                key = ("mass-roundtrip", nf, n, method, rep)
                wit = dict(nf=nf, order=[n, 0], method=method, masses=m.tolist(), ratios=ratios.tolist(), wall_mu2=wall, points=[(l, d, u, w_) for l, d, u, w_ in pts], seed=ck.seed)
                if pts[0][2] == 1.0 and pts[0][3] == 1.0 and n == 2:
                    ck.case(key, nontrivial=False)
                    ck.ok()  # the mass decoupling starts at a_s^2: nothing is applied at NLO
                    continue
                if pts[0][2] == 1.0 and pts[0][3] == 1.0:
                    ck.case(key, nontrivial=False)
                    ck.violation(f"C22/mass-roundtrip/no-matching/order{n}", "no mass decoupling applied although the matching scale differs from the mass", wit)
                    continue
                if len(use) < 3:
                    ck.case(key, nontrivial=False)
                    ck.ok()  # exact inverse to rounding: nothing to measure
                    continue
                sl = float(np.polyfit(np.log([u[0] for u in use[-3:]]), np.log([u[1] for u in use[-3:]]), 1)[0])
                ck.case(key, nontrivial=True, sample=dict(kind="mass-roundtrip", nf=nf, order=n, method=method, slope=sl, deviation_at_lambda_1=pts[0][1]))
                margin = min(margin, sl - n)
                if sl < n - 0.3:
                    ck.violation(f"C22/mass-roundtrip/up-down/order{n}", f"MSbar mass across the nf={nf}|{nf + 1} matching scale and back: up x down - 1 scales like a_s^{sl:.2f}, must be beyond the order ({n})", dict(wit, slope=sl))
                else:
                    ck.ok()
    ck.note(worst_expanded_coeff_dev_rel=worst, min_mass_roundtrip_slope_minus_order=None if not np.isfinite(margin) else float(margin))
