"""C25: anomalous dimensions obey momentum and fermion-number sum rules (all sectors);
FHMRUVV central variation = mean(up, down)."""

import itertools

import numpy as np

from ..oracles import literature as lit

META = dict(
    level="exploration",
    design_ref="DESIGN.md §5 C25",
    technique="conservation-law monitor: the ekore entry points are evaluated at N=2 and N->1 (Richardson along 3 complex directions, plus N=1 itself where finite) for every nf/order/sector/variation and the conserved combinations are compared with 0 (or -beta_k from an independent literature table)",
    level_text="Exhaustive over the finite configuration space (nf 3-6 x orders x sectors x N3LO variants and variation indices x QED orders); the sum rules themselves are the oracle, beta_k comes from vlib/oracles/literature.py; the mean rule is checked at integer and random complex N.",
    level_note="Trusted base: the conventions confirmed by probe (time-like: gamma_S^TL(2).(2nf,1)^T=0; polarized: ns+(1)=0, qg(1)=0, gg(1)=-beta_k; QED: rows g+gamma+Sigma sum to zero per column) and the literature beta table (cross-checked in C20). Tolerances are relative to the size of the entries entering the rule: LO 1e-12, NLO / O(as aem) / O(aem^2) 1e-5 (Pegasus g3 fit inside S_{-2,1}), NNLO parametrisations 2e-4, approximate N3LO momentum 1e-3 (repo tests compare FHMRUVV with the exact moments at 4e-4..8e-4 per entry), FHMRUVV quark number 1e-4, in-house N3LO singlet momentum 1e-7 and ns- number 1e-6 (imposed exactly by construction), in-house valence 1e-5 (x-space parametrised ns,s piece). The size of an entry is its maximum over nf (3-6) because the nf-terms cancel at particular nf.",
    rule="cases = (family, rule, nf, order, column/sector, variation tuple); all distinct; non-trivial = the entries entering the rule are non-zero (measured scale > 0)",
    min_nontrivial=300,
    required_hits=["momentum_us", "number_us", "momentum_tl", "number_tl", "polarized_n1", "momentum_qed", "number_qed", "fhmruvv_mean"],
    max_inconclusive_frac=0.02,
)
META["level_text"] += ' The in-house N3LO variant is run inside the QED towers; number rules are also evaluated at np.complex128(1) and inside the 1e-5 neighbourhood of N=1.'

V0 = (0,) * 7
DIRS = (1.0, 1j, (1 + 1j) / np.sqrt(2))
EPS = 2e-3

# relative tolerances by perturbative order index (0=LO ...)
TOL_QCD = {0: 1e-12, 1: 1e-5, 2: 2e-4, 3: 1e-3}
TOL_QED = {(0, 1): 1e-12, (1, 1): 1e-5, (0, 2): 1e-5}
TOL_NUMBER_FHMRUVV = 1e-4  # gamma_ns-(1)=0 is a constraint of the approximations; correct code delivers <=2e-5 of the natural size
LIM_FLOOR = 1e-7  # accuracy of the three-point N->1 extrapolation (O(EPS^3) times third derivatives)
SCALE_N = (2.0, 3.0, 4.0)


def natural_size(f, nfs, Ns=SCALE_N):
    """max over nf and a few moments of |f(N, nf)| (elementwise): the natural size of an entry.

    Individual nf-terms cancel at particular nf (e.g. gamma_gg^(2)(N=2) at nf=3), while the accuracy
    of a parametrisation is relative to the terms, so the scale is taken over all nf."""
    out = None
    for nf in nfs:
        for n in Ns:
            try:
                v = np.abs(np.asarray(f(complex(n), nf), dtype=complex))
            except NotImplementedError:
                continue
            out = v if out is None else np.maximum(out, v)
    return out


def limit_at_one(f):
    """f(N) -> estimate of lim_{N->1} f and its spread over 3 directions (removable singularities)."""
    ests = []
    for d in DIRS:
        a = [np.asarray(f(1 + e * d), dtype=complex) for e in (EPS, EPS / 2, EPS / 4)]
        ests.append((8 * a[2] - 6 * a[1] + a[0]) / 3)
    ests = np.array(ests)
    mean = ests.mean(axis=0)
    spread = np.abs(ests - mean).max(axis=0)
    return mean, spread


def at_one_exact(f):
    try:
        v = np.asarray(f(complex(1.0)), dtype=complex)
    except ZeroDivisionError:
        # a NumPy scalar divides to inf/nan instead of raising: code with a special branch for N=1 never divides
        try:
            with np.errstate(all="ignore"):
                v = np.asarray(f(np.complex128(1.0)), dtype=complex)
        except ZeroDivisionError:
            return None
    if not np.all(np.isfinite(v)):
        return None
    return v


class Rules:
    def __init__(self, ck):
        self.ck = ck

    def check(self, hit, key, case, resid, scale, tol, extra=None):
        """One sum-rule evaluation: |resid| <= tol*scale."""
        ck = self.ck
        resid = complex(resid)
        scale = float(scale)
        ck.case(case, nontrivial=scale > 0, sample=dict(rule=hit, case=case, residual=abs(resid), scale=scale, tol=tol))
        ck.hit(hit)
        if not np.isfinite(abs(resid)) or abs(resid) > tol * scale + 1e-300:
            w = dict(rule=hit, case=case, residual=resid, scale=scale, tol_rel=tol, seed=ck.seed)
            w.update(extra or {})
            ck.violation(key, f"{hit} {case}: residual {abs(resid):.4e} > {tol:.0e} x scale {scale:.4e}", w)
        else:
            ck.ok()


def number_rule(R, hit, keybase, case, f, orders, tols, fscale, skip=()):
    """f(N) -> array over orders of one NS entry; must vanish at N=1."""
    lim, spread = limit_at_one(f)
    exact = at_one_exact(f)
    sc = np.abs(np.asarray(fscale, dtype=complex))
    for k in orders:
        if k in skip:
            continue
        tol = tols[k]
        # the extrapolation itself is exact to O(EPS^3) ~ 1e-8 only
        R.check(hit, f"{keybase}/order{k}", case + (("order", k), "limit"), lim[k], sc[k], max(tol, LIM_FLOOR), dict(limit=lim[k], spread=spread[k]))
        if spread[k] > max(tol, LIM_FLOOR) * sc[k]:
            R.ck.inconclusive(f"N->1 extrapolation of {case} order {k} direction-dependent ({spread[k]:.2e})")
        if exact is not None:
            R.check(hit, f"{keybase}/order{k}/N=1", case + (("order", k), "N=1"), exact[k], sc[k], tol, dict(value=exact[k]))
    # inside the 1e-5 neighbourhood of N=1, where implementations switch to hand-written limits; the value there is
    # the limit plus a first-order term, bounded with a finite-difference slope taken outside the neighbourhood
    slope = np.max([np.abs(np.asarray(f(1 + (EPS / 4) * d), dtype=complex) - lim) / (EPS / 4) for d in DIRS], axis=0)
    for dn in (1e-6, 1e-6j, -3e-6 + 2e-6j):
        try:
            with np.errstate(all="ignore"):
                v = np.asarray(f(np.complex128(1.0 + dn)), dtype=complex)
        except ZeroDivisionError:
            continue
        for k in orders:
            if k in skip or not np.isfinite(v[k]):
                continue
            allowed = max(tols[k], 1e-5) + 3.0 * abs(dn) * float(slope[k]) / max(float(sc[k]), 1e-300)
            R.check(hit, f"{keybase}/order{k}/near-N=1", case + (("order", k), "near", dn), v[k], sc[k], allowed, dict(value=v[k], N=1.0 + dn, slope_estimate=float(slope[k])))


def run(ck):
    import ekore.anomalous_dimensions.polarized.space_like as ps
    import ekore.anomalous_dimensions.unpolarized.space_like as us
    import ekore.anomalous_dimensions.unpolarized.time_like as ut
    from ekore.anomalous_dimensions.unpolarized.space_like import as4
    from ekore.anomalous_dimensions.unpolarized.space_like.as4 import fhmruvv as fh
    from ekore.harmonics import cache as c

    bad = lit.selfcheck()
    if bad:
        ck.inconclusive(f"literature beta transcriptions disagree: {bad[:2]}")
        return
    R = Rules(ck)
    two = complex(2.0)
    ENTRY = {(0, 0): "qq", (0, 1): "qg", (1, 0): "gq", (1, 1): "gg"}
    NFS = (3, 4, 5, 6)

    # ------------------------------------------------------------ unpolarized space-like, QCD
    sc_s3 = natural_size(lambda n, nf: us.gamma_singlet((3, 0), n, nf, V0, True), NFS, Ns=(2.0,))
    sc_s4 = {flag: natural_size(lambda n, nf, flag=flag: us.gamma_singlet((4, 0), n, nf, V0, flag)[3], NFS, Ns=(2.0,)) for flag in (True, False)}
    sc_ns3 = {mode: natural_size(lambda n, nf, mode=mode: us.gamma_ns((3, 0), mode, n, nf, V0, True), NFS) for mode in (10201, 10200)}
    sc_ns4 = {(mode, flag): natural_size(lambda n, nf, mode=mode, flag=flag: us.gamma_ns((4, 0), mode, n, nf, V0, flag)[3], NFS) for mode in (10201, 10200) for flag in (True, False)}

    def sc_single(k, flag):
        return sc_s3[k] if k < 3 else sc_s4[flag]

    for nf in NFS:
        # FHMRUVV is documented for nf=3,4,5 only: must refuse, not return numbers
        if nf == 6:
            try:
                us.gamma_singlet((4, 0), two, nf, V0, True)
                ck.case(("us", "fhmruvv-nf6"), sample=None)
                ck.violation("C25/us/fhmruvv/nf6-not-refused", "FHMRUVV N3LO at nf=6 returned numbers although only nf=3,4,5 exist", dict(nf=6))
            except NotImplementedError:
                ck.case(("us", "fhmruvv-nf6"), nontrivial=False)
                ck.ok()
        for vname, flag in (("fhmruvv", True), ("inhouse", False)):
            norders = 3 if (flag and nf == 6) else 4
            g = us.gamma_singlet((norders, 0), two, nf, V0, flag)
            for k in range(norders):
                if k < 3 and not flag:
                    continue  # orders 1-3 do not depend on the N3LO variant: count once
                for col in (0, 1):
                    tol = TOL_QCD[k] if (k < 3 or flag) else 1e-7
                    R.check(
                        "momentum_us",
                        f"C25/us/momentum/order{k}/{vname if k == 3 else 'exact'}/col-{ENTRY[(0, col)]}",
                        ("us", "momentum", nf, k, vname, col, V0),
                        g[k][:, col].sum(),
                        sc_single(k, flag)[:, col].sum(),
                        tol,
                        dict(nf=nf, order=k + 1, column=g[k][:, col], variant=vname),
                    )
            # number conservation for minus and valence
            for mode, mname in ((10201, "minus"), (10200, "valence")):
                f = lambda n, mode=mode, no=norders, flag=flag: us.gamma_ns((no, 0), mode, n, nf, V0, flag)
                fscale = list(sc_ns3[mode]) + [sc_ns4[(mode, flag)]]
                tols = dict(TOL_QCD)
                tols[3] = TOL_NUMBER_FHMRUVV
                if not flag:
                    # minus: imposed by construction; valence adds the x-space parametrised ns,s piece
                    tols[3] = 1e-6 if mode == 10201 else 1e-5
                orders = [k for k in range(norders) if k == 3 or flag]
                number_rule(R, "number_us", f"C25/us/number/{mname}/{vname}", ("us", "number", nf, mname, vname), f, orders, tols, fscale)
        # ---- N3LO variations
        if nf <= 5:
            # FHMRUVV: all 3^4 singlet combinations; columns couple (qq,gq) and (qg,gg)
            for var in itertools.product((0, 1, 2), repeat=4):
                v7 = var + (0, 0, 0)
                g = us.gamma_singlet((4, 0), two, nf, v7, True)[3]
                for col in (0, 1):
                    R.check(
                        "momentum_us",
                        f"C25/us/momentum/order3/fhmruvv/col-{ENTRY[(0, col)]}",
                        ("us", "momentum", nf, 3, "fhmruvv", col, var),
                        g[:, col].sum(),
                        sc_s4[True][:, col].sum(),
                        TOL_QCD[3],
                        dict(nf=nf, variation=var, column=g[:, col]),
                    )
            for var in (1, 2):
                for mode, mname, slot in ((10201, "minus", 5), (10200, "valence", 6)):
                    v7 = [0] * 7
                    v7[slot] = var
                    v7 = tuple(v7)
                    f = lambda n, mode=mode, v7=v7: us.gamma_ns((4, 0), mode, n, nf, v7, True)
                    fscale = list(sc_ns3[mode]) + [sc_ns4[(mode, True)]]
                    number_rule(R, "number_us", f"C25/us/number/{mname}/fhmruvv", ("us", "number", nf, mname, "fhmruvv", var), f, [3], {3: TOL_NUMBER_FHMRUVV}, fscale)
        # in-house: every documented variation index; a column couples two of them
        for vqq, vgq in itertools.product(range(0, 7), range(0, 16)):
            g = us.gamma_singlet((4, 0), two, nf, (0, vgq, 0, vqq, 0, 0, 0), False)[3]
            R.check("momentum_us", "C25/us/momentum/order3/inhouse/col-qq", ("us", "momentum", nf, 3, "inhouse", 0, (vqq, vgq)), g[:, 0].sum(), sc_s4[False][:, 0].sum(), 1e-7, dict(nf=nf, qq_variation=vqq, gq_variation=vgq, column=g[:, 0]))
        for vgg, vqg in itertools.product(range(0, 20), range(0, 16)):
            g = us.gamma_singlet((4, 0), two, nf, (vgg, 0, vqg, 0, 0, 0, 0), False)[3]
            R.check("momentum_us", "C25/us/momentum/order3/inhouse/col-qg", ("us", "momentum", nf, 3, "inhouse", 1, (vgg, vqg)), g[:, 1].sum(), sc_s4[False][:, 1].sum(), 1e-7, dict(nf=nf, gg_variation=vgg, qg_variation=vqg, column=g[:, 1]))

    # ------------------------------------------------------------ time-like (fragmentation convention)
    sc_t = natural_size(lambda n, nf: ut.gamma_singlet((3, 0), n, nf), NFS, Ns=(2.0,))
    sc_tns = {mode: natural_size(lambda n, nf, mode=mode: ut.gamma_ns((3, 0), mode, n, nf), NFS) for mode in (10201, 10200)}
    for nf in NFS:
        g = ut.gamma_singlet((3, 0), two, nf)
        vec = np.array([2.0 * nf, 1.0])
        for k in range(3):
            for row in (0, 1):
                terms = g[k][row] * vec
                R.check(
                    "momentum_tl",
                    f"C25/ut/momentum/order{k}/row-{ENTRY[(row, 0)][0]}",
                    ("ut", "momentum", nf, k, row),
                    terms.sum(),
                    (sc_t[k][row] * vec).sum(),
                    TOL_QCD[k],
                    dict(nf=nf, order=k + 1, row=g[k][row], weights=vec),
                )
        for mode, mname in ((10201, "minus"), (10200, "valence")):
            f = lambda n, mode=mode: ut.gamma_ns((3, 0), mode, n, nf)
            number_rule(R, "number_tl", f"C25/ut/number/{mname}", ("ut", "number", nf, mname), f, range(3), TOL_QCD, sc_tns[mode])

    # ------------------------------------------------------------ polarized
    sc_p = natural_size(lambda n, nf: ps.gamma_singlet((3, 0), n, nf), NFS)
    sc_pns = natural_size(lambda n, nf: ps.gamma_ns((3, 0), 10101, n, nf), NFS)
    for nf in NFS:
        f = lambda n: ps.gamma_ns((3, 0), 10101, n, nf)
        number_rule(R, "polarized_n1", "C25/ps/axial/ns-plus", ("ps", "ns+", nf), f, range(3), TOL_QCD, sc_pns)
        lim, spread = limit_at_one(lambda n: ps.gamma_singlet((3, 0), n, nf))
        ex = at_one_exact(lambda n: ps.gamma_singlet((3, 0), n, nf))
        for label, val in (("limit", lim), ("N=1", ex)):
            if val is None:
                continue
            for k in range(3):
                tol = max(TOL_QCD[k], LIM_FLOOR) if label == "limit" else TOL_QCD[k]
                beta = float(lit.beta_qcd(k, nf))
                R.check("polarized_n1", f"C25/ps/qg-first-moment/order{k}", ("ps", "qg(1)", nf, k, label), val[k][0, 1], max(sc_p[k][0, 1], np.abs(val[k]).max()), tol, dict(nf=nf, order=k + 1, gamma_S_at_1=val[k]))
                R.check(
                    "polarized_n1",
                    f"C25/ps/gg-first-moment/order{k}",
                    ("ps", "gg(1)+beta", nf, k, label),
                    val[k][1, 1] + beta,
                    max(sc_p[k][1, 1], np.abs(val[k]).max()) + abs(beta),
                    tol,
                    dict(nf=nf, order=k + 1, gamma_gg_at_1=val[k][1, 1], minus_beta=-beta),
                )

    # ------------------------------------------------------------ QED-extended
    sc_q = natural_size(lambda n, nf: us.gamma_singlet_qed((3, 2), n, nf, V0, True), NFS, Ns=(2.0,))
    sc_q4 = natural_size(lambda n, nf: us.gamma_singlet_qed((4, 2), n, nf, V0, True)[4, 0], (3, 4, 5), Ns=(2.0,))
    sc_v = natural_size(lambda n, nf: us.gamma_valence_qed((3, 2), n, nf, V0, True), NFS)
    sc_v4 = natural_size(lambda n, nf: us.gamma_valence_qed((4, 2), n, nf, V0, True)[4, 0], (3, 4, 5))
    sc_n = {mode: natural_size(lambda n, nf, mode=mode: us.gamma_ns_qed((3, 2), mode, n, nf, V0, True), NFS) for mode in (10202, 10203)}
    sc_n4 = {mode: natural_size(lambda n, nf, mode=mode: us.gamma_ns_qed((4, 2), mode, n, nf, V0, True)[4, 0], (3, 4, 5)) for mode in (10202, 10203)}
    for nf in NFS:
        order = (4, 2) if nf <= 5 else (3, 2)
        g = us.gamma_singlet_qed(order, two, nf, V0, True)
        for i in range(order[0] + 1):
            for j in range(order[1] + 1):
                if (i, j) == (0, 0):
                    continue
                blk = g[i, j]
                scb = (sc_q4 if j == 0 else np.zeros((4, 4))) if i == 4 else sc_q[i, j]
                if not np.any(scb):
                    # orders that are not implemented stay zero: nothing to conserve (trivial case)
                    ck.case(("qed", "momentum", nf, (i, j), "empty"), nontrivial=False)
                    ck.ok()
                    continue
                tol = TOL_QCD[i - 1] if j == 0 else TOL_QED[(i, j)]
                for col in range(4):
                    terms = blk[:3, col]  # g + photon + Sigma carry the momentum; Sigma_Delta does not
                    R.check(
                        "momentum_qed",
                        f"C25/qed/momentum/as{i}aem{j}/col{col}",
                        ("qed", "momentum", nf, (i, j), col),
                        terms.sum(),
                        scb[:3, col].sum(),
                        tol,
                        dict(nf=nf, order=(i, j), column=blk[:, col]),
                    )
        # number: valence matrices and the minus-type ns entries
        fv = lambda n: us.gamma_valence_qed(order, n, nf, V0, True)
        lim, spread = limit_at_one(fv)
        ex = at_one_exact(fv)
        for label, val in (("limit", lim), ("N=1", ex)):
            if val is None:
                continue
            for i in range(order[0] + 1):
                for j in range(order[1] + 1):
                    scb = (sc_v4 if j == 0 else np.zeros((2, 2))) if i == 4 else sc_v[i, j]
                    if (i, j) == (0, 0) or not np.any(scb):
                        continue
                    tol = TOL_QCD[i - 1] if j == 0 else TOL_QED[(i, j)]
                    if label == "limit":
                        tol = max(tol, LIM_FLOOR)
                    for a in range(2):
                        for b in range(2):
                            R.check(
                                "number_qed",
                                f"C25/qed/number/valence/as{i}aem{j}",
                                ("qed", "valence", nf, (i, j), a, b, label),
                                val[i, j][a, b],
                                scb.max(),
                                tol,
                                dict(nf=nf, order=(i, j), entry=(a, b), value=val[i, j][a, b]),
                            )
        for mode in (10202, 10203):
            fn = lambda n, mode=mode: us.gamma_ns_qed(order, mode, n, nf, V0, True)
            lim, spread = limit_at_one(fn)
            for i in range(order[0] + 1):
                for j in range(order[1] + 1):
                    sc = (sc_n4[mode] if j == 0 else 0.0) if i == 4 else sc_n[mode][i, j]
                    if (i, j) == (0, 0) or sc == 0:
                        continue
                    tol = max(TOL_QCD[i - 1] if j == 0 else TOL_QED[(i, j)], LIM_FLOOR)
                    R.check("number_qed", f"C25/qed/number/ns{mode}/as{i}aem{j}", ("qed", "ns", nf, mode, (i, j)), lim[i, j], sc, tol, dict(nf=nf, mode=mode, order=(i, j), limit=lim[i, j]))

    # ---- in-house N3LO variant inside the QED towers (only the (4,0) entries depend on the variant)
    sc_q4h = natural_size(lambda n, nf: us.gamma_singlet_qed((4, 2), n, nf, V0, False)[4, 0], NFS, Ns=(2.0,))
    sc_v4h = natural_size(lambda n, nf: us.gamma_valence_qed((4, 2), n, nf, V0, False)[4, 0], NFS)
    sc_n4h = {mode: natural_size(lambda n, nf, mode=mode: us.gamma_ns_qed((4, 2), mode, n, nf, V0, False)[4, 0], NFS) for mode in (10202, 10203)}
    for nf in NFS:
        blk = us.gamma_singlet_qed((4, 2), two, nf, V0, False)[4, 0]
        for col in range(4):
            if not np.any(sc_q4h[:3, col]):
                ck.case(("qed", "momentum", nf, (4, 0), col, "inhouse", "empty"), nontrivial=False)
                ck.ok()
                continue
            R.check("momentum_qed", f"C25/qed/momentum/as4aem0/inhouse/col{col}", ("qed", "momentum", nf, (4, 0), col, "inhouse"), blk[:3, col].sum(), sc_q4h[:3, col].sum(), 1e-7, dict(nf=nf, order=(4, 0), column=blk[:, col], variant="inhouse"))
        fv = lambda n: us.gamma_valence_qed((4, 2), n, nf, V0, False)[4, 0]
        lim, spread = limit_at_one(fv)
        for a in range(2):
            for b in range(2):
                R.check("number_qed", "C25/qed/number/valence/as4aem0/inhouse", ("qed", "valence", nf, (4, 0), a, b, "limit", "inhouse"), lim[a, b], sc_v4h.max(), max(1e-5, LIM_FLOOR), dict(nf=nf, order=(4, 0), entry=(a, b), value=lim[a, b], variant="inhouse"))
        for mode in (10202, 10203):
            fn = lambda n, mode=mode: us.gamma_ns_qed((4, 2), mode, n, nf, V0, False)[4, 0]
            lim, spread = limit_at_one(fn)
            R.check("number_qed", f"C25/qed/number/ns{mode}/as4aem0/inhouse", ("qed", "ns", nf, mode, (4, 0), "inhouse"), lim, sc_n4h[mode], max(1e-6, LIM_FLOOR), dict(nf=nf, mode=mode, order=(4, 0), limit=lim, variant="inhouse"))

    # ------------------------------------------------------------ central = mean(up, down)
    rng = ck.rng
    pts = [complex(n) for n in (2, 3, 4, 6, 8, 12)] + [complex(rng.uniform(0.6, 30), rng.uniform(-40, 40)) for _ in range(ck.n(20, 300))]
    fns = dict(gg=fh.gamma_gg, gq=fh.gamma_gq, qg=fh.gamma_qg, ps=fh.gamma_ps, nsp=fh.gamma_nsp, nsm=fh.gamma_nsm, nsv=fh.gamma_nsv)
    for name, f in fns.items():
        for nf in (3, 4, 5):
            for n in pts:
                v = [complex(f(n, nf, c.reset(), k)) for k in (0, 1, 2)]
                sc = max(abs(x) for x in v)
                ck.case(("mean", name, nf, n), nontrivial=v[1] != v[2], sample=dict(fn=name, nf=nf, N=n, central=v[0], down=v[1], up=v[2]))
                ck.hit("fhmruvv_mean")
                if abs(v[0] - 0.5 * (v[1] + v[2])) > 1e-10 * sc:
                    ck.violation(f"C25/fhmruvv/mean/{name}", f"FHMRUVV {name}: central {v[0]} != mean of variations {0.5 * (v[1] + v[2])} at N={n}, nf={nf}", dict(fn=name, nf=nf, N=n, central=v[0], var1=v[1], var2=v[2], seed=ck.seed))
                else:
                    ck.ok()
    # plumbing of the variation tuple through the entry points: slot s moves exactly its own entry
    slots = {0: ("S", (1, 1)), 1: ("S", (1, 0)), 2: ("S", (0, 1)), 3: ("S", (0, 0)), 4: (10101, None), 5: (10201, None), 6: (10200, None)}
    for nf in (3, 4, 5):
        for n in pts[:: ck.n(4, 1)]:
            for s, (kind, ent) in slots.items():
                vals = []
                for var in (0, 1, 2):
                    v7 = [0] * 7
                    v7[s] = var
                    if kind == "S":
                        vals.append(us.gamma_singlet((4, 0), n, nf, tuple(v7), True)[3])
                    else:
                        vals.append(np.array(us.gamma_ns((4, 0), kind, n, nf, tuple(v7), True)[3]))
                vals = np.array(vals)
                ck.case(("slot", nf, n, s), sample=None)
                ck.hit("fhmruvv_mean")
                own = vals[(slice(None),) + ent] if kind == "S" else vals
                sc = np.abs(own).max()
                okk = abs(own[0] - 0.5 * (own[1] + own[2])) <= 1e-10 * sc and own[1] != own[2]
                if kind == "S":
                    for e2 in ENTRY:
                        if e2 != ent and not (vals[1][e2] == vals[0][e2] == vals[2][e2]):
                            okk = False
                if not okk:
                    ck.violation(f"C25/fhmruvv/variation-slot{s}", f"n3lo_ad_variation slot {s} does not drive exactly its own entry with central=mean at N={n}, nf={nf}", dict(slot=s, nf=nf, N=n, values=vals, seed=ck.seed))
                else:
                    ck.ok()
    # documented for the in-house set as well: "the best result is the average of all variations"
    for name, f, nv in (("gg", as4.gamma_gg, 19), ("gq", as4.gamma_gq, 15), ("qg", as4.gamma_qg, 15), ("ps", as4.gamma_ps, 6)):
        for nf in (3, 4, 5, 6):
            for n in pts[:: ck.n(3, 1)]:
                v = np.array([complex(f(n, nf, c.reset(), k)) for k in range(nv + 1)])
                sc = np.abs(v).max()
                ck.case(("mean-inhouse", name, nf, n), nontrivial=np.ptp(np.abs(v[1:])) > 0, sample=None)
                ck.hit("inhouse_mean")
                if abs(v[0] - v[1:].mean()) > 1e-9 * sc:
                    dev = np.abs(v[1:] - v[0])
                    ck.violation(f"C25/inhouse/mean/{name}", f"in-house N3LO {name}: central != average of its {nv} variations at N={n}, nf={nf}", dict(fn=name, nf=nf, N=n, central=v[0], variations=v[1:], seed=ck.seed))
                else:
                    ck.ok()
    ck.note(exhaustive_configurations=True)
