"""C17: coupling evaluations are independent of the evaluation history."""

import warnings

import numpy as np

from ..jobs import pmap
from ..oracles import coupling_path as cp

META = dict(
    level="exploration",
    design_ref="DESIGN.md §5 C17",
    technique="differential monitor: each query of a random history on one Couplings object is compared bitwise with a freshly constructed object, while the harness mutates every returned array in place; a wrapper on Couplings.compute records cache states and checks np.shares_memory between cache values, arguments and returned arrays",
    level_text="Randomised exploration of query histories (1-30 queries; scales on walls, the reference, m_tau^2, 1-ulp neighbours, repeats, downward and short segments; nf 3-6/None; orders up to (4,2); both methods; POLE/MSBAR; running/fixed alpha_em).",
    level_note="Trusted base: a fresh object is the reference (same code, empty cache), so this decides history independence and aliasing only, not correctness of the values (C15/C16).",
    rule="case = one query inside a history, keyed by (object class, position, scale, nf); non-trivial when at least one earlier query of the same object was made and its returned array was mutated by the caller; a history is interesting when it produced at least one cache hit (counted by the compute wrapper)",
    min_nontrivial=400,
    required_hits=["query_vs_fresh", "compute_wrapped", "cache_hit_observed", "returned_array_mutated", "alias_checks"],
    max_inconclusive_frac=0.02,
)

MTAU2 = 1.777**2


def _gen_history(rng):
    m = np.array([1.51, 4.92, 172.5]) * np.exp(rng.uniform(-0.1, 0.1, 3))
    masses2 = (m**2).tolist()
    ratios = np.exp(rng.uniform(np.log(0.5), np.log(2.0), 3)).tolist()
    mu_ref = float(np.exp(rng.uniform(np.log(2.0), np.log(300.0))))
    on_wall = None
    if rng.integers(0, 8) == 0:
        # the reference sits exactly on a matching scale (unit ratio): a zero-length first
        # segment followed by segments that start at the reference scale with another nf
        on_wall = int(rng.integers(0, 3))
        mu_ref = float(np.sqrt(masses2[on_wall]))
        masses2[on_wall] = mu_ref**2
        ratios[on_wall] = 1.0
    walls = [a * b for a, b in zip(masses2, ratios)]
    nfd = cp.nf_default(mu_ref**2, walls)
    p = dict(
        order=(int(rng.integers(1, 5)), int(rng.integers(0, 3))),
        em_running=bool(rng.integers(0, 2)),
        method=str(rng.choice(["exact", "expanded"])),
        scheme=str(rng.choice(["POLE", "MSBAR"])),
        masses2=masses2,
        ratios=ratios,
        mu_ref=mu_ref,
        nf_ref=int(np.clip(nfd + rng.choice([0, 0, -1, 1]), 3, 6)) if on_wall is None else int(on_wall + 3 + rng.integers(0, 2)),
        alphas=float(rng.uniform(0.09, 0.2) if mu_ref > 10 else rng.uniform(0.15, 0.3)),
        alphaem=float(rng.uniform(0.005, 0.01)),
    )
    special = walls + [mu_ref**2, MTAU2, np.nextafter(mu_ref**2, np.inf), np.nextafter(walls[1], 0), mu_ref**2 * (1 + 3e-6), walls[0] * (1 - 5e-6)]
    n = int(rng.integers(1, 31))
    hist = []
    for _ in range(n):
        r = rng.integers(0, 10)
        if hist and r < 2:
            q = hist[int(rng.integers(0, len(hist)))]  # exact repeat
            hist.append(dict(q))
            continue
        if r < 5:
            mu2 = float(special[int(rng.integers(0, len(special)))])
        else:
            mu2 = float(np.exp(rng.uniform(np.log(2.2**2), np.log(1000.0**2))))
        nf = [None, 3, 4, 5, 6][int(rng.integers(0, 5))]
        if hist and rng.integers(0, 5) == 0:
            mu2 = hist[-1]["mu2"]  # same scale as the previous query, (possibly) another nf
        f32 = False
        if rng.integers(0, 12) == 0:
            # scale handed over as a NumPy float32 scalar (value exactly representable); a later query may
            # repeat the same value as a plain float
            mu2, f32 = float(np.float32(mu2)), True
        hist.append(dict(mu2=mu2, nf=nf, f32=f32, mutate=str(rng.choice(["add", "nan", "zero", "none"], p=[0.35, 0.35, 0.2, 0.1])), api=str(rng.choice(["a", "a", "a_s", "a_em"]))))
    p["history"] = hist
    return p


def _mk(p):
    return cp.make_couplings(p["alphas"], p["alphaem"], p["mu_ref"], p["nf_ref"], tuple(p["order"]), p["method"], p["em_running"], p["masses2"], p["ratios"], p["scheme"])


def _bits(x):
    return np.asarray(x, dtype=float).tobytes().hex()


def _eval(p):
    """Run one history on one object with the compute wrapper installed."""
    warnings.filterwarnings("ignore")
    np.seterr(all="ignore")
    out = dict(p=p, rows=[], alias=[], cache_states=[], hits=0, computes=0, error=None, aref_changed=False)
    try:
        sc = _mk(p)
    except Exception as e:
        out["error"] = f"constructor {type(e).__name__}: {e}"
        return out
    aref0 = sc.a_ref.copy()
    returned = []  # every array ever handed to the caller
    orig = sc.compute

    def wrapped(a_ref, nf, nl, scale_from, scale_to):
        n_before = len(sc.cache)
        arg_copy = np.array(a_ref, dtype=float).copy()
        res = orig(a_ref, nf, nl, scale_from, scale_to)
        out["computes"] += 1
        if len(sc.cache) == n_before:
            out["hits"] += 1
        # the argument must not be modified by compute
        if _bits(arg_copy) != _bits(a_ref):
            out["alias"].append(dict(what="compute modified its a_ref argument", nf=nf, frm=scale_from, to=float(scale_to)))
        for k, v in sc.cache.items():
            if isinstance(res, np.ndarray) and np.shares_memory(v, res):
                out["alias"].append(dict(what="compute returned an array sharing memory with a cache value", key=[float(x) if x is not None else None for x in k]))
            if isinstance(a_ref, np.ndarray) and np.shares_memory(v, a_ref):
                out["alias"].append(dict(what="cache value shares memory with the a_ref argument", key=[float(x) if x is not None else None for x in k]))
        if isinstance(res, np.ndarray) and np.shares_memory(res, sc.a_ref):
            out["alias"].append(dict(what="compute returned an array sharing memory with a_ref of the object"))
        return res

    sc.compute = wrapped
    seen_states = set()
    for i, q in enumerate(p["history"]):
        row = dict(i=i, mu2=q["mu2"], nf=q["nf"], api=q["api"], mutate=q["mutate"])
        try:
            if q["api"] == "a":
                r = sc.a(np.float32(q["mu2"]) if q.get("f32") else q["mu2"], q["nf"])
            elif q["api"] == "a_s":
                r = sc.a_s(np.float32(q["mu2"]) if q.get("f32") else q["mu2"], q["nf"])
            else:
                r = sc.a_em(np.float32(q["mu2"]) if q.get("f32") else q["mu2"], q["nf"])
            row["got"] = _bits(r)
            row["val"] = np.asarray(r, dtype=float).ravel().tolist()
        except Exception as e:
            row["raised"] = f"{type(e).__name__}: {e}"
            r = None
        # fresh object, same query
        try:
            fr = _mk(p)
            if q["api"] == "a":
                f = fr.a(np.float32(q["mu2"]) if q.get("f32") else q["mu2"], q["nf"])
            elif q["api"] == "a_s":
                f = fr.a_s(np.float32(q["mu2"]) if q.get("f32") else q["mu2"], q["nf"])
            else:
                f = fr.a_em(np.float32(q["mu2"]) if q.get("f32") else q["mu2"], q["nf"])
            row["fresh"] = _bits(f)
            row["fresh_val"] = np.asarray(f, dtype=float).ravel().tolist()
        except Exception as e:
            row["fresh_raised"] = f"{type(e).__name__}: {e}"
        # aliasing of what the caller got
        if isinstance(r, np.ndarray):
            if np.shares_memory(r, sc.a_ref):
                out["alias"].append(dict(what="returned array shares memory with Couplings.a_ref", i=i))
            for v in sc.cache.values():
                if np.shares_memory(r, v):
                    out["alias"].append(dict(what="returned array shares memory with a cache value", i=i))
            for j, old in enumerate(returned):
                if np.shares_memory(r, old):
                    out["alias"].append(dict(what="returned array shares memory with an earlier returned array", i=i, earlier=j))
            returned.append(r)
            # hostile caller
            if q["mutate"] == "add":
                r += 1.0
            elif q["mutate"] == "nan":
                r[:] = np.nan
            elif q["mutate"] == "zero":
                r *= 0.0
            row["mutated"] = q["mutate"] != "none"
        seen_states.add(frozenset(sc.cache.keys()))
        out["rows"].append(row)
    out["aref_changed"] = _bits(aref0) != _bits(sc.a_ref)
    out["n_cache_states"] = len(seen_states)
    out["cache_size"] = len(sc.cache)
    # the cache must still hold finite values (a mutated return must not have leaked into it)
    out["cache_nonfinite"] = int(sum(0 if np.all(np.isfinite(v)) else 1 for v in sc.cache.values()))
    # ...unless the genuine result itself is non-finite: compare with a replay on a fresh object
    return out


def run(ck):
    rng = ck.rng
    n = ck.n(300, 4000)
    hists = [_gen_history(rng) for _ in range(n)]
    tot_states = 0
    tot_alias_checks = 0
    for p, st, out in pmap(_eval, hists, timeout=ck.n(900, 7200)):
        cls = (tuple(p["order"]), p["em_running"], p["method"], p["scheme"], p["nf_ref"], round(p["mu_ref"], 3))
        okey = f"{p['method']}/order{p['order'][0]}{p['order'][1]}/em{int(p['em_running'])}"
        if st != "ok":
            ck.case(("hist",) + cls, nontrivial=False)
            ck.inconclusive(f"worker {st}: {str(out)[:100]}")
            continue
        if out["error"]:
            ck.case(("hist",) + cls, nontrivial=False)
            ck.inconclusive(f"could not build the object: {out['error']}")
            continue
        ck.hit("compute_wrapped", out["computes"])
        ck.hit("cache_hit_observed", out["hits"])
        tot_states += out["n_cache_states"]
        mutated_before = False
        for row in out["rows"]:
            key = ("q",) + cls + (row["i"], row["mu2"], row["nf"], row["api"])
            ck.hit("query_vs_fresh")
            ck.case(key, nontrivial=mutated_before and row["i"] > 0, sample=dict(order=p["order"], method=p["method"], i=row["i"], mu2=row["mu2"], nf=row["nf"], value=row.get("val"), fresh=row.get("fresh_val")) if row["i"] == 7 else None)
            if "raised" in row or "fresh_raised" in row:
                if row.get("raised") != row.get("fresh_raised"):
                    ck.violation(
                        f"C17/raises-differ/{okey}",
                        f"query {row['i']} raised {row.get('raised')} on the used object but {row.get('fresh_raised')} on a fresh one",
                        dict(params=p, row=row, seed=ck.seed),
                    )
                else:
                    ck.ok()  # same refusal with and without history
            elif row["got"] != row["fresh"]:
                # NaN payloads compare by bits too: both objects run identical arithmetic
                ck.violation(
                    f"C17/history-dependent/{okey}/{row['api']}",
                    f"query {row['i']} (mu2={row['mu2']!r}, nf={row['nf']}) returned {row['val']} after {row['i']} earlier queries, a fresh object returns {row['fresh_val']}",
                    dict(params=p, row=row, seed=ck.seed),
                )
            else:
                ck.ok()
            if row.get("mutated"):
                ck.hit("returned_array_mutated")
                mutated_before = True
        tot_alias_checks += out["computes"] + len(out["rows"])
        ck.hit("alias_checks", out["computes"] + len(out["rows"]))
        for al in out["alias"][:3]:
            site = "compute" if "compute" in al["what"] or "cache value shares memory with the a_ref" in al["what"] else "a"
            ck.violation(f"C17/aliasing/{site}/{p['method']}", al["what"], dict(params=p, detail=al, seed=ck.seed))
        if out["aref_changed"]:
            ck.violation(f"C17/a_ref-changed/{p['method']}", "Couplings.a_ref changed during the history", dict(params=p, seed=ck.seed))
    ck.note(distinct_cache_states_seen=tot_states, alias_checks=tot_alias_checks)
