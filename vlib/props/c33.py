"""C33: threshold flavour rotations are mutually inverse and flavour-consistent."""

from fractions import Fraction as F

import sympy as sp

from ..oracles import flavor as fl

META = dict(
    level="exploration",
    design_ref="DESIGN.md §5 C33",
    technique="exact rational reference: every entry of rotate_matching / rotate_matching_inverse / qed_rotation_parameters is converted to the rational it represents and checked against the flavour content of the distributions (sum_Y m[X.Y] content(Y) == content(X)), against the rotation solved independently from the two bases, and inverse o forward == identity",
    level_text="Finite space (nf 4,5,6 x QCD/QED x every distribution of the new basis) enumerated completely in exact arithmetic; held = held on these executions.",
    level_note="Trusted base: vlib/oracles/flavor.py (contents from FlavorSpace.rst; the rotation is *solved* from the contents and cross-checked in-run against the closed formulas of Matching.rst).",
    rule="case = (function, nf, qed, new-basis distribution) or (inverse law, nf, qed) or (parameter, nf); all distinct; non-trivial = the distribution's row has more than the trivial diagonal entry, or a composition law over the full 14x14 rotation",
    min_nontrivial=40,
    required_hits=["flavour_content", "entries_vs_solved", "inverse_composition", "qed_parameters"],
    max_inconclusive_frac=0.0,
)


def _matrix(m, new, old):
    """Dense exact matrix (rows: new labels, columns: old labels) of a dot-notation dict."""
    M = sp.zeros(len(new), len(old))
    unknown, irr = [], []
    for k, v in m.items():
        try:
            X, Y = k.split(".")
        except ValueError:
            unknown.append(k)
            continue
        if X not in new or Y not in old:
            unknown.append(k)
            continue
        fr = fl.rat(v)
        if fr is None:
            irr.append((k, repr(v)))
            continue
        M[new.index(X), old.index(Y)] = fl.to_sym(fr)
    return M, unknown, irr


def run(ck):
    from eko.evolution_operator import flavors

    bad = fl.selfcheck()
    if bad:
        ck.inconclusive(f"flavour oracle is not self-consistent: {bad[:2]}")
        return
    for qed in (False, True):
        bq = "qed" if qed else "qcd"
        for nf in (4, 5, 6):
            old, new = fl.labels(nf - 1, qed), fl.labels(nf, qed)
            Ro, Rn = fl.basis_matrix(nf - 1, qed, labs=old), fl.basis_matrix(nf, qed, labs=new)
            solved = fl.matching_rotation(nf, qed)
            mats = {}
            for inverse in (False, True):
                fname = "rotate_matching_inverse" if inverse else "rotate_matching"
                rows, cols = (old, new) if inverse else (new, old)
                Rrow, Rcol = (Ro, Rn) if inverse else (Rn, Ro)
                try:
                    m = flavors.rotate_matching_inverse(nf, qed) if inverse else flavors.rotate_matching(nf, qed)
                    m = dict(m)
                except Exception as e:
                    ck.case((fname, nf, qed))
                    ck.violation(f"C33/{fname}/raises/{bq}", f"{fname}({nf}, qed={qed}) raised {type(e).__name__}: {e}", dict(nf=nf, qed=qed))
                    continue
                M, unknown, irr = _matrix(m, rows, cols)
                if unknown or irr:
                    ck.case((fname, nf, qed, "labels"))
                    ck.violation(
                        f"C33/{fname}/labels/{bq}",
                        f"{fname}({nf}, qed={qed}) has entries outside the two bases {unknown[:5]} or non-rational values {irr[:3]}",
                        dict(nf=nf, qed=qed, unknown=unknown, irrational=irr),
                    )
                mats[inverse] = M
                # reference as a dense matrix: forward = Rn Ro^-1, inverse = Ro Rn^-1
                want = Rrow * Rcol.inv()
                for i, X in enumerate(rows):
                    nz_want = [cols[j] for j in range(14) if want[i, j] != 0]
                    nontriv = nz_want != [X]
                    ck.case((fname, nf, qed, X), nontrivial=nontriv, sample=dict(fn=fname, nf=nf, qed=qed, row=X, entries={f"{X}.{cols[j]}": str(M[i, j]) for j in range(14) if M[i, j] != 0}) if nontriv else None)
                    # (1) flavour content: sum_Y m[X.Y] content(Y) == content(X)
                    ck.hit("flavour_content")
                    img = M[i, :] * Rcol
                    ok1 = img == Rrow[i, :]
                    # (2) entries against the independently solved rotation
                    ck.hit("entries_vs_solved")
                    ok2 = M[i, :] == want[i, :]
                    if not inverse:
                        ok2 = ok2 and all(solved.get(f"{X}.{Y}", F(0)) == F(int(M[i, j].p), int(M[i, j].q)) for j, Y in enumerate(cols))
                    if ok1 and ok2:
                        ck.ok()
                        continue
                    got_row = {f"{X}.{cols[j]}": str(M[i, j]) for j in range(14) if M[i, j] != 0}
                    want_row = {f"{X}.{cols[j]}": str(want[i, j]) for j in range(14) if want[i, j] != 0}
                    kind = "missing-row" if not got_row else ("content" if not ok1 else "entries")
                    grp = "heavy" if X[-1] in "+-" else ("delta" if "delta" in X else ("total" if X in ("S", "V") else ("gauge" if X in ("g", "ph") else "ns")))
                    ck.violation(
                        f"C33/{fname}/{kind}/{bq}/nf{nf}/{grp}",
                        f"{fname}({nf}, qed={qed}) row {X}: {got_row} but the flavour content requires {want_row}",
                        dict(nf=nf, qed=qed, row=X, got=got_row, want=want_row),
                    )
            # (3) inverse o forward == identity, both orders
            if False in mats and True in mats:
                ck.case(("inverse-law", nf, qed))
                ck.hit("inverse_composition")
                a = mats[True] * mats[False]
                b = mats[False] * mats[True]
                if a != sp.eye(14) or b != sp.eye(14):
                    offs = [(old[i], old[j], str(a[i, j])) for i in range(14) for j in range(14) if a[i, j] != (1 if i == j else 0)]
                    ck.violation(
                        f"C33/inverse-law/{bq}/nf{nf}",
                        f"rotate_matching_inverse o rotate_matching != identity for nf={nf} qed={qed}: {offs[:4]}",
                        dict(nf=nf, qed=qed, offending=offs[:20]),
                    )
                else:
                    ck.ok()
    # (4) QED parameters
    names = "abcdef"
    for nf in (4, 5, 6):
        try:
            par = flavors.qed_rotation_parameters(nf)
        except Exception as e:
            ck.case(("qed_rotation_parameters", nf))
            ck.violation("C33/qed_rotation_parameters/raises", f"qed_rotation_parameters({nf}) raised {type(e).__name__}: {e}", dict(nf=nf))
            continue
        want = fl.qed_parameters(nf)
        for nm, g, w in zip(names, par, want):
            ck.case(("qed_rotation_parameters", nf, nm), sample=dict(fn="qed_rotation_parameters", nf=nf, parameter=nm, code=float(g), exact=str(w)))
            ck.hit("qed_parameters")
            fr = fl.rat(g)
            if fr != w:
                ck.violation(
                    f"C33/qed_rotation_parameters/{nm}/nf{nf}",
                    f"qed_rotation_parameters({nf}): {nm} = {g!r}, the flavour content requires {w}",
                    dict(nf=nf, parameter=nm, got=float(g), want=str(w)),
                )
            else:
                ck.ok()
    ck.note(exhaustive=True)
