"""C54: archives written by the Python library are read identically by the Rust reader (crates/dekoder)."""

import io
import os
import pathlib
import subprocess
import tarfile

import numpy as np

from .. import scratch, workload
from ..oracles import rustbuild

META = dict(
    level="translation_validation",
    design_ref="DESIGN.md §5 C54",
    technique="differential execution of two readers of the same on-disk format: archives written by the Python store / a real solve are read back by eko.io (Python) and by crates/dekoder (Rust, built offline from the current tree against unit-checked shim crates); evolution points, shapes and tensor bytes are compared",
    level_text="For every generated archive the Rust reader must list exactly the evolution points the Python reader lists and return, for each, operator and error tensors with the same shape and bitwise identical entries. Every shim standing in for an unavailable Rust dependency (LZ4 frame, zip/npy, YAML, tar) is checked in the same run against the Python reference implementation on the very files of the case; a shim that disagrees makes the case inconclusive, never a verdict.",
    level_note="Trusted base: rustc, the real thiserror crate (vendored from the local registry), the shim crates in /verif/rust (validated per file against lz4.frame, numpy.load, yaml, tarfile), the Python reader as reference.",
    rule="case = one evolution point of one archive (random archives: 1-4 points, float / integer-valued / int scales more than the Rust tolerance apart, random nf, random (a,b,a,b) tensors with errors; 40 % of the archives are the final state of a multi-step write history: create, close, EKO.edit sessions, points first stored without and later with error, re-assignment under keys from EKO.approx and NumPy-typed keys, points added late; plus the points of one real tiny solve); distinct by (archive, scale, nf); non-trivial = tensors non-constant and at least 16 entries",
    min_nontrivial=25,
    required_hits=["rust_points_compared", "tensor_bytes_compared", "history_archives", "shim_lz4_checked", "shim_npz_checked", "shim_yaml_checked", "shim_tar_checked"],
    max_inconclusive_frac=0.05,
)
META["level_text"] += ' Bytes after the first complete LZ4 frame of an operator member are a violation.'

RTOL, ATOL = 1e-5, 1e-3  # documented tolerance of dekoder::eko::EvolutionPoint


def hexf(x):
    return np.array([x], dtype="<f8").view("<u8")[0].item().__format__("016x")


def run_h(binary, *args, timeout=300):
    p = subprocess.run([str(binary), *[str(a) for a in args]], capture_output=True, text=True, timeout=timeout)
    return p.returncode, p.stdout.strip(), p.stderr.strip()


def read_dump(path):
    raw = pathlib.Path(path).read_bytes()
    nl = raw.index(b"\n")
    shape = tuple(int(t) for t in raw[:nl].split())
    return shape, raw[nl + 1 :]


# ------------------------------------------------------------- the archives
def random_scales(rng, k):
    """k scales pairwise distinguishable under the Rust tolerance, of mixed python types."""
    out = []
    tries = 0
    while len(out) < k and tries < 200:
        tries += 1
        kind = int(rng.integers(0, 6))
        if kind == 0:
            s = float(10 ** rng.uniform(0, 4))
        elif kind == 1:
            s = float(int(10 ** rng.uniform(0.3, 4)))  # integer-valued float: "100.0"
        elif kind == 2:
            s = int(10 ** rng.uniform(0.3, 5))  # a python int: "100"
        elif kind == 3:
            s = float(10 ** rng.uniform(4, 9))  # large: exponent notation in yaml
        elif kind == 4:
            s = float(rng.uniform(1.0, 3.0) ** 2)
        else:
            s = float(np.round(10 ** rng.uniform(0, 3), int(rng.integers(0, 4))))
        if all(abs(float(s) - float(o)) > 4 * (ATOL + RTOL * max(abs(float(s)), abs(float(o)))) for o, _ in out):
            out.append((s, int(rng.integers(3, 7))))
    if len(out) >= 2 and rng.integers(0, 3) == 0:
        # same scale in two flavour schemes: distinguishable by nf alone
        s0, nf0 = out[0]
        if all(float(o) != float(s0) for o, _ in out[1:]):
            out[-1] = (s0, 3 + (nf0 - 3 + 1) % 4)
    return out


def make_random_archive(rng, path):
    """Write an archive through the Python store. Returns [(scale, nf)] as given to the store."""
    from eko.io.items import Operator
    from eko.io.struct import EKO

    n = int(rng.integers(2, 9)) if rng.integers(0, 5) else int(rng.integers(12, 24))  # the larger ones span several LZ4 blocks
    xg = np.geomspace(10 ** rng.uniform(-5, -1), 1.0, n)
    th = workload.raw_theory(order=(1, 0))
    op = workload.raw_operator(xgrid=xg, mugrid=((10.0, 5),))
    tc, oc = workload.cards(th, op)
    k = int(rng.integers(1, 5))
    eps = random_scales(rng, k)
    a = int(rng.choice([1, 2, 14]))
    with EKO.create(pathlib.Path(path)).load_cards(tc, oc).build() as eko:
        for i, (s, nf) in enumerate(eps):
            shape = (a, n, a, n)
            o = rng.normal(size=shape) * 10 ** rng.uniform(-3, 3)
            e = np.abs(rng.normal(size=shape)) * 1e-6
            if i % 3 == 1:
                o[rng.integers(0, a), rng.integers(0, n)] = 0.0  # exact zeros / negative zeros survive bitwise
                o[0, 0, 0, 0] = -0.0
            if i % 4 == 2:
                o = np.asfortranarray(o)  # a writer may hand over any memory layout
            eko[(s, nf)] = Operator(operator=o, error=e)
    return eps


def _tensors(rng, a, n, i):
    shape = (a, n, a, n)
    o = rng.normal(size=shape) * 10 ** rng.uniform(-3, 3)
    e = np.abs(rng.normal(size=shape)) * 1e-6
    if i % 4 == 2:
        o = np.asfortranarray(o)
    return o, e


def _key(rng, eko, s, nf, how):
    """The key under which a point is (re)addressed: plain tuple, NumPy-typed tuple, or what EKO.approx hands back."""
    if how == "numpy":
        return (np.float64(s), np.int64(nf))
    if how == "approx":
        k = eko.approx((float(s) * (1.0 + float(rng.uniform(-3e-7, 3e-7))), nf))
        if k is None:  # not stored yet
            return (s, nf)
        return k
    return (s, nf)


def make_history_archive(rng, path):
    """Archive produced by a multi-step write history whose FINAL state satisfies the precondition
    (every operator carries an error, points distinguishable): create -> close -> EKO.edit -> overwrite
    with/without error, keys from eko.approx, NumPy-typed keys, re-assignment, new points -> close.
    Returns (final points, history log)."""
    from eko.io.items import Operator
    from eko.io.struct import EKO

    n = int(rng.integers(2, 9))
    xg = np.geomspace(10 ** rng.uniform(-5, -1), 1.0, n)
    tc, oc = workload.cards(workload.raw_theory(order=(1, 0)), workload.raw_operator(xgrid=xg, mugrid=((10.0, 5),)))
    # float scales only: EKO.approx asserts isinstance(scale, float) and trips on points stored with python-int scales
    eps = [(float(s), nf) for s, nf in random_scales(rng, int(rng.integers(2, 5)))]
    a = int(rng.choice([1, 2, 14]))
    modes = ["two-pass", "approx-reassign", "numpy-key", "flip", "plain", "late"]
    plan = [(s, nf, modes[(j + int(rng.integers(0, 2))) % len(modes)] if j else modes[int(rng.integers(0, 2))]) for j, (s, nf) in enumerate(eps)]
    log = []
    # session 1: creation
    with EKO.create(pathlib.Path(path)).load_cards(tc, oc).build() as eko:
        for j, (s, nf, mode) in enumerate(plan):
            o, e = _tensors(rng, a, n, j)
            if mode == "late":
                continue
            if mode == "two-pass":
                eko[(s, nf)] = Operator(operator=o)  # central values first
                log.append(["create", repr(s), nf, "no-error"])
                if rng.integers(0, 2):  # error attached in the same session
                    how = ["plain", "numpy", "approx"][int(rng.integers(0, 3))]
                    eko[_key(rng, eko, s, nf, how)] = Operator(operator=o, error=e)
                    log.append(["create", repr(s), nf, "with-error", how])
            elif mode == "numpy-key":
                eko[_key(rng, eko, s, nf, "numpy")] = Operator(operator=o, error=e)
                log.append(["create", repr(s), nf, "with-error", "numpy"])
            else:
                eko[(s, nf)] = Operator(operator=o, error=e)
                log.append(["create", repr(s), nf, "with-error", "plain"])
    # session 2 (and sometimes 3): edit
    for session in range(int(rng.integers(1, 3))):
        with EKO.edit(pathlib.Path(path)) as eko:
            for j, (s, nf, mode) in enumerate(plan):
                o, e = _tensors(rng, a, n, j + 1)
                how = ["plain", "numpy", "approx"][int(rng.integers(0, 3))]
                if mode == "two-pass" or (mode == "late" and session == 0):
                    # attach the error now (or add the point): afterwards the point satisfies the precondition
                    eko[_key(rng, eko, s, nf, how)] = Operator(operator=o, error=e)
                    log.append([f"edit{session}", repr(s), nf, "with-error", how])
                elif mode == "approx-reassign":
                    eko[_key(rng, eko, s, nf, "approx")] = Operator(operator=o, error=e)
                    log.append([f"edit{session}", repr(s), nf, "with-error", "approx"])
                elif mode == "flip":
                    eko[_key(rng, eko, s, nf, how)] = Operator(operator=o)
                    eko[_key(rng, eko, s, nf, "plain" if how == "approx" else "approx")] = Operator(operator=o, error=e)
                    log.append([f"edit{session}", repr(s), nf, "no-error then with-error", how])
                elif mode == "numpy-key" and rng.integers(0, 2):
                    eko[_key(rng, eko, s, nf, "numpy")] = Operator(operator=o, error=e)
                    log.append([f"edit{session}", repr(s), nf, "with-error", "numpy"])
    return [(s, nf) for s, nf, _ in plan], log


def make_solved_archive(rng, path):
    th = workload.raw_theory(order=(1, 0))
    op = workload.raw_operator(init=(1.65, 4), mugrid=((3.0, 4), (10.0, 5)), xgrid=(1e-2, 0.1, 0.5, 1.0))
    workload.solve(th, op, path=path, keep=True)


# ----------------------------------------------------------- shim unit checks
def check_shims(ck, binary, tar_path, tmp, tag):
    """Each shim against its Python reference on the very files of this archive. Returns list of problems."""
    import lz4.frame
    import yaml

    problems = []
    d_py = pathlib.Path(tmp) / f"{tag}-py"
    d_rs = pathlib.Path(tmp) / f"{tag}-rs"
    d_py.mkdir()
    with tarfile.open(tar_path) as t:
        t.extractall(d_py, filter="data") if hasattr(tarfile, "data_filter") else t.extractall(d_py)
    rc, out, err = run_h(binary, "untar", tar_path, d_rs)
    ck.hit("shim_tar_checked")
    if rc != 0 or not out.startswith("DONE"):
        problems.append(f"tar shim failed on {tag}: {out} {err[-200:]}")
        return problems
    files_py = {str(p.relative_to(d_py)): p for p in d_py.rglob("*") if p.is_file()}
    files_rs = {str(p.relative_to(d_rs)): p for p in d_rs.rglob("*") if p.is_file()}
    if set(files_py) != set(files_rs):
        problems.append(f"tar shim: file sets differ: only python {sorted(set(files_py) - set(files_rs))[:3]} only shim {sorted(set(files_rs) - set(files_py))[:3]}")
    else:
        for k in files_py:
            if files_py[k].read_bytes() != files_rs[k].read_bytes():
                problems.append(f"tar shim: content of {k} differs")
                break
    opdir = d_py / "operators"
    for p in sorted(opdir.iterdir()):
        if p.suffix == ".yaml":
            ck.hit("shim_yaml_checked")
            rc, out, err = run_h(binary, "yaml", p)
            text = p.read_text()
            try:
                ref = yaml.safe_load(text)
                refkind = {k: v for k, v in ref.items()}
            except yaml.YAMLError:
                # python-specific tags: compare node kinds only
                node = yaml.compose(text)
                refkind = {}
                for kn, vn in node.value:
                    refkind[kn.value] = {"SequenceNode": "seq", "MappingNode": "map"}.get(type(vn).__name__, vn)
            got = {}
            for line in out.split("\n")[1:]:
                tok = line.split(" ", 2)
                if len(tok) >= 2:
                    got[tok[0]] = (tok[1], tok[2] if len(tok) > 2 else "")
            if rc != 0 or set(got) != set(refkind):
                problems.append(f"yaml shim: keys differ on {p.name}: {out[:200]} vs {refkind}")
                continue
            for k, v in refkind.items():
                kind, val = got[k]
                if isinstance(v, bool):
                    ok = kind == "bool" and val == str(v).lower()
                elif isinstance(v, int):
                    # integers beyond i64 are reals in yaml-rust2
                    ok = (kind == "int" and int(val) == v) or (kind == "real" and abs(v) >= 2**63 and val == hexf(float(v)))
                elif isinstance(v, float):
                    ok = kind == "real" and (val == hexf(v) or (np.isnan(v) and "7ff" in val))
                elif isinstance(v, str) and v in ("seq", "map"):
                    ok = kind == v
                elif isinstance(v, str):
                    ok = kind == "str" and val == v
                elif v is None:
                    ok = kind == "null"
                else:  # a ScalarNode with a foreign tag
                    ok = kind in ("str", "real", "int", "bad")
                if not ok:
                    problems.append(f"yaml shim: {p.name}[{k}] = {kind} {val} but python has {v!r}")
        elif p.name.endswith(".npz.lz4"):
            ck.hit("shim_lz4_checked")
            raw_out = pathlib.Path(tmp) / f"{tag}-{p.name}.raw"
            rc, out, err = run_h(binary, "lz4", p, raw_out)
            blob = p.read_bytes()
            ref, nread = lz4.frame.decompress(blob, return_bytes_read=True)
            if nread < len(blob):
                # bytes after the first complete frame: python-lz4 stops there, a reader of the LZ4 *frame format*
                # (frames may be concatenated; lz4_flex's FrameDecoder + read_to_end, which dekoder uses) goes on and
                # must take them for another frame. Not a harness problem: the archive itself is malformed.
                ck.case((tag, "lz4-trailing", p.name), nontrivial=True, sample=dict(member=p.name, frame_bytes=nread, file_bytes=len(blob)))
                ck.violation(
                    "C54/lz4/trailing-bytes-after-frame",
                    f"{tag}: operators/{p.name} holds {len(blob) - nread} bytes after its first complete LZ4 frame; the Python reader ignores them, a frame-format reader (the Rust one) reads on: {out.strip()[:120]}",
                    dict(tag=tag, member=p.name, frame_bytes=nread, file_bytes=len(blob), rust_shim_rc=rc, rust_shim_out=out[:200]),
                )
                problems.insert(0, "__violation__")
                continue
            if rc != 0 or not raw_out.exists() or raw_out.read_bytes() != ref:
                problems.append(f"lz4 shim: {p.name}: {out} {err[-200:]}")
                continue
            npz = np.load(io.BytesIO(ref))
            for member in ("operator", "error"):
                ck.hit("shim_npz_checked")
                mo = pathlib.Path(tmp) / f"{tag}-{p.name}.{member}"
                rc, out, err = run_h(binary, "npz", raw_out, member + ".npy", mo)
                arr = npz[member]
                if arr.dtype.str not in ("<f8", ">f8", "=f8") or arr.ndim != 4:
                    # ndarray-npy refuses members that are not rank-4 f64: the shim must refuse as well
                    if rc == 0:
                        problems.append(f"npz shim: {p.name}:{member} accepted dtype {arr.dtype.str} ndim {arr.ndim}")
                    continue
                if rc != 0 or not mo.exists():
                    problems.append(f"npz shim: {p.name}:{member}: {out} {err[-200:]}")
                    continue
                shape, data = read_dump(mo)
                if shape != arr.shape or data != np.ascontiguousarray(arr).astype("<f8").tobytes():
                    problems.append(f"npz shim: {p.name}:{member} differs from numpy.load")
            raw_out.unlink(missing_ok=True)
    return problems


# -------------------------------------------------------------------- compare
def compare_archive(ck, binary, tar_path, tmp, tag, kind, given=None, hlog=None):
    from eko.io.struct import EKO

    # python reference reader
    ref = {}
    py_error = None
    try:
        with EKO.read(pathlib.Path(tar_path), dest=pathlib.Path(tmp) / f"{tag}-pyread") as e:
            for ep, op in e.items():
                ref[(float(ep[0]), int(ep[1]))] = (np.array(op.operator), None if op.error is None else np.array(op.error), ep)
    except Exception as ex:  # the python reader refusing its own archive is not this property's subject
        py_error = f"{type(ex).__name__}: {ex}"
    work = pathlib.Path(tmp) / f"{tag}-work"
    out = pathlib.Path(tmp) / f"{tag}-out"
    out.mkdir()
    rc, sout, serr = run_h(binary, "read", tar_path, work, out)
    wit0 = dict(archive=tag, kind=kind, given=[[repr(s), nf] for s, nf in (given or [])], history=hlog, seed=ck.seed, tier=ck.tier)
    if py_error is not None:
        # no reference to compare with: outside this property (C36/C37 own the python round trip)
        ck.case((tag, "python-reader"), nontrivial=False)
        ck.inconclusive(f"{tag}: the python reader fails on its own archive ({py_error[:150]}); rust: {sout[:60]}")
        return
    if rc != 0 or not sout.startswith("DONE"):
        for key in ref:
            ck.case((tag,) + key, nontrivial=True)
        ck.violation(f"C54/{kind}/rust-reader-fails", f"dekoder cannot open an archive the python reader reads: {sout[:300]}", dict(wit0, rust_stdout=sout, rust_stderr=serr[-300:], python_points=[[k[0], k[1]] for k in ref]))
        return
    pts = {}
    for line in (out / "points.txt").read_text().strip().split("\n"):
        if not line:
            continue
        tok = line.split(" ", 4)
        i, scale, nf, has = int(tok[0]), np.array([int(tok[1], 16)], dtype="<u8").view("<f8")[0].item(), int(tok[2]), tok[3]
        pts[(scale, nf)] = (i, has, tok[4] if len(tok) > 4 else "")
    ck.hit("rust_points_compared", max(1, len(ref)))
    if set(pts) != set(ref):
        for key in ref:
            ck.case((tag,) + key, nontrivial=True)
        ck.violation(
            f"C54/{kind}/evolution-points-differ",
            f"rust lists {sorted(pts)} but python lists {sorted(ref)}",
            dict(wit0, rust=sorted([list(k) for k in pts]), python=sorted([list(k) for k in ref])),
        )
        return
    for key, (o, e, ep) in ref.items():
        i, has, status = pts[key]
        nontriv = o.size >= 16 and float(np.ptp(o)) > 0
        sample = None
        if len(ck.samples) < ck.max_samples:
            sample = dict(wit0, point=[key[0], key[1]], shape=list(o.shape), rust_status=status, first_entries=o.ravel()[:3])
        ck.case((tag,) + key, nontrivial=nontriv, sample=sample)
        wit = dict(wit0, point=[key[0], key[1]], scale_as_written=repr(ep[0]))
        if e is None:
            ck.hit("no_error_tensor_outside_property")
            ck.ok()
            continue
        if has != "true" or not status.startswith("OK") or "NOOP" in status or "NOERR" in status:
            ck.violation(f"C54/{kind}/load-operator-fails", f"dekoder lists {key} but cannot load it: has={has} {status[:200]}", dict(wit, rust_status=status))
            continue
        good = True
        for name, arr in (("op", o), ("err", e)):
            shape, data = read_dump(out / f"{i}.{name}.bin")
            ck.hit("tensor_bytes_compared")
            want = np.ascontiguousarray(arr).astype("<f8", copy=False).tobytes()
            if shape != arr.shape:
                good = False
                ck.violation(f"C54/{kind}/{name}-shape", f"{name} tensor of {key}: rust shape {shape} vs python {arr.shape}", dict(wit, rust_shape=list(shape), python_shape=list(arr.shape)))
            elif data != want:
                good = False
                got = np.frombuffer(data, dtype="<f8").reshape(shape)
                nbad = int((got.view("<u8") != np.ascontiguousarray(arr).view("<u8")).sum())
                idx = np.argwhere(got.view("<u8") != np.ascontiguousarray(arr).view("<u8"))[0].tolist()
                ck.violation(
                    f"C54/{kind}/{name}-bytes",
                    f"{name} tensor of {key}: {nbad} of {arr.size} entries differ bitwise, first at {idx}: rust {got[tuple(idx)]!r} python {arr[tuple(idx)]!r}",
                    dict(wit, differing=nbad, first_index=idx, rust=float(got[tuple(idx)]), python=float(arr[tuple(idx)]), fortran_order=bool(arr.flags.f_contiguous and not arr.flags.c_contiguous)),
                )
        if good:
            ck.ok()


def run(ck):
    if not rustbuild.cargo_available():
        ck.inconclusive("cargo/rustc not installed: the Rust side cannot be executed")
        return
    n_arch = ck.n(20, 500)
    import tempfile

    with scratch.tmpdir("eko-verif-c54-") as tmp:
        # the store builds archives in tempfile.mkdtemp(prefix="eko-"): keep those inside our scratch as well
        old_tmp, tempfile.tempdir = tempfile.tempdir, tmp
        try:
            _run(ck, tmp, n_arch)
        finally:
            tempfile.tempdir = old_tmp


def _run(ck, tmp, n_arch):
    if True:
        try:
            if os.environ.get("VERIF_DEKODER_HARNESS"):  # development aid only: a binary built earlier from the same tree
                binary = os.environ["VERIF_DEKODER_HARNESS"]
            else:
                binary, _ = rustbuild.build_dekoder_harness(tmp, jobs=int(os.environ.get("VERIF_COMPILE_WORKERS", 8)))
        except rustbuild.BuildFailed as e:
            ck.inconclusive(f"cargo build of crates/dekoder failed: {e}: {e.log[-600:]}")
            return
        archives = []
        # one real tiny solve
        sp = os.path.join(tmp, "solved.tar")
        try:
            make_solved_archive(ck.rng, sp)
            archives.append(("solved", "solve", sp, None, None))
        except Exception as ex:
            ck.case(("solved",), nontrivial=False)
            ck.inconclusive(f"tiny solve failed: {type(ex).__name__}: {str(ex)[:150]}")
        for i in range(n_arch):
            p = os.path.join(tmp, f"rnd{i}.tar")
            history = i % 5 in (1, 3)  # 40 % of the archives come out of multi-step write histories
            try:
                if history:
                    given, hlog = make_history_archive(ck.rng, p)
                    ck.hit("history_archives")
                else:
                    given, hlog = make_random_archive(ck.rng, p), None
            except Exception as ex:
                ck.case((f"rnd{i}",), nontrivial=False)
                ck.inconclusive(f"python store could not write archive {i}: {type(ex).__name__}: {str(ex)[:150]}")
                continue
            archives.append((f"hist{i}" if history else f"rnd{i}", "history" if history else "store", p, given, hlog))
        n_prog = 0
        for tag, kind, p, given, hlog in archives:
            wd = os.path.join(tmp, f"w-{tag}")
            os.makedirs(wd)
            problems = check_shims(ck, binary, p, wd, tag)
            if problems and problems[0] == "__violation__":
                continue  # judged inside check_shims (malformed member)
            if problems:
                ck.case((tag, "shim"), nontrivial=False)
                ck.inconclusive(f"shim check failed on {tag}: {problems[0][:250]}")
                continue
            n_prog += 1
            compare_archive(ck, binary, p, wd, tag, kind, given, hlog)
            import shutil

            shutil.rmtree(wd, ignore_errors=True)
        ck.note(programs=2, disagreements_checked=len(ck.violations), archives=len(archives), archives_compared=n_prog)
