"""C03: EKOs do not depend on parallel schedule, target order or co-computed targets."""

import hashlib
import itertools
import os
import pathlib
import shutil

import numpy as np

from .. import jobs, scratch, workload as w

META = dict(
    level="exploration",
    design_ref="DESIGN.md §5 C03",
    technique="differential execution of the real solver under different schedules (worker-pool sizes, CPU affinity), target permutations and target subsets; bitwise comparison (sha256 of operator and error bytes); pool path confirmed by the worker pids logged from inside run_op_integration (and a hook on Pool.map)",
    level_text="For each random card the same targets are solved with 1 and several integration workers, in every target order and in every non-empty subset; operators and errors must be bitwise identical. Observed schedule diversity (distinct worker pids, pool.map calls) is reported.",
    level_note="Bitwise equality is what the statement says; quad is deterministic. A pool that cannot start is inconclusive. Interpreter mode (NUMBA_DISABLE_JIT=1) as in the repository's suite.",
    rule="case = (card, variant, target); variants: cores in {2,3,4,-13,(5,-15)} on 5-7 point grids, all permutations, all non-empty subsets; non-trivial = variant differs from the baseline run (other cores/order/subset) and the target requires real integration",
    min_nontrivial=20,
    required_hits=["pool_worker_processes", "bitwise_compared"],
    max_inconclusive_frac=0.1,
)
META["level_text"] += ' Every third card uses linear interpolation; NNLO cards with the coupling reference on the bottom matching scale are run over the pool sizes.'


def digest(res):
    out = {}
    for k, (o, e) in res.items():
        h = hashlib.sha256(np.ascontiguousarray(o).tobytes())
        h.update(b"|")
        h.update(b"none" if e is None else np.ascontiguousarray(e).tobytes())
        out[f"{k[0].hex()}|{k[1]}"] = h.hexdigest()
    return out


def run_variant(job):
    cfg, variant = job
    import multiprocessing.pool as mpp

    import eko.evolution_operator as evop

    logdir = scratch.mkdtemp()
    calls = {"map": 0}
    orig_map = mpp.Pool.map
    orig_run = evop.Operator.run_op_integration

    def rec_map(self, *a, **k):
        calls["map"] += 1
        return orig_map(self, *a, **k)

    def rec_run(self, log_grid):
        with open(os.path.join(logdir, f"pid-{os.getpid()}"), "a") as fd:
            fd.write("x")
        return orig_run(self, log_grid)

    # bound methods are pickled by name when sent to pool workers
    rec_run.__name__ = "run_op_integration"
    rec_run.__qualname__ = "Operator.run_op_integration"
    mpp.Pool.map = rec_map
    evop.Operator.run_op_integration = rec_run
    aff = None
    try:
        if variant.get("affinity"):
            aff = os.sched_getaffinity(0)
            cpus = sorted(aff)[: variant["affinity"]]
            os.sched_setaffinity(0, cpus)
        c = dict(cfg)
        c["targets"] = [cfg["targets"][i] for i in variant["order"]]
        c["cores"] = variant["cores"]
        try:
            res = w.solve_cfg(c)
        except (NotImplementedError, ValueError) as e:
            return dict(status="refused", msg=str(e)[:100])
        except OSError as e:
            return dict(status="resource", msg=str(e)[:100])
        except Exception as e:
            import traceback

            return dict(status="crash", msg=f"{type(e).__name__}: {str(e)[:200]}", tb=traceback.format_exc()[-500:])
        pids = [f for f in os.listdir(logdir)]
        return dict(status="ok", digest=digest(res), pool_map=calls["map"], worker_pids=len(pids), own_pid_used=f"pid-{os.getpid()}" in pids)
    finally:
        mpp.Pool.map = orig_map
        evop.Operator.run_op_integration = orig_run
        if aff is not None:
            os.sched_setaffinity(0, aff)
        shutil.rmtree(logdir, ignore_errors=True)


def variants(cfg, ck):
    k = len(cfg["targets"])
    ident = list(range(k))
    vs = [dict(name="base", order=ident, cores=1)]
    if cfg.get("_cores_only"):
        return vs + [dict(name=f"cores{c}", order=ident, cores=c) for c in (2, 3)]
    for c in ([2, 3, 4, -13] if ck.quick else [2, 3, 4, 5, -13, -15]):
        vs.append(dict(name=f"cores{c}", order=ident, cores=c))
    for perm in itertools.permutations(ident):
        if list(perm) != ident:
            vs.append(dict(name="perm" + "".join(map(str, perm)), order=list(perm), cores=1))
    for r in range(1, k):
        for sub in itertools.combinations(ident, r):
            vs.append(dict(name="sub" + "".join(map(str, sub)), order=list(sub), cores=1))
    if not ck.quick:
        vs.append(dict(name="affinity2-cores4", order=ident, cores=4, affinity=2))
        vs.append(dict(name="perm-cores3", order=ident[::-1], cores=3))
    return vs


def configs(ck):
    rng = ck.rng
    cfgs = []
    plan = [(1, 0, 4), (2, 0, 2)] if ck.quick else [(1, 0, 16), (2, 0, 14), (3, 0, 6), (1, 1, 3), (2, 1, 1)]
    pairs = [(3, 4), (4, 5), (4, 3), (4, 4), (3, 5), (5, 4)]
    meths = ["iterate-exact", "truncated", "perturbative-exact"]
    for qcd, qed, cnt in plan:
        for i in range(cnt):
            # grid sizes not divisible by the pool sizes, so that uneven work splitting is exercised
            kw = dict(qcd=qcd, qed=qed, max_targets=3, npts=(5, 6, 7) if not qed else (4, 5), nf_pairs=pairs, methods=meths, scvars=(None, "expanded", "exponentiated") if not qed else (None,))
            c = w.path_cfg(rng, **kw)
            while len(c["targets"]) < 2:
                c = w.path_cfg(rng, **kw)
            if i % 2 == 1 and not qed:
                # a target sitting exactly on a matching scale (lower and upper nf) next to one crossing it:
                # the same stretch is then needed as a final and as an intermediate segment
                hq = int(rng.choice([4, 5]))
                wall = c["masses"][hq - 4] * c["ratios"][hq - 4]
                below = max(1.3, wall / float(rng.uniform(1.3, 1.9)))
                c["init"] = [below, hq - 1]
                c["targets"] = [[wall, hq - 1], [wall * float(rng.uniform(1.4, 2.5)), hq], [wall, hq]][: int(rng.integers(2, 4))]
                c["scvar"], c["xif"] = "expanded", float(rng.choice([0.5, 2.0]))
                c["inversion"] = None
            if i % 3 == 2:
                c["is_log"] = False  # linear interpolation: the flag has to survive the trip to the pool workers
            cfgs.append(c)
    # coupling reference exactly on a matching scale, NNLO, path crossing it: the matching coefficient is
    # evaluated lazily inside the integration kernels, in the parent (1 core) or in the workers (several cores)
    for _ in range(ck.n(1, 4)):
        c = w.path_cfg(rng, qcd=3, nf_pairs=[(4, 5)], max_targets=1, npts=(3,), methods=["truncated"])
        mb = c["masses"][1] * c["ratios"][1]
        c["ref"] = [mb, 4]
        c["alphas"] = 0.21
        c["init"], c["targets"] = [max(1.6, mb / 2.2), 4], [[mb * 2.5, 5]]
        c["_cores_only"] = True
        cfgs.append(c)
    return cfgs


def run(ck):
    cfgs = configs(ck)
    jobs_ = []
    for i, cfg in enumerate(cfgs):
        for v in variants(cfg, ck):
            jobs_.append((cfg, v))
    results = {}
    # inner pools multiply the process count: keep the outer fan-out moderate
    outer = max(2, jobs.ncpu() // 3)
    for (cfg, v), st, res in jobs.pmap(run_variant, jobs_, workers=outer, timeout=ck.n(2400, 4 * 3600), item_timeout=ck.n(300, 1800)):
        results[(w.cfg_key(cfg), v["name"])] = (cfg, v, st, res)
    pids_seen = 0
    for cfg in cfgs:
        ckey = w.cfg_key(cfg)
        base = results.get((ckey, "base"))
        if base is None or base[2] != "ok" or base[3]["status"] != "ok":
            ck.case(ckey, nontrivial=False)
            ck.inconclusive(f"baseline run unavailable: {str(base[3] if base else None)[:100]}")
            continue
        bdig = base[3]["digest"]
        for (k2, vname), (c2, v, st, res) in results.items():
            if k2 != ckey or vname == "base":
                continue
            if st != "ok" or res["status"] != "ok":
                ck.case((ckey, vname), nontrivial=False)
                ck.inconclusive(f"variant {vname}: {st} {str(res)[:100]}")
                continue
            if v["cores"] != 1:
                ck.hit("pool_map_calls", res["pool_map"])
                others = res["worker_pids"] - (1 if res["own_pid_used"] else 0)
                ck.hit("pool_worker_processes", others)
                pids_seen += res["worker_pids"]
                if others == 0:
                    # the integrations never left the calling process: the schedule was not varied
                    ck.inconclusive(f"variant {vname}: pool path not taken")
                    continue
            for tkey, dg in res["digest"].items():
                ck.hit("bitwise_compared")
                ck.case((ckey, vname, tkey), nontrivial=True, sample=dict(order=[cfg["qcd"], cfg["qed"]], variant=vname, target=tkey, sha=dg[:16], worker_pids=res["worker_pids"]))
                if tkey not in bdig:
                    ck.violation("C03/target-set", f"variant {vname} produced a target the baseline lacks: {tkey}", dict(cfg=cfg, variant=v))
                elif bdig[tkey] != dg:
                    kind = "cores" if v["cores"] != 1 else ("order" if vname.startswith("perm") else "subset")
                    ck.violation(f"C03/{kind}", f"operator for target {tkey} differs bitwise between baseline and variant {vname}", dict(cfg=cfg, variant=v, base=bdig[tkey], got=dg))
                else:
                    ck.ok()
    ck.note(distinct_worker_pids_observed=pids_seen)
