"""C53: EKOs are continuous in the target scale within a flavour-number patch."""

import numpy as np

from .. import jobs, workload as w

META = dict(
    level="exploration",
    design_ref="DESIGN.md §5 C53",
    technique="end-to-end differential monitor: real solves with targets exactly on each matching scale (lower and upper nf) and on the initial scale, paired with targets displaced by a relative epsilon inside the same patch; ||O(mu)-O(mu(1+-eps))|| bounded by C*eps*||O|| plus the stored integration errors",
    level_text="Real solves (orders 1-3, scale variation none/expanded/exponentiated with xi^2 in {1/4,4}, upward and downward paths); for every boundary target the operator must agree with the operator at a displaced scale in the same patch up to O(eps).",
    level_note="Bound: ||dO||_max <= 50*eps*||O||_max + (err1+err2)_max with eps in {1e-6,1e-4}; a missing or extra scale-variation/matching factor is O(a_s*gamma*L) ~ 1e-1 relative, orders of magnitude above the bound. The noise term is the solver's own reported integration error, never tuned.",
    rule="case = (configuration, boundary kind, eps); distinct by configuration+pair; non-trivial = the pair straddles a real boundary (wall with lower nf, wall with upper nf, or the initial scale) and both operators were produced",
    min_nontrivial=15,
    required_hits=["pairs_compared"],
    max_inconclusive_frac=0.2,
)

C_LIP = 50.0


def make_cfg(rng, qcd, scvar, direction, pt="unpol"):
    masses = [1.51 * float(rng.uniform(0.95, 1.15)), 4.92 * float(rng.uniform(0.95, 1.1)), 172.5]
    ratios = [float(rng.choice([0.8, 1.0, 1.5])), float(rng.choice([0.8, 1.0, 1.5])), 1.0]
    walls = [m * r for m, r in zip(masses, ratios)]
    if direction == "up":
        nf0 = int(rng.choice([3, 4]))
        lo = 1.3 if nf0 == 3 else walls[0]
        hi = walls[nf0 - 3]
        mu0 = float(np.exp(rng.uniform(np.log(lo * 1.05), np.log(hi * 0.9)))) if hi > lo * 1.2 else lo * 1.05
        wall = walls[nf0 - 3]
        nlow, nup = nf0, nf0 + 1
    else:
        nf0 = int(rng.choice([4, 5]))
        lo = walls[nf0 - 4]
        hi = walls[nf0 - 3] if nf0 < 6 else 300.0
        mu0 = float(np.exp(rng.uniform(np.log(lo * 1.1), np.log(hi * 0.95))))
        wall = walls[nf0 - 4]
        nlow, nup = nf0 - 1, nf0
    targets, pairs = [], []

    def add(mu, nf):
        t = [float(mu), int(nf)]
        if t not in targets:
            targets.append(t)
        return targets.index(t)

    for eps in (1e-6, 1e-4):
        # wall with the lower nf: approach from below; wall with the upper nf: approach from above
        pairs.append(("wall-lower-nf", eps, add(wall, nlow), add(wall * (1 - eps), nlow)))
        pairs.append(("wall-upper-nf", eps, add(wall, nup), add(wall * (1 + eps), nup)))
        pairs.append(("initial-scale+", eps, add(mu0, nf0), add(mu0 * (1 + eps), nf0)))
        pairs.append(("initial-scale-", eps, add(mu0, nf0), add(mu0 * (1 - eps), nf0)))
    cfg = dict(
        qcd=qcd,
        qed=0,
        method=str(rng.choice(["iterate-exact", "truncated", "iterate-expanded"])),
        pt=pt,
        init=[mu0, nf0],
        targets=targets,
        masses=masses,
        ratios=ratios,
        xgrid=[float(x) for x in np.geomspace(1e-2, 1.0, int(rng.choice([3, 4])))],
        degree=int(rng.choice([1, 2])),
        scvar=scvar,
        xif=float(rng.choice([0.5, 2.0])) if scvar else 1.0,
        inversion="exact" if direction == "down" else None,
        iters=2,
        alphas=float(rng.uniform(0.11, 0.12)),
        alphaem=0.007496252,
        em_running=False,
        max_order=[10, 0],
        cores=1,
        n3lo_var=[0] * 7,
        fhmruvv=True,
        matching_order=None,
        scheme="POLE",
        _pairs=pairs,
        _direction=direction,
    )
    return cfg


def run_case(cfg):
    c = {k: v for k, v in cfg.items() if not k.startswith("_")}
    try:
        res = w.solve_cfg(c)
    except (NotImplementedError, ValueError) as e:
        return dict(status="refused", msg=f"{type(e).__name__}: {str(e)[:100]}")
    except Exception as e:
        import traceback

        return dict(status="crash", msg=f"{type(e).__name__}: {str(e)[:200]}", tb=traceback.format_exc()[-500:])
    byt = {}
    for (mu2, nf), v in res.items():
        byt[(mu2, nf)] = v
    out = []
    for kind, eps, i, j in cfg["_pairs"]:
        ti, tj = cfg["targets"][i], cfg["targets"][j]
        ki, kj = (ti[0] ** 2, ti[1]), (tj[0] ** 2, tj[1])
        if ki not in byt or kj not in byt:
            out.append(dict(kind=kind, eps=eps, missing=True))
            continue
        (o1, e1), (o2, e2) = byt[ki], byt[kj]
        d = float(np.abs(o1 - o2).max())
        norm = float(max(np.abs(o1).max(), np.abs(o2).max()))
        noise = float((0.0 if e1 is None else np.abs(e1).max()) + (0.0 if e2 is None else np.abs(e2).max()))
        idx = np.unravel_index(np.argmax(np.abs(o1 - o2)), o1.shape)
        out.append(dict(kind=kind, eps=eps, diff=d, norm=norm, noise=noise, bound=C_LIP * eps * norm + noise, at=[int(x) for x in idx], t_on=ti, t_off=tj))
    return dict(status="ok", pairs=out)


def configs(ck):
    rng = ck.rng
    cfgs = []
    svs = [None, "expanded", "exponentiated"]
    plan = [(1, 1), (2, 1), (3, 1)] if ck.quick else [(1, 8), (2, 10), (3, 6)]
    for qcd, rep in plan:
        for sv in svs:
            for direction in ("up", "down"):
                for _ in range(rep):
                    cfgs.append(make_cfg(rng, qcd, sv, direction))
    if not ck.quick:
        for pt in ("pol", "tl"):
            for sv in svs:
                for direction in ("up", "down"):
                    cfgs.append(make_cfg(rng, 2, sv, direction, pt=pt))
    return cfgs


def run(ck):
    cfgs = configs(ck)
    if ck.replay:
        cfgs = [ck.replay["witness"]["cfg"]]
    for cfg, st, res in jobs.pmap(run_case, cfgs, timeout=ck.n(3000, 5 * 3600), item_timeout=ck.n(1500, 3600)):
        ckey = w.cfg_key({k: v for k, v in cfg.items() if k != "_pairs"})
        if st != "ok":
            ck.case(ckey, nontrivial=False)
            ck.inconclusive(f"job {st}: {str(res)[:100]}")
            continue
        if res["status"] != "ok":
            ck.case(ckey, nontrivial=False)
            if res["status"] == "refused":
                ck.hit("refused")
            else:
                ck.inconclusive("solver crashed (C04's business): " + res["msg"][:80])
            continue
        for p in res["pairs"]:
            key = (ckey, p["kind"], p["eps"])
            if p.get("missing"):
                ck.case(key, nontrivial=False)
                ck.inconclusive("target not found in archive")
                continue
            ck.hit("pairs_compared")
            ck.case(key, nontrivial=True, sample=dict(order=cfg["qcd"], scvar=cfg["scvar"], xif=cfg["xif"], direction=cfg["_direction"], **{k: p[k] for k in ("kind", "eps", "diff", "bound", "norm", "noise")}))
            if p["diff"] > p["bound"]:
                kind = p["kind"].rstrip("+-")
                ck.violation(
                    f"C53/{kind}/{cfg['scvar'] or 'unvaried'}/{cfg['_direction']}",
                    f"operator jumps by {p['diff']:.3g} (bound {p['bound']:.3g}, norm {p['norm']:.3g}) between target {p['t_on']} and {p['t_off']}",
                    dict(cfg=cfg, pair=p),
                )
            else:
                ck.ok()
