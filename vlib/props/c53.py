"""C53: EKOs are continuous in the target scale within a flavour-number patch."""

import numpy as np

from .. import jobs, workload as w

META = dict(
    level="exploration",
    design_ref="DESIGN.md §5 C53",
    technique="end-to-end differential monitor: real solves with targets exactly on each matching scale (lower and upper nf) and on the initial scale, paired with targets displaced by a relative epsilon inside the same patch; ||O(mu)-O(mu(1+-eps))|| for eps in {1e-6,1e-4,1e-3}: bounded at 1e-6, and required to scale with eps between 1e-4 and 1e-3",
    level_text="Real solves (orders 1-3, scale variation none/expanded/exponentiated with xi^2 in {1/4,4}, upward and downward paths); for every boundary target the operator must agree with the operator at a displaced scale in the same patch up to O(eps).",
    level_note="Two tests per boundary: (A) ||O(mu)-O(mu(1+-1e-6))||_max <= 500*1e-6*||O||_max + reported integration errors; (B) where the difference at eps=1e-4 exceeds 10x the integration error, the difference at eps=1e-3 must be >= 4x larger (a continuous function gives ~10x, a jump ~1x). A missing or extra scale-variation/matching factor is O(a_s*gamma*L) ~ 1e-1 relative. (A first version used a Lipschitz constant of 50 also at eps=1e-4 and raised a false alarm in the thorough tier at mu0=1.37 GeV, where a_s*gamma in x-space is ~85.)",
    rule="case = (configuration, boundary kind) with three displacements; distinct by configuration+pair; non-trivial = the pair straddles a real boundary (wall with lower nf, wall with upper nf, or the initial scale) and both operators were produced",
    min_nontrivial=15,
    required_hits=["pairs_compared"],
    max_inconclusive_frac=0.2,
)
META["level_text"] += ' In the scale-varied schemes the interior point mu = mu0/xif, where the two coupling arguments of the last segment coincide bit for bit, is treated like a boundary.'

C_LIP = 500.0


def make_cfg(rng, qcd, scvar, direction, pt="unpol"):
    masses = [1.51 * float(rng.uniform(0.95, 1.15)), 4.92 * float(rng.uniform(0.95, 1.1)), 172.5]
    ratios = [float(rng.choice([0.8, 1.0, 1.5])), float(rng.choice([0.8, 1.0, 1.5])), 1.0]
    walls = [m * r for m, r in zip(masses, ratios)]
    if direction == "up":
        nf0 = int(rng.choice([3, 4]))
        lo = 1.3 if nf0 == 3 else walls[0]
        hi = walls[nf0 - 3]
        mu0 = float(np.exp(rng.uniform(np.log(lo * 1.05), np.log(hi * 0.9)))) if hi > lo * 1.2 else lo * 1.05
        wall = walls[nf0 - 3]
        nlow, nup = nf0, nf0 + 1
    else:
        nf0 = int(rng.choice([4, 5]))
        lo = walls[nf0 - 4]
        hi = walls[nf0 - 3] if nf0 < 6 else 300.0
        mu0 = float(np.exp(rng.uniform(np.log(lo * 1.1), np.log(hi * 0.95))))
        wall = walls[nf0 - 4]
        nlow, nup = nf0 - 1, nf0
    targets, pairs = [], []

    def add(mu, nf):
        t = [float(mu), int(nf)]
        if t not in targets:
            targets.append(t)
        return targets.index(t)

    for eps in (1e-6, 1e-4, 1e-3):
        # wall with the lower nf: approach from below; wall with the upper nf: approach from above
        pairs.append(("wall-lower-nf", eps, add(wall, nlow), add(wall * (1 - eps), nlow)))
        pairs.append(("wall-upper-nf", eps, add(wall, nup), add(wall * (1 + eps), nup)))
        pairs.append(("initial-scale+", eps, add(mu0, nf0), add(mu0 * (1 + eps), nf0)))
        pairs.append(("initial-scale-", eps, add(mu0, nf0), add(mu0 * (1 - eps), nf0)))
    xif = float(rng.choice([0.5, 2.0])) if scvar else 1.0
    if scvar and hi > 2.4 * lo and rng.random() < 0.7:
        # place mu0 such that mu0/xif lies inside the same patch
        a, b = (lo * 1.05, hi * 0.45) if xif == 0.5 else (lo * 2.2, hi * 0.9)
        mu0 = float(np.exp(rng.uniform(np.log(a), np.log(b))))
    # interior point where the two coupling arguments of the last segment coincide bit for bit
    # (xif^2 mu^2 == mu0^2, i.e. a1 == a0 in the expanded scheme): kernels take their "no evolution" shortcuts there
    if scvar:
        mu_c = mu0 / xif
        plo, phi = (lo, hi) if direction == "up" else (lo, hi)
        if plo * 1.01 < mu_c < phi * 0.99:
            for eps in (1e-6, 1e-4, 1e-3):
                pairs.append(("coupling-coincidence+", eps, add(mu_c, nf0), add(mu_c * (1 + eps), nf0)))
                pairs.append(("coupling-coincidence-", eps, add(mu_c, nf0), add(mu_c * (1 - eps), nf0)))
    cfg = dict(
        qcd=qcd,
        qed=0,
        method=str(rng.choice(["iterate-exact", "truncated", "iterate-expanded"])),
        pt=pt,
        init=[mu0, nf0],
        targets=targets,
        masses=masses,
        ratios=ratios,
        xgrid=[float(x) for x in np.geomspace(1e-2, 1.0, int(rng.choice([3, 4])))],
        degree=int(rng.choice([1, 2])),
        scvar=scvar,
        xif=xif,
        inversion="exact" if direction == "down" else None,
        iters=2,
        alphas=float(rng.uniform(0.11, 0.12)),
        alphaem=0.007496252,
        em_running=False,
        max_order=[10, 0],
        cores=1,
        n3lo_var=[0] * 7,
        fhmruvv=True,
        matching_order=None,
        scheme="POLE",
        _pairs=pairs,
        _direction=direction,
    )
    return cfg


def run_case(cfg):
    c = {k: v for k, v in cfg.items() if not k.startswith("_")}
    try:
        res = w.solve_cfg(c)
    except (NotImplementedError, ValueError) as e:
        return dict(status="refused", msg=f"{type(e).__name__}: {str(e)[:100]}")
    except Exception as e:
        import traceback

        return dict(status="crash", msg=f"{type(e).__name__}: {str(e)[:200]}", tb=traceback.format_exc()[-500:])
    byt = {}
    for (mu2, nf), v in res.items():
        byt[(mu2, nf)] = v
    out = []
    for kind, eps, i, j in cfg["_pairs"]:
        ti, tj = cfg["targets"][i], cfg["targets"][j]
        ki, kj = (ti[0] ** 2, ti[1]), (tj[0] ** 2, tj[1])
        if ki not in byt or kj not in byt:
            out.append(dict(kind=kind, eps=eps, missing=True))
            continue
        (o1, e1), (o2, e2) = byt[ki], byt[kj]
        d = float(np.abs(o1 - o2).max())
        norm = float(max(np.abs(o1).max(), np.abs(o2).max()))
        noise = float((0.0 if e1 is None else np.abs(e1).max()) + (0.0 if e2 is None else np.abs(e2).max()))
        idx = np.unravel_index(np.argmax(np.abs(o1 - o2)), o1.shape)
        out.append(dict(kind=kind, eps=eps, diff=d, norm=norm, noise=noise, at=[int(x) for x in idx], t_on=ti, t_off=tj))
    return dict(status="ok", pairs=out)


def configs(ck):
    rng = ck.rng
    cfgs = []
    svs = [None, "expanded", "exponentiated"]
    plan = [(1, 1), (2, 1), (3, 1)] if ck.quick else [(1, 8), (2, 10), (3, 6)]
    for qcd, rep in plan:
        for sv in svs:
            for direction in ("up", "down"):
                for _ in range(rep):
                    cfgs.append(make_cfg(rng, qcd, sv, direction))
    if not ck.quick:
        for pt in ("pol", "tl"):
            for sv in svs:
                for direction in ("up", "down"):
                    cfgs.append(make_cfg(rng, 2, sv, direction, pt=pt))
    return cfgs


def run(ck):
    cfgs = configs(ck)
    if ck.replay:
        cfgs = [ck.replay["witness"]["cfg"]]
    for cfg, st, res in jobs.pmap(run_case, cfgs, timeout=ck.n(3000, 5 * 3600), item_timeout=ck.n(1500, 3600)):
        ckey = w.cfg_key({k: v for k, v in cfg.items() if k != "_pairs"})
        if st != "ok":
            ck.case(ckey, nontrivial=False)
            ck.inconclusive(f"job {st}: {str(res)[:100]}")
            continue
        if res["status"] != "ok":
            ck.case(ckey, nontrivial=False)
            if res["status"] == "refused":
                ck.hit("refused")
            else:
                ck.inconclusive("solver crashed (C04's business): " + res["msg"][:80])
            continue
        groups = {}
        for p in res["pairs"]:
            if p.get("missing"):
                ck.case((ckey, p["kind"], p["eps"]), nontrivial=False)
                ck.inconclusive("target not found in archive")
                continue
            groups.setdefault(p["kind"], {})[p["eps"]] = p
        for kind, g in groups.items():
            if len(g) < 3:
                continue
            ck.hit("pairs_compared", 3)
            if kind.startswith("coupling-coincidence"):
                ck.hit("coincidence_points", 1)
            p6, p4, p3 = g[1e-6], g[1e-4], g[1e-3]
            noise = max(p6["noise"], p4["noise"], p3["noise"])
            # (A) tiny displacement: the operator must not move by more than a generous Lipschitz bound
            bound6 = C_LIP * 1e-6 * p6["norm"] + noise
            # (B) scaling: a continuous function moves ~10x more over a 10x larger displacement, a jump does not
            ratio = p3["diff"] / p4["diff"] if p4["diff"] > 0 else float("inf")
            decided_b = p4["diff"] > 10 * noise
            key = (ckey, kind)
            ck.case(key, nontrivial=True, sample=dict(order=cfg["qcd"], scvar=cfg["scvar"], xif=cfg["xif"], direction=cfg["_direction"], kind=kind, diff_1e6=p6["diff"], diff_1e4=p4["diff"], diff_1e3=p3["diff"], norm=p4["norm"], noise=noise, ratio=ratio))
            kind_ = kind.rstrip("+-")
            vkey = f"C53/{kind_}/{cfg['scvar'] or 'unvaried'}/{cfg['_direction']}"
            if p6["diff"] > bound6:
                ck.violation(vkey, f"operator jumps by {p6['diff']:.3g} (bound {bound6:.3g}, norm {p6['norm']:.3g}) between target {p6['t_on']} and {p6['t_off']}", dict(cfg=cfg, pairs=[p6, p4, p3]))
            elif decided_b and ratio < 4.0:
                ck.violation(vkey, f"operator difference does not scale with the displacement: {p4['diff']:.3g} at eps=1e-4, {p3['diff']:.3g} at eps=1e-3 (ratio {ratio:.2f}, continuity gives ~10) near target {p4['t_on']}", dict(cfg=cfg, pairs=[p6, p4, p3]))
            else:
                ck.ok()
