"""C37: the EKO operator store behaves like a persistent map under any history."""

import itertools
import math
import pathlib
import shutil
import tempfile
import traceback

import numpy as np

from .. import jobs, scratch
from .. import workload as wl
from ..oracles import storemodel as sm

META = dict(
    level="exploration",
    design_ref="DESIGN.md §5 C37",
    technique="online lock-step reference-model monitor: every operation of a generated history is applied to a real EKO on disk and to a dict model; after every step membership, iteration and approx lookups are compared, values on every read, full content after every close/re-open",
    level_text="Bounded-exhaustive: ALL histories of length 3 (quick) / 4 (thorough) over 15 symbols (set, set-with-error, get, unload on 3 keys; items(); close+re-open; close + reads through the closed handle + rewrite by a second handle + reads through the stale handle + re-open) - prefixes included - plus long random histories (to length 30) over a wider alphabet (NumPy-typed and 1-ulp keys, unload(), del eko.operators, operator() context manager, Inventory access, read-only re-opens, sessions abandoned without close). Exhaustive only within those bounds; beyond them exploration.",
    level_note="Trusted base: vlib/oracles/storemodel.py (dict + persisted copy; design decisions: unload never changes the map, a failed lookup never changes the map, approx is |q-k| <= atol + rtol|k| with unique/none/ambiguous). Arrays compared by sha256 of bytes.",
    rule="case = one history (sequence of operations); distinct by its symbol sequence / random seed index; non-trivial = the history stores at least one operator and performs at least one of: unload, overwrite, re-open, read after unload",
    min_nontrivial=300,
    required_hits=["steps", "contains_checks", "iter_checks", "approx_checks", "approx_ambiguous", "value_reads", "reopen_content", "final_content", "del_absent", "overwrite_other_format", "closed_handle_reads", "approx_loose_tolerance"],
    max_inconclusive_frac=0.02,
)

A = (10.0, 4)
B = (10.000005, 4)  # within the default approx tolerance of A
C = (10.0, 5)  # same scale, other nf
KEYS3 = [A, B, C]
SHAPE = (2, 3, 2, 3)

_cards = {}


def _get_cards():
    if "c" not in _cards:
        _cards["c"] = wl.cards(wl.raw_theory(), wl.raw_operator())
    return _cards["c"]


class Diverged(Exception):
    def __init__(self, key, what):
        super().__init__(what)
        self.key = key
        self.what = what


class Session:
    """One real EKO + the model, stepped together."""

    def __init__(self, work, rng, pool):
        from eko.io.struct import EKO

        self.EKO = EKO
        self.rng = rng
        self.pool = pool  # keys used for membership probes
        self.path = pathlib.Path(work) / f"s{rng.integers(1 << 30)}.tar"
        th, opc = _get_cards()
        self.eko = EKO.create(self.path).load_cards(th, opc).build()
        self.model = sm.StoreModel()
        self.hits = {}
        self.flags = set()

    def hit(self, name, k=1):
        self.hits[name] = self.hits.get(name, 0) + k

    # ------------------------------------------------------------ operations
    def _new_op(self, with_err):
        from eko.io.items import Operator

        a = self.rng.normal(size=SHAPE)
        if with_err:
            return Operator(a, self.rng.normal(size=SHAPE))
        return Operator(a)

    def apply(self, op):
        """Apply one symbol; returns the op-kind label used in mechanism keys. Raises Diverged."""
        from eko.io import access
        from eko.io.items import Target

        kind = op[0]
        m = self.model
        e = self.eko
        if kind in ("set", "sete"):
            k = op[1]
            o = self._new_op(kind == "sete")
            present = m.contains(k)
            if present:
                same = (m.get(k)[1] is not None) == (o.error is not None)
                label = "overwrite-same-format" if same else "overwrite-other-format"
                self.flags.add("overwrite")
                if not same:
                    self.hit("overwrite_other_format")
            else:
                label = "set-new"
            if m.readonly:
                label = "set-readonly"
                try:
                    e[k] = o
                except access.ReadOnlyOperator:
                    return label
                except Exception as ex:
                    raise Diverged(f"C37/set-readonly/wrong-exception", f"set on a read-only EKO raised {type(ex).__name__}: {ex}")
                raise Diverged("C37/set-readonly/accepted", "set on a read-only EKO did not raise")
            try:
                if len(op) > 2 and op[2] == "inventory":
                    e.operators[Target.from_ep(k)] = o
                else:
                    e[k] = o
            except Exception as ex:
                raise Diverged(f"C37/{label}/raises", f"{label} {k} raised {type(ex).__name__}: {str(ex)[:200]}")
            m.set(k, o.operator, o.error)
            self.flags.add("stored")
            return label
        if kind == "resave":
            # documented idiom (Inventory.__delitem__ docstring): mutate a loaded operator in place and
            # assign it again to the same key -> the store must hold (and persist) the mutated content
            k = op[1]
            label = "resave-in-place"
            if not m.contains(k) or m.readonly:
                return "resave-skipped"
            try:
                got = e[k]
                arr = got.operator
                if not arr.flags.writeable:
                    return "resave-skipped"
                arr *= -1.5
                arr[0, 0, 0, 0] += 1.0
                e[k] = got
            except Exception as ex:
                raise Diverged(f"C37/{label}/raises", f"{label} {k} raised {type(ex).__name__}: {str(ex)[:200]}")
            m.set(k, got.operator, got.error)
            self.hit("resave_in_place")
            self.flags.add("stored")
            return label
        if kind == "get":
            k = op[1]
            present = m.contains(k)
            label = "get-present" if present else "get-absent"
            try:
                if len(op) > 2 and op[2] == "inventory":
                    got = e.operators[Target.from_ep(k)]
                elif len(op) > 2 and op[2] == "context":
                    with e.operator(k) as got_:
                        got = got_
                    self.flags.add("unload")
                else:
                    got = e[k]
            except (KeyError, ValueError) as ex:
                if present:
                    raise Diverged(f"C37/get-present/raises", f"get {k} (present in the model) raised {type(ex).__name__}: {str(ex)[:200]}")
                self.hit("get_absent")
                return label
            except Exception as ex:
                raise Diverged(f"C37/{label}/raises-other", f"get {k} raised {type(ex).__name__}: {str(ex)[:200]}")
            if not present:
                raise Diverged("C37/get-absent/returned", f"get {k} (absent in the model) returned {type(got).__name__}")
            self.hit("value_reads")
            if got is None or sm.vdigest(got.operator, got.error) != m.get(k):
                raise Diverged("C37/get-present/value", f"get {k} returned other content than the last one stored (error present: model {m.get(k)[1] is not None}, real {getattr(got, 'error', None) is not None})")
            if "unload" in self.flags or "reopen" in self.flags:
                self.flags.add("read-after-unload")
            return label
        if kind == "del":
            k = op[1]
            label = "del-present" if m.contains(k) else "del-absent"
            if label == "del-absent":
                self.hit("del_absent")
            try:
                del e[k]
            except Exception as ex:
                raise Diverged(f"C37/{label}/raises", f"unload {k} raised {type(ex).__name__}: {str(ex)[:200]}")
            self.flags.add("unload")
            return label
        if kind == "items":
            try:
                seen = {}
                for ep, o in e.items():
                    if sm.key(ep) in seen:
                        raise Diverged("C37/items/duplicate", f"items() yields {ep} twice")
                    seen[sm.key(ep)] = sm.vdigest(o.operator, o.error)
            except Diverged:
                raise
            except Exception as ex:
                raise Diverged("C37/items/raises", f"items() raised {type(ex).__name__}: {str(ex)[:200]}")
            self.hit("items_checks")
            if seen != m.work:
                raise Diverged("C37/items/content", f"items() yields keys {sorted(seen)} / values differing from the model {sorted(m.work)}")
            self.flags.add("unload")
            return "items"
        if kind == "closed_reads":
            return self.closed_reads()
        if kind == "unload_all":
            try:
                e.unload()
            except Exception as ex:
                raise Diverged("C37/unload-all/raises", f"unload() raised {type(ex).__name__}: {ex}")
            self.flags.add("unload")
            return "unload-all"
        if kind == "empty":
            try:
                del e.operators
            except Exception as ex:
                raise Diverged("C37/del-inventory/raises", f"del eko.operators raised {type(ex).__name__}: {ex}")
            self.flags.add("unload")
            return "del-inventory"
        if kind == "cycle" and op[1] == "abandon" and m.persisted is not None and not m.readonly:
            # the session is dropped without close(): nothing of it may reach the archive
            try:
                self.eko = self.EKO.edit(self.path)
                m.reopen(False)
            except Exception as ex:
                raise Diverged("C37/reopen-after-abandon/raises", f"re-opening after an abandoned session raised {type(ex).__name__}: {str(ex)[:300]}")
            self.flags.add("reopen")
            self.hit("abandoned_sessions")
            return "reopen-after-abandon"
        if kind == "cycle":
            readonly = len(op) > 1 and op[1] == "read"
            label = "reopen-read" if readonly else "reopen-edit"
            try:
                e.close()
                m.close()
                self.eko = (self.EKO.read if readonly else self.EKO.edit)(self.path)
                m.reopen(readonly)
            except Exception as ex:
                raise Diverged(f"C37/{label}/raises", f"close + re-open raised {type(ex).__name__}: {str(ex)[:300]}")
            self.flags.add("reopen")
            self.hit("reopen_content")
            return label
        raise AssertionError(op)

    # ------------------------------------------------ reads through a closed handle
    def _probe_closed(self, old, snapshot, tag):
        """Reads through the closed handle `old`; `snapshot` = content when it was closed.

        Operator content (get / Inventory get / operator() / items()) must raise ClosedOperator whatever the
        cache holds.  Membership, iteration and approx only look at the in-memory key list (access.py: "mild"
        protection): they may raise ClosedOperator or answer consistently with the content at close.
        """
        from eko.io import access
        from eko.io.items import Target

        current = self.model.persisted or {}
        ref = sm.StoreModel()
        ref.work = dict(snapshot)
        for k in self.pool:
            for how in ("getitem", "inventory", "context"):
                self.hit("closed_handle_reads")
                try:
                    if how == "getitem":
                        got = old[k]
                    elif how == "inventory":
                        got = old.operators[Target.from_ep(k)]
                    else:
                        with old.operator(k) as got_:
                            got = got_
                except access.ClosedOperator:
                    continue
                except Exception as ex:
                    raise Diverged(f"C37/{tag}/get/wrong-exception", f"reading {k} ({how}) through a closed EKO raised {type(ex).__name__}: {str(ex)[:200]} instead of ClosedOperator")
                stale = got is not None and sm.key(k) in current and sm.vdigest(got.operator, got.error) != current[sm.key(k)]
                raise Diverged(f"C37/{tag}/get/returned", f"reading {k} ({how}) through a closed EKO returned {'STALE content (the archive now holds another value)' if stale else 'content'} instead of raising ClosedOperator")
        for k in self.pool:
            try:
                got = k in old
            except access.ClosedOperator:
                continue
            except Exception as ex:
                raise Diverged(f"C37/{tag}/contains/wrong-exception", f"({k} in closed eko) raised {type(ex).__name__}: {ex}")
            if got != (sm.key(k) in snapshot):
                raise Diverged(f"C37/{tag}/contains/inconsistent", f"({k} in closed eko) is {got}; content at close: {sorted(snapshot)}")
        try:
            it = [sm.key(ep) for ep in old]
            if len(set(it)) != len(it) or set(it) != set(snapshot):
                raise Diverged(f"C37/{tag}/iter/inconsistent", f"iterating the closed eko yields {sorted(it)}; content at close: {sorted(snapshot)}")
        except access.ClosedOperator:
            pass
        for q, kw in (((10.0000025, 4), {}), ((10.5, 5), dict(atol=1.0))):
            try:
                want, amb = ref.approx(q, **kw), False
            except sm.Ambiguous:
                want, amb = None, True
            try:
                got = old.approx(q, **kw)
            except access.ClosedOperator:
                continue
            except ValueError:
                if not amb:
                    raise Diverged(f"C37/{tag}/approx/inconsistent", f"approx({q},{kw}) on the closed eko raised although its content at close {sorted(snapshot)} has {want}")
                continue
            if amb or (got is None) != (want is None) or (got is not None and sm.key(got) != want):
                raise Diverged(f"C37/{tag}/approx/inconsistent", f"approx({q},{kw}) on the closed eko = {got}; content at close {sorted(snapshot)} gives {'ambiguous' if amb else want}")
        # items() last: it unloads what it manages to read
        try:
            n_yielded = sum(1 for _ in old.items())
        except access.ClosedOperator:
            pass
        except Exception as ex:
            raise Diverged(f"C37/{tag}/items/wrong-exception", f"items() on a closed EKO raised {type(ex).__name__}: {str(ex)[:200]}")
        else:
            if snapshot:
                raise Diverged(f"C37/{tag}/items/returned", f"items() on a closed EKO holding {sorted(snapshot)} yielded {n_yielded} operators instead of raising ClosedOperator")

    def closed_reads(self):
        """Close the handle, read through it; then let another handle rewrite the archive and read again."""
        m = self.model
        old = self.eko
        try:
            old.close()
            m.close()
        except Exception as ex:
            raise Diverged("C37/closed-handle/close-raises", f"close raised {type(ex).__name__}: {str(ex)[:200]}")
        snapshot = dict(m.persisted or {})
        self._probe_closed(old, snapshot, "closed-handle")
        # stale handle: B edits and overwrites, A (closed, cache possibly still loaded) is read again
        try:
            b = self.EKO.edit(self.path)
            m.reopen(False)
            if m.work:
                k = sorted(m.work)[int(self.rng.integers(len(m.work)))]
                o = self._new_op(bool(self.rng.integers(2)))
                b[k] = o
                m.set(k, o.operator, o.error)
                self.flags.add("overwrite")
            b.close()
            m.close()
        except Exception as ex:
            raise Diverged("C37/stale-handle/second-handle-raises", f"editing through a second handle raised {type(ex).__name__}: {str(ex)[:300]}")
        self._probe_closed(old, snapshot, "stale-handle")
        try:
            self.eko = self.EKO.edit(self.path)
            m.reopen(False)
        except Exception as ex:
            raise Diverged("C37/reopen-edit/raises", f"re-open after closed-handle reads raised {type(ex).__name__}: {str(ex)[:300]}")
        self.flags.add("reopen")
        self.hit("reopen_content")
        return "reopen-edit"

    # ------------------------------------------------ non-mutating observations
    def observe(self, label):
        e, m = self.eko, self.model
        for k in self.pool:
            self.hit("contains_checks")
            got = k in e
            if got != m.contains(k):
                raise Diverged(f"C37/contains/after-{label}", f"({k} in eko) is {got}, model says {m.contains(k)}")
        self.hit("iter_checks")
        try:
            it = [sm.key(ep) for ep in e]
        except Exception as ex:
            raise Diverged(f"C37/iter/after-{label}/raises", f"iteration raised {type(ex).__name__}: {ex}")
        if len(set(it)) != len(it) or set(it) != m.keys():
            raise Diverged(f"C37/iter/after-{label}", f"iteration yields {sorted(it)}, model holds {sorted(m.keys())}")
        probes = [
            ((10.0000025, 4), {}),
            ((10.0, 5), {}),
            ((10.0, 3), {}),
            ((10.00003, 4), {}),
            ((10.000005, 4), dict(rtol=0.0, atol=1e-10)),
            ((14.5, 4), dict(rtol=0.4, atol=0.0)),  # |q-k| = 4.5 > 0.4*|k| but < 0.4*|q|
            ((10.0, 4), dict(rtol=1e-8)),
            # loose user tolerances (as ekobox forwards them): the tolerance applies to the SCALE only,
            # nf has to match exactly - the store holds neighbouring nf at equal/nearby scales
            ((10.5, 5), dict(rtol=0.0, atol=1.0)),
            ((10.0, 3), dict(atol=1.0)),
            ((10.0, 6), dict(atol=2.5)),
            ((10.0, 5), dict(rtol=0.3, atol=0.0)),
            ((12.0, 4), dict(atol=3.0)),
            ((31.0, 5), dict(rtol=0.2, atol=1.5)),
            ((9.0, 4), dict(rtol=0.25)),
        ]
        for q, kw in probes:
            self.hit("approx_checks")
            if kw.get("atol", 0.0) >= 1.0 or kw.get("rtol", 0.0) >= 0.2:
                self.hit("approx_loose_tolerance")
            try:
                want = m.approx(q, **kw)
                amb = False
            except sm.Ambiguous:
                want, amb = None, True
                self.hit("approx_ambiguous")
            try:
                got = e.approx(q, **kw)
                graised = None
            except ValueError as ex:
                got, graised = None, ex
            except Exception as ex:
                raise Diverged(f"C37/approx/raises-other", f"approx({q},{kw}) raised {type(ex).__name__}: {ex}")
            if amb:
                if graised is None:
                    raise Diverged("C37/approx/ambiguous-not-refused", f"approx({q},{kw}) returned {got} although {sorted(m.keys())} holds several points within tolerance")
            elif graised is not None:
                raise Diverged("C37/approx/unexpected-error", f"approx({q},{kw}) raised {graised} but the model finds {want}")
            elif (got is None) != (want is None) or (got is not None and sm.key(got) != want):
                raise Diverged(f"C37/approx/result", f"approx({q},{kw}) = {got}, model {want} (keys {sorted(m.keys())})")

    def full_content(self, label):
        """Read every key of the model from the real store and compare (mutating: loads)."""
        e, m = self.eko, self.model
        it = [sm.key(ep) for ep in e]
        if len(set(it)) != len(it) or set(it) != m.keys():
            raise Diverged(f"C37/{label}/key-set", f"store holds {sorted(it)}, model {sorted(m.keys())}")
        for k, dig in m.work.items():
            try:
                o = e[k]
            except Exception as ex:
                raise Diverged(f"C37/{label}/read-raises", f"reading {k} raised {type(ex).__name__}: {str(ex)[:200]}")
            if sm.vdigest(o.operator, o.error) != dig:
                raise Diverged(f"C37/{label}/value", f"{k}: content differs from the last value stored")

    def finish(self):
        """Close, re-read the archive, compare with the persisted model."""
        self.eko.close()
        self.model.close()
        self.hit("final_content")
        with self.EKO.read(self.path) as e:
            self.eko = e
            self.model.reopen(True)
            self.full_content("final-content")

    def abandon(self):
        try:
            if self.eko.access.open:
                self.eko.access.readonly = True  # never dump a diverged store
                self.eko.close()
        except Exception:
            pass


def run_history(work, rng, history, pool):
    """Returns (hits, flags, divergence or None, steps_done)."""
    try:
        s = Session(work, rng, pool)
    except Exception as ex:
        return {}, set(), ("C37/create/raises", f"creating the EKO raised {type(ex).__name__}: {ex}"), 0
    done = 0
    div = None
    try:
        s.observe("create")
        for op in history:
            label = s.apply(op)
            s.hit("steps")
            done += 1
            s.observe(label)
            if label.startswith("reopen"):
                s.full_content(label + "-content") if rng.random() < 0.5 else None
        s.finish()
    except Diverged as d:
        div = (d.key, d.what)
        s.abandon()
    except Exception as ex:
        div = ("C37/other/raises", f"{type(ex).__name__}: {ex} {traceback.format_exc()[-300:]}")
        s.abandon()
    try:
        s.path.unlink(missing_ok=True)
    except Exception:
        pass
    return s.hits, s.flags, div, done


def symbols():
    syms = []
    for k in KEYS3:
        syms += [("set", k), ("sete", k), ("get", k), ("del", k)]
    syms += [("items",), ("cycle", "edit"), ("closed_reads",)]
    return syms


def random_history(rng):
    ulp = (float(np.nextafter(10.0, math.inf)), 4)
    npk = (np.float64(30.0), np.int64(6))
    pool = KEYS3 + [ulp, npk]
    n = int(rng.integers(5, 31))
    hist = []
    for _ in range(n):
        r = rng.random()
        k = pool[int(rng.integers(len(pool)))]
        if r < 0.05:
            hist.append(("resave", k))
        elif r < 0.25:
            hist.append(("set" if rng.random() < 0.5 else "sete", k) + (("inventory",) if rng.random() < 0.15 else ()))
        elif r < 0.50:
            how = rng.random()
            hist.append(("get", k) + (("inventory",) if how < 0.15 else ("context",) if how < 0.3 else ()))
        elif r < 0.68:
            hist.append(("del", k))
        elif r < 0.76:
            hist.append(("items",))
        elif r < 0.79:
            hist.append(("closed_reads",))
        elif r < 0.81:
            hist.append(("unload_all",))
        elif r < 0.84:
            hist.append(("empty",))
        elif r < 0.92:
            hist.append(("cycle", "edit"))
        elif r < 0.95:
            hist.append(("cycle", "abandon"))
        else:
            # a read-only interlude: re-open read-only, poke, then back to edit
            hist.append(("cycle", "read"))
            hist.append(("get", k))
            hist.append(("set", k))
            hist.append(("cycle", "edit"))
    return hist, pool


def _batch(item):
    seed, what, payload = item
    work = scratch.mkdtemp()
    old_tmp = tempfile.tempdir
    tempfile.tempdir = work
    out = []
    try:
        if what == "exh":
            for hidx, hist in payload:
                rng = np.random.default_rng([seed, 37, 1, hidx])
                hits, flags, div, done = run_history(work, rng, hist, KEYS3 + [(10.0, 3)])
                out.append((("exh", tuple(hist)), hits, sorted(flags), div, done, hist))
        else:
            for hidx in payload:
                rng = np.random.default_rng([seed, 37, 2, hidx])
                hist, pool = random_history(rng)
                hits, flags, div, done = run_history(work, rng, hist, pool + [(10.0, 3)])
                out.append((("rnd", hidx), hits, sorted(flags), div, done, hist))
    finally:
        tempfile.tempdir = old_tmp
        shutil.rmtree(work, ignore_errors=True)
    return out


def _register(ck, res, states):
    for key, hits, flags, div, done, hist in res:
        fl = set(flags)
        nontrivial = "stored" in fl and bool(fl & {"unload", "overwrite", "reopen", "read-after-unload"})
        ck.case(key if key[0] == "rnd" else ("exh", repr(key[1])), nontrivial=nontrivial,
                sample=dict(kind=key[0], history=[list(map(str, h)) for h in hist[:12]], length=len(hist), flags=sorted(fl)))
        for k, v in hits.items():
            ck.hit(k, v)
        if div is None:
            ck.ok()
        else:
            ck.violation(div[0], div[1], dict(history=[list(h) for h in hist], failed_after_steps=done, kind=key[0], index=key[1] if key[0] == "rnd" else None, seed=ck.seed))


def run(ck):
    L = ck.n(3, 4)
    syms = symbols()
    hists = list(itertools.product(syms, repeat=L))
    nrand = ck.n(300, 10000)
    bs = ck.n(60, 200)
    items = []
    for i in range(0, len(hists), bs):
        items.append((ck.seed, "exh", [(j, list(h)) for j, h in enumerate(hists[i : i + bs], start=i)]))
    for i in range(0, nrand, 25):
        items.append((ck.seed, "rnd", list(range(i, min(nrand, i + 25)))))
    n_exh_done = 0
    for it, st, val in jobs.pmap(_batch, items, timeout=ck.n(1800, 4 * 3600)):
        if st != "ok":
            ck.case(("job", it[1], str(it[2][0])[:40]), nontrivial=False)
            ck.inconclusive(f"worker {st}: {str(val)[:300]}")
            continue
        _register(ck, val, None)
        if it[1] == "exh":
            n_exh_done += len(val)
    ck.note(exhaustive_bound=f"all {len(hists)} histories of length {L} over {len(syms)} symbols (every shorter history is a checked prefix)",
            exhaustive=bool(n_exh_done == len(hists)), exhaustive_histories_run=n_exh_done, random_histories=nrand)


def replay(ck, rp):
    w = rp["witness"]
    work = scratch.mkdtemp()
    old_tmp = tempfile.tempdir
    tempfile.tempdir = work
    try:
        hist = [tuple(tuple(x) if isinstance(x, list) else x for x in h) for h in w["history"]]
        hits, flags, div, done = run_history(work, np.random.default_rng(0), hist, KEYS3 + [(10.0, 3)])
    finally:
        tempfile.tempdir = old_tmp
        shutil.rmtree(work, ignore_errors=True)
    ck.case(("replay",), nontrivial=True)
    for k, v in hits.items():
        ck.hit(k, v)
    if div:
        ck.violation(div[0], div[1], w)
    else:
        ck.ok()
    ck.min_nontrivial = 0
    ck.meta = dict(ck.meta, required_hits=[])
