"""C01: an EKO whose target equals its initial point is the identity operator."""

import numpy as np

from .. import jobs, workload as w

META = dict(
    level="exploration",
    design_ref="DESIGN.md §5 C01",
    technique="end-to-end monitor: real eko.solve per configuration of a covering array, stored operator at the coincident target read back and compared with the identity/decoupled-photon tensor",
    level_text="Runs the real solver over a 2-wise (quick) / 3-wise (thorough) covering array of orders x QED x methods x pol/time-like x nf0 x grids x degree x scale-variation x wall layout and checks the stored 14xnx14xn tensor at (mu0, nf0) entry by entry.",
    level_note="Tolerance 1e-14 absolute (flavour blow-up sums normalised weights: 1-2 ulp on correct code); refusals (NotImplementedError/ValueError) are skipped and counted; other failures belong to C04 and make the case inconclusive here.",
    rule="case = one runcard configuration; distinct by full configuration tuple; non-trivial = the solver returned an operator for the coincident target (identity actually compared)",
    min_nontrivial=20,
    required_hits=["identity_tensor_compared"],
    max_inconclusive_frac=0.25,
)

PIDS = [22, -6, -5, -4, -3, -2, -1, 21, 1, 2, 3, 4, 5, 6]
TOL = 1e-14


def expected(n, qed):
    e = np.zeros((14, n, 14, n))
    for a in range(14):
        if PIDS[a] == 22 and not qed:
            continue
        e[a, :, a, :] = np.eye(n)
    return e


def make_cards(cfg):
    n = cfg["npts"]
    xmin = cfg["xmin"]
    if cfg["is_log"]:
        xg = np.geomspace(xmin, 1.0, n)
    else:
        xg = np.linspace(xmin, 1.0, n)
    deg = min(cfg["degree"], n - 1)
    mu0 = cfg["mu0"]
    # walls: layout says how mu0 sits w.r.t. the heavy-quark matching scales
    nf0 = cfg["nf0"]
    if cfg["layout"] == "consistent":
        masses = [mu0 * (0.5 if nf0 >= 4 else 2.0), mu0 * (0.7 if nf0 >= 5 else 3.0), mu0 * (0.9 if nf0 >= 6 else 50.0)]
    elif cfg["layout"] == "on-wall":
        masses = [mu0 * 0.5, mu0 * 3.0, mu0 * 50.0]
        if nf0 >= 4:
            masses[nf0 - 4] = mu0  # mu0 exactly on the wall of the heaviest active quark
            for i in range(nf0 - 4):
                masses[i] = mu0 * (0.3 + 0.1 * i)
        else:
            masses[0] = mu0
    else:  # "inconsistent": nf0 does not follow the default flow
        masses = [mu0 * 2.0, mu0 * 3.0, mu0 * 50.0] if nf0 >= 4 else [mu0 * 0.3, mu0 * 0.5, mu0 * 50.0]
    th = w.raw_theory(
        order=(cfg["qcd"], cfg["qed"]),
        alphas=cfg["alphas"],
        ref=(91.2, 5),
        masses=masses,
        ratios=cfg["ratios"],
        xif=cfg["xif"],
        em_running=cfg["em_running"],
        n3lo_ad_variation=cfg["n3lo_var"],
        use_fhmruvv=cfg["fhmruvv"],
    )
    mugrid = [(mu0, nf0)]
    if cfg["second"]:
        mugrid = [(mu0 * 1.7, nf0), (mu0, nf0)]
    op = w.raw_operator(
        init=(mu0, nf0),
        mugrid=mugrid,
        xgrid=xg,
        method=cfg["method"],
        iterations=cfg["iters"],
        degree=deg,
        is_log=cfg["is_log"],
        scvar=cfg["scvar"],
        inversion=cfg["inversion"],
        polarized=cfg["pt"] == "pol",
        time_like=cfg["pt"] == "tl",
    )
    return th, op


def run_case(cfg):
    th, op = make_cards(cfg)
    try:
        res = w.solve(th, op)
    except (NotImplementedError, ValueError) as e:
        return dict(status="refused", msg=f"{type(e).__name__}: {str(e)[:120]}")
    except Exception as e:
        import traceback

        return dict(status="crash", msg=f"{type(e).__name__}: {str(e)[:200]}", tb=traceback.format_exc()[-800:])
    mu0, nf0 = cfg["mu0"], cfg["nf0"]
    key = None
    for k in res:
        if k[1] == nf0 and k[0] == mu0**2:
            key = k
    if key is None:
        return dict(status="missing", keys=[list(k) for k in res])
    o, err = res[key]
    n = o.shape[1]
    exp = expected(n, cfg["qed"] > 0)
    dev = np.abs(o - exp)
    out = dict(status="ok", n=n, maxdev=float(dev.max()), errmax=float(np.abs(err).max()) if err is not None else None, shape=list(o.shape))
    if dev.max() > TOL:
        idx = np.unravel_index(np.argmax(dev), dev.shape)
        out["worst"] = dict(
            out_pid=PIDS[idx[0]], out_x=int(idx[1]), in_pid=PIDS[idx[2]], in_x=int(idx[3]), got=float(o[idx]), want=float(exp[idx])
        )
        # which channels are wrong
        bad = sorted({(PIDS[a], PIDS[c]) for a, b, c, d in zip(*np.where(dev > TOL))})
        out["bad_channels"] = bad[:12]
    return out


def configs(ck):
    rng = ck.rng
    factors = dict(
        qcd=[1, 2, 3, 4],
        qed=[0, 1, 2],
        method=w.METHODS,
        pt=["unpol", "pol", "tl"],
        nf0=[3, 4, 5, 6],
        npts=[2, 3, 5, 8],
        degree=[1, 2, 3, 4],
        scvar=[None, "exponentiated", "expanded"],
        layout=["consistent", "on-wall", "inconsistent"],
        is_log=[True, False],
        second=[False, True],
    )
    rows = w.covering_array(factors, strength=2 if ck.quick else 3, rng=rng, extra_random=ck.n(30, 300))
    out = []
    for r in rows:
        r = dict(r)
        r["xif"] = 1.0 if r["scvar"] == "expanded" else (float(rng.choice([0.5, 1.0, 2.0, 1.3])) if r["scvar"] else 1.0)
        r["mu0"] = float(rng.choice([1.3, 1.65, 2.0, 4.92, 10.0, 50.0]))
        r["xmin"] = float(rng.choice([1e-5, 1e-3, 1e-2, 0.1]))
        r["alphas"] = float(rng.uniform(0.1, 0.125))
        r["ratios"] = [float(x) for x in rng.choice([0.5, 1.0, 2.0], size=3)] if r["layout"] != "on-wall" else [1.0, 1.0, 1.0]
        r["iters"] = int(rng.integers(1, 4))
        r["em_running"] = bool(rng.integers(2)) if r["qed"] else False
        r["inversion"] = [None, "exact", "expanded"][int(rng.integers(3))]
        r["n3lo_var"] = [int(x) for x in rng.integers(0, 3, size=7)] if r["qcd"] == 4 and rng.integers(2) else [0] * 7
        r["fhmruvv"] = bool(rng.integers(2)) if r["qcd"] == 4 else True
        # a second, really evolved target only where it is cheap
        r["second"] = bool(r["second"] and r["qcd"] <= 2 and r["qed"] == 0 and r["npts"] <= 3 and r["pt"] == "unpol")
        out.append(r)
    return out


def classify(cfg, res):
    bits = ["qed" if cfg["qed"] else "qcd", f"nf{cfg['nf0']}"]
    bad = res.get("bad_channels", [])
    if any(22 in b for b in bad):
        bits.append("photon")
    if any(abs(p) > 3 and abs(p) <= 6 and abs(p) > cfg["nf0"] for b in bad for p in b):
        bits.append("intrinsic")
    if cfg["scvar"]:
        bits.append(cfg["scvar"])
    return "C01/" + "/".join(bits)


def run(ck):
    cfgs = configs(ck)
    if ck.replay:
        cfgs = [ck.replay["witness"]["cfg"]]
    for cfg, st, res in jobs.pmap(run_case, cfgs, timeout=ck.n(1500, 7200)):
        key = tuple(sorted((k, str(v)) for k, v in cfg.items()))
        if st != "ok":
            ck.case(key, nontrivial=False)
            ck.inconclusive(f"job {st}: {str(res)[:100]}")
            continue
        if res["status"] == "refused":
            ck.case(key, nontrivial=False)
            ck.hit("refused")
            continue
        if res["status"] == "crash":
            ck.case(key, nontrivial=False)
            ck.hit("crash_left_to_C04")
            ck.inconclusive("solver crashed (C04's business): " + res["msg"][:80])
            continue
        if res["status"] == "missing":
            ck.case(key)
            ck.violation("C01/target-missing", "coincident target not stored under (mu0^2, nf0)", dict(cfg=cfg, res=res))
            continue
        ck.hit("identity_tensor_compared")
        ck.case(key, nontrivial=True, sample=dict(cfg={k: cfg[k] for k in ("qcd", "qed", "method", "pt", "nf0", "npts", "scvar", "layout")}, maxdev=res["maxdev"]))
        if res["maxdev"] > TOL or (res["errmax"] or 0.0) > 0.0:
            what = f"operator at (mu0,nf0) deviates from identity by {res['maxdev']:.3g} (error tensor max {res['errmax']})"
            ck.violation(classify(cfg, res), what, dict(cfg=cfg, res=res))
        else:
            ck.ok()
