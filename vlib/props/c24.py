"""C24: harmonic sums equal their definitions, satisfy their recurrences, are real-analytic;
Mellin transforms of log-/g-functions equal their defining integrals; cache order independence."""

import numpy as np

from .. import jobs

META = dict(
    level="exploration",
    design_ref="DESIGN.md §5 C24",
    technique="reference-model monitor: exact Fraction nested sums at integer N, mpmath polygamma/quad/Beta-derivative definitions and definition-written recurrences at complex N, conjugation, permutation replay of the shared cache",
    level_text="Every public function of ekore.harmonics is executed on integer N (exact rational oracle) and on random complex N in the Talbot range (recurrence with the summand written from the definition, conjugation, defining Mellin integrals); sampled, not exhaustive, in N.",
    level_note="Trusted base: mpmath (polygamma, polylog, quad, beta) and Python Fractions; the analytic continuations built on the g-functions are numerical fits, so they are compared at the accuracy correct code delivers (fit accuracy, a few 1e-7; tolerance 3e-6), the closed forms at rounding level.",
    rule="cases = (function, N, parity flag); distinct by (function, N rounded, flag); non-trivial = reference value non-zero and N not a repeat; integer N 1..30 (quick) / 1..60 (thorough), complex N with Re in [0.5,50], |Im|<=60; cache cases = (N, flag, permutation)",
    min_nontrivial=500,
    required_hits=["integer_exact", "recurrence", "conjugation", "mellin_g", "mellin_log", "cache_order", "single_complex", "polygamma"],
    max_inconclusive_frac=0.05,
)
META["level_text"] += " Cache histories also follow ekore's calling convention (parity-free keys without a flag); the parity flag is also passed as a NumPy bool."

# tolerances (absolute, times max(1,|reference|) and the growth of the parity factor)
TOL_EXACT = 2e-13  # closed forms in polygammas
TOL_FIT = 3e-6  # sums built on the fitted g-functions (measured <=5e-7; repo tests ask 1e-5/1e-6)
TOL_G = {"g3": 5e-6, "g4": 2e-6, "g5": 2e-6, "g6": 2e-6, "g8": 2e-6, "g18": 2e-6, "g19": 2e-6, "g21": 3e-6, "g22": 2e-6}
TOL_CONJ = 1e-13
TOL_CACHE = 1e-13

NESTED = ["S21", "S2m1", "Sm21", "Sm2m1", "S31", "Sm31", "Sm22", "S211", "Sm211"]
SINGLE_P = ["S1", "S2", "S3", "S4", "S5"]
SINGLE_M = ["Sm1", "Sm2", "Sm3", "Sm4", "Sm5"]
# cache keys whose value does not involve the parity factor
PARITY_FREE = ["S1", "S2", "S3", "S4", "S5", "S1h", "S2h", "S3h", "S1mh", "S2mh", "S3mh", "S1ph", "S2ph", "S3ph", "S1p2", "g3", "g3p2", "S21", "S31", "S211"]


def _mp():
    import mpmath as mp

    mp.mp.dps = 30
    return mp


def _eta(N, flag):
    if flag is None:
        return (-1) ** N
    return 1 if flag else -1


def _direct(name, N, flag, inp):
    """Call the public function ``name`` with inputs taken from ``inp`` (dict of lower sums)."""
    from ekore import harmonics as h

    if name in SINGLE_P:
        return getattr(h, name)(N)
    if name in SINGLE_M:
        k = name[2]
        return getattr(h, name)(N, inp["S" + k], inp["S" + k + "mh"], inp["S" + k + "h"], flag)
    if name == "S21":
        return h.S21(N, inp["S1"], inp["S2"])
    if name == "Sm21":
        return h.Sm21(N, inp["S1"], inp["Sm1"], flag)
    if name == "S2m1":
        return h.S2m1(N, inp["S2"], inp["Sm1"], inp["Sm2"], flag)
    if name == "Sm2m1":
        return h.Sm2m1(N, inp["S1"], inp["S2"], inp["Sm2"])
    if name == "S31":
        return h.S31(N, inp["S1"], inp["S2"], inp["S3"], inp["S4"])
    if name == "Sm31":
        return h.Sm31(N, inp["S1"], inp["Sm1"], inp["Sm2"], flag)
    if name == "Sm22":
        return h.Sm22(N, inp["S1"], inp["S2"], inp["Sm2"], inp["Sm31"], flag)
    if name == "S211":
        return h.S211(N, inp["S1"], inp["S2"], inp["S3"])
    if name == "Sm211":
        return h.Sm211(N, inp["S1"], inp["S2"], inp["Sm1"], flag)
    raise KeyError(name)


_BASE = {}


def _oracle_base(N, mp, H):
    """flag-independent part: S_k at N, N/2, (N-1)/2 (mpmath), memoised per worker."""
    if N not in _BASE:
        if len(_BASE) > 64:
            _BASE.clear()
        Nm = mp.mpmathify(N)
        _BASE[N] = [(H.S_single(k, Nm), H.S_single(k, Nm / 2), H.S_single(k, (Nm - 1) / 2)) for k in range(1, 6)]
    return _BASE[N]


def _oracle_inputs(N, flag, mp, H):
    """Lower-weight inputs from the oracle (mpmath), as python complex."""
    eta = mp.mpmathify(_eta(N, flag))
    inp = {}
    for k, (s, sh, smh) in enumerate(_oracle_base(N, mp, H), start=1):
        inp[f"S{k}"] = complex(s)
        inp[f"S{k}h"] = complex(sh)
        inp[f"S{k}mh"] = complex(smh)
        # S_{-k} from the definition: split into even/odd j; linear in eta
        ev = sh / 2 ** (k - 1) - s
        od = smh / 2 ** (k - 1) - s
        inp[f"Sm{k}"] = complex((1 + eta) / 2 * ev + (1 - eta) / 2 * od)
    return inp


# --------------------------------------------------------------------- jobs
def job_integer(args):
    """All sums at integer N against exact rationals, via direct calls and via the cache."""
    Ns, Nmax = args
    from vlib.oracles import harmonic as H
    from ekore.harmonics import cache as c

    tab = H.table(Nmax)
    out = []
    for N in Ns:
        # the parity flag as a Python bool and as the NumPy bool that `Ns % 2 == 0` on an integer array gives
        for flag in (None, N % 2 == 0, np.bool_(N % 2 == 0)):
            n = complex(N)
            ref = {k: float(v[N]) for k, v in tab.items()}
            # inputs for direct calls: exact values at N, code-independent values at N/2, (N-1)/2
            inp = dict(ref)
            import mpmath as mp

            mp.mp.dps = 30
            for k in range(1, 6):
                inp[f"S{k}h"] = complex(H.S_single(k, mp.mpf(N) / 2))
                inp[f"S{k}mh"] = complex(H.S_single(k, mp.mpf(N - 1) / 2))
            ca = c.reset()
            for name in H.SUMS:
                for via in ("direct", "cache"):
                    try:
                        if via == "direct":
                            v = _direct(name, n, flag, inp)
                        else:
                            v = c.get(getattr(c, name), ca, n, flag)
                        out.append((name, N, _fl(flag), via, complex(v), ref[name], None))
                    except Exception as e:  # noqa
                        out.append((name, N, _fl(flag), via, None, ref[name], f"{type(e).__name__}: {e}"))
    return out


def job_complex(args):
    """Complex-N monitors for one point: singles, recurrences, conjugation."""
    N, do_int = args
    mp = _mp()
    from vlib.oracles import harmonic as H
    from ekore.harmonics import cache as c

    out = []  # (monitor, name, flag, err, scale, tol, info)
    N1 = N + 1
    vals = {}
    for flag in (True, False, None):
        for n_ in (N, N1, N.conjugate()):
            ca = c.reset()
            for name in H.SUMS:
                try:
                    vals[(name, flag, n_)] = complex(c.get(getattr(c, name), ca, n_, flag))
                except Exception as e:  # noqa
                    vals[(name, flag, n_)] = e
    bad = [(k, v) for k, v in vals.items() if isinstance(v, Exception)]
    for k, v in bad[:3]:
        out.append(("raises", k[0], k[1], float("inf"), 1.0, 0.0, dict(N=k[2], error=repr(v))))
    if bad:
        return N, out
    for flag in (True, False, None):
        eta = _eta(N, flag)
        grow = max(1.0, abs(eta))
        inp = _oracle_inputs(N, flag, mp, H)
        # ---- single sums against polygamma / definition-split
        for name in SINGLE_P + SINGLE_M:
            ref = inp[name]
            v = vals[(name, flag, N)]
            out.append(("single_complex", name, flag, abs(v - ref), max(1.0, abs(ref)) * grow, TOL_EXACT * 50, dict(code=v, ref=ref)))
        if do_int and flag is not None:
            # independent integral representation of S_{-k}
            for k in (1, 3, 5):
                ref, qerr = H.Sm_single(k, N, eta, error=True)
                ref = complex(ref)
                if not (float(qerr) < 1e-13):
                    continue  # the quadrature did not converge to the needed accuracy: no verdict from it
                v = vals[(f"Sm{k}", flag, N)]
                out.append(("single_integral", f"Sm{k}", flag, abs(v - ref), max(1.0, abs(ref)), 1e-11, dict(code=v, ref=ref)))
        # ---- one-step recurrence S(N+1; flipped parity) - S(N; parity) = term(N+1)
        nflag = None if flag is None else (not flag)
        eta1 = _eta(N1, nflag)
        inp1 = _oracle_inputs(N1, nflag, mp, H)
        s11 = (inp1["S1"] ** 2 + inp1["S2"]) / 2  # S_{1,1}(N+1)
        inner = {
            "S21": inp1["S1"],
            "Sm21": inp1["S1"],
            "S31": inp1["S1"],
            "Sm31": inp1["S1"],
            "S2m1": inp1["Sm1"],
            "Sm2m1": inp1["Sm1"],
            "Sm22": inp1["S2"],
            "S211": s11,
            "Sm211": s11,
        }
        for name in SINGLE_P + SINGLE_M + NESTED:
            if name == "Sm2m1" and flag is None:
                # the summand carries (-1)^(2j); with the generic continuation eta^2 != 1 off the
                # integers, so no recurrence is defined there (integer N is covered exactly)
                continue
            idx = H.SUMS[name]
            a = idx[0]
            sgn = eta1 if a < 0 else 1.0
            term = sgn / N1 ** abs(a) * (inner[name] if len(idx) > 1 else 1.0)
            lhs = vals[(name, nflag, N1)] - vals[(name, flag, N)]
            fit = name in NESTED
            sc = max(1.0, abs(vals[(name, flag, N)])) * max(1.0, abs(eta1), abs(eta))
            out.append(("recurrence", name, flag, abs(lhs - term), sc, (2 * TOL_FIT) if fit else 1e-11, dict(lhs=lhs, term=complex(term))))
        # ---- conjugation (definite parity only: (-1)^N itself is not real-analytic)
        if flag is not None:
            for name in H.SUMS:
                a, b = vals[(name, flag, N)], vals[(name, flag, N.conjugate())]
                out.append(("conjugation", name, flag, abs(b - a.conjugate()), max(1.0, abs(a)), TOL_CONJ, dict(at_N=a, at_conjN=b)))
    return N, out


def job_mellin_g(args):
    """g-functions against mpmath.quad of their defining integrals."""
    N = args
    mp = _mp()
    from vlib.oracles import harmonic as H
    from ekore.harmonics import g_functions as gf

    S1, S2, S3 = (complex(H.S_single(k, N)) for k in (1, 2, 3))
    code = dict(
        g3=lambda: gf.mellin_g3(N, S1),
        g4=lambda: gf.mellin_g4(N),
        g5=lambda: gf.mellin_g5(N, S1, S2),
        g6=lambda: gf.mellin_g6(N, S1),
        g8=lambda: gf.mellin_g8(N, S1, S2),
        g18=lambda: gf.mellin_g18(N, S1, S2),
        g19=lambda: gf.mellin_g19(N, S1),
        g21=lambda: gf.mellin_g21(N, S1, S2, S3),
        g22=lambda: gf.mellin_g22(N, S1, S2, S3),
    )
    out = []
    for g, (_, f) in H.g_integrands().items():
        # g3 is defined with x^(N-1) (Pegasus), the others with x^N (Bluemlein)
        M = N if g == "g3" else N + 1
        ref, err = mp.quad(lambda x: x ** (mp.mpmathify(M) - 1) * f(x), [0, mp.mpf(1) / 4, mp.mpf(3) / 4, 1], error=True)
        try:
            v = complex(code[g]())
        except Exception as e:  # noqa
            out.append((g, float("inf"), 1.0, 0.0, float(err), dict(error=repr(e))))
            continue
        out.append((g, abs(v - complex(ref)), max(1.0, abs(complex(ref))) if False else 1.0, TOL_G[g], float(err), dict(code=v, ref=complex(ref))))
    return N, out


LOGF = {
    # name: (m, k, n_harmonics)   M[(1-x)^m ln^k(1-x)](N)
    "lm11": (0, 1, 1),
    "lm12": (0, 2, 2),
    "lm13": (0, 3, 3),
    "lm14": (0, 4, 4),
    "lm15": (0, 5, 5),
    "lm11m1": (1, 1, 1),
    "lm12m1": (1, 2, 2),
    "lm13m1": (1, 3, 3),
    "lm14m1": (1, 4, 4),
    "lm15m1": (1, 5, 5),
    "lm11m2": (2, 1, 1),
    "lm12m2": (2, 2, 2),
    "lm13m2": (2, 3, 3),
    "lm14m2": (2, 4, 4),
}


def job_mellin_log(args):
    """log_functions against d^k/de^k B(N, m+1+e) (and mpmath.quad on a sample)."""
    N, with_quad = args
    import mpmath as mp

    mp.mp.dps = 50
    from vlib.oracles import harmonic as H
    from ekore.harmonics import log_functions as lf

    S = [complex(H.S_single(k, N)) for k in range(1, 6)]
    out = []
    Nm = mp.mpmathify(N)
    for name, (m, k, nh) in LOGF.items():
        ref = complex(mp.diff(lambda e: mp.beta(Nm, m + 1 + e), 0, k))
        if with_quad:
            q, err = mp.quad(lambda x: x ** (Nm - 1) * (1 - x) ** m * mp.log(1 - x) ** k, [0, mp.mpf(1) / 2, 1], error=True)
            if abs(complex(q) - ref) > 1e-12 * max(1.0, abs(ref)) + 10 * float(err):
                out.append((name, None, None, None, dict(oracle_disagree=True, beta_diff=ref, quad=complex(q), quad_err=float(err))))
                continue
        try:
            v = complex(getattr(lf, name)(N, *S[:nh]))
        except Exception as e:  # noqa
            out.append((name, float("inf"), 1.0, 0.0, dict(error=repr(e))))
            continue
        # the closed forms add terms of size ~S1^k/N with alternating signs: scale by that
        sc = max(abs(ref), (abs(S[0]) + 1) ** k / abs(N) * 1e-3, 1e-300)
        out.append((name, abs(v - ref), sc, 1e-9, dict(code=v, ref=ref)))
    return N, out


def job_cache(args):
    """Fresh cache + random lookup order == direct (single-key fresh cache) evaluation."""
    N, flag, perms = args[:3]
    mixed = len(args) > 3 and args[3]
    from ekore.harmonics import cache as c

    nkeys = c.CACHE_SIZE
    # ekore's own usage: sums that do not depend on the parity are fetched without a flag
    # (`c.get(c.S21, cache, n)`), the alternating ones with it
    indep = {getattr(c, k) for k in PARITY_FREE}

    def fetch(k, ca):
        if mixed and k in indep:
            return c.get(int(k), ca, N)
        return c.get(int(k), ca, N, flag)

    direct = np.empty(nkeys, complex)
    for k in range(nkeys):
        direct[k] = c.get(k, c.reset(), N, flag)
    out = []
    for perm in perms:
        ca = c.reset()
        got = np.empty(nkeys, complex)
        for k in perm:
            got[k] = fetch(int(k), ca)
        # second lookup must return the stored value
        again = np.array([fetch(k, ca) for k in range(nkeys)])
        err = np.abs(got - direct) / np.maximum(1.0, np.abs(direct))
        err2 = np.abs(again - got) / np.maximum(1.0, np.abs(direct))
        w = int(np.argmax(err))
        out.append((float(err.max()), w, float(err2.max()), [int(x) for x in perm], complex(got[w]), complex(direct[w])))
    return (N, flag), out, direct


def job_cache_oracle(args):
    """Cache-only keys (shifted arguments) against the oracle."""
    N, flag = args
    mp = _mp()
    from vlib.oracles import harmonic as H
    from ekore.harmonics import cache as c

    Nm = mp.mpmathify(N)
    li2 = lambda x: mp.polylog(2, x)
    def g3(M):
        val, err = mp.quad(lambda x: x ** (M - 1) * li2(x) / (1 + x), [0, mp.mpf(1) / 4, mp.mpf(3) / 4, 1], error=True)
        return val if float(err) < 1e-9 else None

    ref = {
        "S1h": H.S_single(1, Nm / 2),
        "S2h": H.S_single(2, Nm / 2),
        "S3h": H.S_single(3, Nm / 2),
        "S1mh": H.S_single(1, (Nm - 1) / 2),
        "S2mh": H.S_single(2, (Nm - 1) / 2),
        "S3mh": H.S_single(3, (Nm - 1) / 2),
        "S1ph": H.S_single(1, (Nm + 1) / 2),
        "S2ph": H.S_single(2, (Nm + 1) / 2),
        "S3ph": H.S_single(3, (Nm + 1) / 2),
        "S1p2": H.S_single(1, Nm + 2),
        "g3": g3(Nm),
        "g3p2": g3(Nm + 2),
    }
    out = []
    ca = c.reset()
    for name, r in ref.items():
        v = complex(c.get(getattr(c, name), ca, N, flag))
        if r is None:
            continue  # oscillatory integral not resolved by the quadrature: no verdict
        r = complex(r)
        tol = TOL_G["g3"] if name.startswith("g3") else TOL_EXACT * 50
        out.append((name, abs(v - r), max(1.0, abs(r)), tol, dict(code=v, ref=r)))
    return (N, flag), out


def job_polygamma(args):
    zs = args
    mp = _mp()
    from ekore.harmonics.polygamma import cern_polygamma

    out = []
    for z in zs:
        for k in range(5):
            r = complex(mp.polygamma(k, mp.mpmathify(z)))
            try:
                v = complex(cern_polygamma(z, k))
            except Exception as e:  # noqa
                out.append((z, k, float("inf"), repr(e), r))
                continue
            out.append((z, k, abs(v - r) / max(abs(r), 1e-300), v, r))
    return out


# ---------------------------------------------------------------------- run
def _rand_N(rng, n):
    """Complex N in the Talbot range; a share close to the real axis and at small/large Re."""
    re = np.where(rng.random(n) < 0.3, rng.uniform(0.5, 3.0, n), rng.uniform(0.5, 50.0, n))
    im = rng.uniform(-60, 60, n) * rng.choice([1.0, 1.0, 0.1, 1e-3], n)
    return [complex(a, b) for a, b in zip(re, im)]


def _flagname(f):
    if isinstance(f, str):
        return f
    return {True: "singlet", False: "nonsinglet", None: "generic"}[f]


def _fl(f):
    """JSON-able flag that keeps the NumPy-bool variant apart."""
    if isinstance(f, np.bool_):
        return "np.bool_-singlet" if f else "np.bool_-nonsinglet"
    return f


def _warmup():
    """First use of the numba-typed containers/mpmath tables costs seconds per process: pay it once in
    the parent so that the forked workers inherit the initialised state (results are discarded)."""
    job_integer(([1, 2], 2))
    job_complex((complex(2.5, 0.5), False))
    job_mellin_log((complex(2.5, 0.5), False))
    job_polygamma([complex(-1.5, 0.5)])
    from ekore.harmonics import cache as c

    job_cache((complex(2.5, 0.5), True, [np.arange(c.CACHE_SIZE)]))


def run(ck):
    rng = ck.rng
    _warmup()
    Nmax = ck.n(30, 60)
    # ---------------- integer N: exact rationals
    chunks = [(list(range(i, Nmax + 1, 8)), Nmax) for i in range(1, 9)]
    for item, st, val in jobs.pmap(job_integer, chunks, timeout=1500):
        if st != "ok":
            ck.inconclusive(f"integer job {st}: {str(val)[:200]}")
            continue
        for name, N, flag, via, v, ref, err in val:
            ck.case(("int", name, N, _flagname(flag), via), nontrivial=ref != 0.0, sample=dict(fn=name, N=N, flag=_flagname(flag), via=via, code=v, exact=ref))
            ck.hit("integer_exact")
            fit = name in NESTED
            tol = (TOL_FIT if fit else TOL_EXACT) * max(1.0, abs(ref))
            if err is not None or v is None or not np.isfinite(abs(v)) or abs(v - ref) > tol:
                ck.violation(
                    f"C24/integer/{name}/{via}/{_flagname(flag)}",
                    f"{name}(N={N}) via {via} with flag {_flagname(flag)}: {v if err is None else err} vs exact {ref}",
                    dict(fn=name, N=N, flag=flag, via=via, code=v, exact=ref, tol=tol, seed=ck.seed),
                )
            else:
                ck.ok()
    # ---------------- complex N
    npts = ck.n(240, 6000)
    pts = _rand_N(rng, npts)
    nint = ck.n(12, 200)
    items = [(N, i < nint and abs(N.imag) <= 25) for i, N in enumerate(pts)]
    for item, st, val in jobs.pmap(job_complex, items, timeout=3000):
        if st != "ok":
            ck.inconclusive(f"complex job {st}: {str(val)[:200]}")
            continue
        N, recs = val
        for mon, name, flag, err, sc, tol, info in recs:
            ck.case((mon, name, round(N.real, 6), round(N.imag, 6), _flagname(flag)), nontrivial=True, sample=dict(monitor=mon, fn=name, N=N, flag=_flagname(flag), err=err))
            ck.hit("single_complex" if mon == "single_integral" else mon)
            if not (err <= tol * sc):
                ck.violation(
                    f"C24/{mon}/{name}/{_flagname(flag)}",
                    f"{mon} of {name} at N={N} flag={_flagname(flag)}: error {err:.3e} > {tol * sc:.3e}",
                    dict(monitor=mon, fn=name, N=N, flag=flag, err=err, tol=tol * sc, seed=ck.seed, **info),
                )
            else:
                ck.ok()
    # ---------------- Mellin transforms: g-functions (defining integrals)
    ng = ck.n(12, 120)
    gpts = [complex(1, 0), complex(2, 0), complex(1, 1)]
    while len(gpts) < ng:
        re = rng.uniform(0.7, 30)
        gpts.append(complex(re, rng.uniform(-1, 1) * min(40.0, 3 + 3 * re)))
    for item, st, val in jobs.pmap(job_mellin_g, gpts, timeout=3000):
        if st != "ok":
            ck.inconclusive(f"mellin_g job {st}: {str(val)[:200]}")
            continue
        N, recs = val
        for g, err, sc, tol, qerr, info in recs:
            ck.case(("mellin_g", g, N), sample=dict(fn=g, N=N, err=err, quad_err=qerr))
            if not (qerr < 1e-9):
                ck.inconclusive(f"mpmath.quad error estimate {qerr:.1e} too large for {g}")
                continue
            ck.hit("mellin_g")
            if not (err <= tol * sc):
                ck.violation(f"C24/mellin/{g}", f"mellin_{g}(N={N}) differs from its defining integral by {err:.3e} (> {tol:.1e})", dict(fn=g, N=N, err=err, tol=tol, seed=ck.seed, **info))
            else:
                ck.ok()
    # ---------------- Mellin transforms: log functions
    nl = ck.n(60, 600)
    lpts = [complex(1, 0), complex(2, 0), complex(3.5, 0)] + _rand_N(rng, nl - 3)
    items = [(N, i < ck.n(6, 30) and abs(N.imag) < 10) for i, N in enumerate(lpts)]
    for item, st, val in jobs.pmap(job_mellin_log, items, timeout=3000):
        if st != "ok":
            ck.inconclusive(f"mellin_log job {st}: {str(val)[:200]}")
            continue
        N, recs = val
        for name, err, sc, tol, info in recs:
            ck.case(("mellin_log", name, N), sample=dict(fn=name, N=N, err=err))
            if err is None:
                ck.inconclusive(f"oracles for {name} disagree with each other: {info}")
                continue
            ck.hit("mellin_log")
            if not (err <= tol * sc):
                ck.violation(f"C24/mellin/{name}", f"{name}(N={N}) differs from its defining integral by {err:.3e} (scale {sc:.3e})", dict(fn=name, N=N, err=err, scale=sc, tol=tol, seed=ck.seed, **info))
            else:
                ck.ok()
    # ---------------- cache: order independence
    from ekore.harmonics import cache as c

    ncp = ck.n(40, 500)
    nperm = ck.n(5, 10)
    cpts = [complex(2, 0), complex(3, 0)] + _rand_N(rng, ncp - 2)
    items = []
    for i, N in enumerate(cpts):
        flags = (True, False, None)
        flag = flags[i % 3]
        if N.imag == 0 and N.real == int(N.real):
            flag = int(N.real) % 2 == 0
        perms = [rng.permutation(c.CACHE_SIZE) for _ in range(nperm)]
        perms.append(np.arange(c.CACHE_SIZE)[::-1])
        items.append((N, flag, perms))
        if flag is not None:
            items.append((N, flag, [rng.permutation(c.CACHE_SIZE) for _ in range(nperm)], True))
    for item, st, val in jobs.pmap(job_cache, items, timeout=3000):
        if st != "ok":
            ck.inconclusive(f"cache job {st}: {str(val)[:200]}")
            continue
        (N, flag), recs, direct = val
        mixed = len(item) > 3 and item[3]
        for err, w, err2, perm, got, dire in recs:
            ck.case(("cache", N, _flagname(flag), mixed, tuple(perm)), sample=dict(N=N, flag=_flagname(flag), parity_free_keys_without_flag=bool(mixed), order=perm[:6], max_rel_dev=err))
            ck.hit("cache_order")
            if mixed:
                ck.hit("cache_order_mixed_flags")
            if not (err <= TOL_CACHE) or not (err2 <= TOL_CACHE):
                ck.violation(
                    f"C24/cache/order/key{w}" + ("/parity-free-keys-without-flag" if mixed else ""),
                    f"cache value of key {w} depends on lookup order at N={N} flag={_flagname(flag)}: {got} vs direct {dire}",
                    dict(N=N, flag=flag, mixed=bool(mixed), order=perm, key=w, got=got, direct=dire, err=err, err_second_lookup=err2, seed=ck.seed),
                )
            else:
                ck.ok()
    items = [(it[0], it[1]) for it in items if len(it) == 3][: ck.n(12, 60)]
    for item, st, val in jobs.pmap(job_cache_oracle, items, timeout=3000):
        if st != "ok":
            ck.inconclusive(f"cache oracle job {st}: {str(val)[:200]}")
            continue
        (N, flag), recs = val
        for name, err, sc, tol, info in recs:
            ck.case(("cachekey", name, N), sample=dict(key=name, N=N, err=err))
            ck.hit("cache_order")
            if not (err <= tol * sc):
                ck.violation(f"C24/cache/value/{name}", f"cache key {name} at N={N}: error {err:.3e}", dict(key=name, N=N, flag=flag, err=err, seed=ck.seed, **info))
            else:
                ck.ok()
    # ---------------- polygamma itself (incl. the reflection branch used left of the imaginary axis)
    nz = ck.n(300, 5000)
    zs = [complex(rng.uniform(-25, 60), rng.uniform(-60, 60) * rng.choice([1, 1, 0.01])) for _ in range(nz)]
    zs += [complex(rng.uniform(-25, 60), 0.0) for _ in range(nz // 10)]
    zs = [z for z in zs if not (z.real < 0.5 and abs(z.imag) < 1e-3 and abs(z.real - round(z.real)) < 1e-3)]
    chunks = [zs[i::8] for i in range(8)]
    for item, st, val in jobs.pmap(job_polygamma, chunks, timeout=3000):
        if st != "ok":
            ck.inconclusive(f"polygamma job {st}: {str(val)[:200]}")
            continue
        for z, k, rel, v, r in val:
            ck.case(("psi", k, z), sample=dict(z=z, k=k, rel=rel))
            ck.hit("polygamma")
            # right half-plane: rounding level; reflection branch: CERNLIB's P-polynomials cancel for large |Im z|
            tol = 1e-11 if z.real >= 0 else (1e-8 if k <= 2 else 1e-5)
            branch = "asymptotic" if z.real >= 0 else "reflection"
            if not (rel <= tol):
                ck.violation(f"C24/polygamma/{branch}/k{k}", f"cern_polygamma({z},{k}) = {v} vs mpmath {r} (rel {rel:.2e})", dict(z=z, k=k, code=v, ref=r, rel=rel, seed=ck.seed))
            else:
                ck.ok()
