"""C48: JIT-compiled numba kernels agree with their interpreted definitions."""

import os
import pickle
import subprocess
import sys
import time

import numpy as np

from .. import jobs, scratch
from ..core import HOME, REPO
from ..oracles import jitdiff

META = dict(
    level="translation_validation",
    design_ref="DESIGN.md §5 C48",
    technique="differential execution: every numba dispatcher of the anchored modules (found by introspection) compiled with a fresh cache and called on generated inputs, versus the same inputs through the NUMBA_DISABLE_JIT=1 interpreter build",
    level_text="Validates, per run, the translation of the current sources by numba/LLVM: each discovered @njit function is compiled from scratch and its outputs (return value, raised exception type, post-call state of array arguments) are compared with the interpreted definition on identical pickled inputs. Holds for the inputs generated, not for all inputs.",
    level_note="Trusted base: CPython+NumPy as the reference semantics, the pickle transport, the argument generators (a function whose parameters cannot be generated is listed as unexercised, never counted as held). Compile errors are violations, runtime rounding differences up to TOL are not.",
    rule="case = (function, generated argument tuple); distinct = distinct (function, variant index); non-trivial = the interpreted call returned a finite non-None value or raised a documented domain error, and the compiled call actually ran in nopython mode",
    min_nontrivial=400,
    required_hits=["jit_vs_interpreter_compared", "compiled_nopython", "integer_typed_moment_cases"],
    max_inconclusive_frac=0.02,
)

# |jit - py| <= TOL * max(|py| over the returned structure).  The two builds use
# different complex division / power / libm routines, so bitwise equality is not
# what correct code delivers; 1e-12 relative is ~4500 ulp, far below any
# semantic difference (typing, integer overflow, branch, aliasing).
TOL = 1e-12

# measured cold-compile cost (s) by module, for shard balancing only
COST = {
    "eko.kernels.singlet": 110,
    "eko.kernels.non_singlet": 40,
    "eko.kernels.non_singlet_qed": 45,
    "eko.kernels.singlet_qed": 40,
    "eko.kernels.valence_qed": 30,
    "eko.kernels.evolution_integrals": 8,
    "eko.kernels.as4_evolution_integrals": 12,
    "eko.interpolation": 15,
    "eko.mellin": 10,
    "eko.scale_variations.expanded": 50,
    "eko.scale_variations.exponentiated": 20,
    "eko.couplings": 30,
    "eko.beta": 6,
    "eko.gamma": 4,
    "ekore.harmonics.cache": 60,
    "ekore.harmonics.w3": 25,
    "ekore.harmonics.w4": 25,
    "ekore.anomalous_dimensions.unpolarized.space_like.as1": 40,
    "ekore.anomalous_dimensions.unpolarized.space_like.as2": 70,
    "ekore.operator_matrix_elements.unpolarized.space_like.as1": 30,
    "ekore.operator_matrix_elements.unpolarized.space_like.as2": 70,
    "ekore.anomalous_dimensions": 25,
    "ekore.anomalous_dimensions.unpolarized.space_like": 600,
    "ekore.operator_matrix_elements.unpolarized.space_like": 400,
    "eko.evolution_operator.quad_ker": 900,
    "eko.evolution_operator.quad_ker:ome": 500,
}


def _env(jit, cache_dir):
    env = dict(os.environ)
    env["NUMBA_DISABLE_JIT"] = "0" if jit else "1"
    env["NUMBA_CACHE_DIR"] = cache_dir
    env["PYTHONPATH"] = f"{REPO}/src:{HOME}/.deps:{HOME}"
    env["PYTHONWARNINGS"] = "ignore"
    env["NUMBA_NUM_THREADS"] = "1"
    return env


def _run_child(item):
    """(tag, jit, inp, outp, cache_dir, timeout) -> dict(status, detail, wall)"""
    tag, jit, inp, outp, cache_dir, timeout = item
    t0 = time.time()
    try:
        p = subprocess.run(
            [sys.executable, "-m", "vlib.oracles.jitdiff", "child", inp, outp],
            env=_env(jit, cache_dir),
            cwd=str(HOME),
            capture_output=True,
            text=True,
            timeout=timeout,
        )
    except subprocess.TimeoutExpired:
        return dict(status="timeout", detail=f"child {tag} exceeded {timeout}s", wall=time.time() - t0)
    if p.returncode != 0 or not os.path.exists(outp):
        return dict(status="crashed", detail=(p.stderr or "")[-1500:], wall=time.time() - t0, rc=p.returncode)
    return dict(status="ok", detail="", wall=time.time() - t0)


_flat = jitdiff.flat

# rounding-level differences are amplified by the conditioning of the call; the
# interpreted child measures it (max response to <=32-ulp input perturbations, per
# returned leaf) and SENS_FACTOR x that is allowed on top of TOL x scale.
SENS_FACTOR = 8.0


def compare(py, jit, sens=None, floor=0.0):
    """-> (verdict, detail)   verdict in same/differs/structure; detail = worst diff/allowed when same"""
    a, b = _flat(py), _flat(jit)
    if len(a) != len(b):
        return "structure", f"{len(a)} leaves vs {len(b)}"
    if sens is None or len(sens) != len(a):
        sens = [0.0] * len(a)
    worst = 0.0
    for (pa, xa), (pb, xb), sl in zip(a, b, sens):
        if xa is None or xb is None:
            if xa is not xb:
                return "structure", f"{pa}: None vs value"
            continue
        if isinstance(xa, str) or isinstance(xb, str):
            if xa != xb:
                return "structure", f"{pa}: {xa} vs {xb}"
            continue
        if xa.shape != xb.shape:
            return "structure", f"{pa}: shape {xa.shape} vs {xb.shape}"
        if xa.size == 0:
            continue
        na, nb_ = np.isnan(xa), np.isnan(xb)
        if (na != nb_).any():
            return "differs", f"{pa}: NaN pattern differs"
        ia, ib = np.isinf(xa) & ~na, np.isinf(xb) & ~nb_
        if (ia != ib).any() or (ia.any() and not np.array_equal(xa[ia], xb[ia])):
            return "differs", f"{pa}: inf pattern differs"
        m = ~(na | ia)
        if not m.any():
            continue
        d = float(np.abs(xa[m] - xb[m]).max())
        if d == 0.0:
            continue
        scale = float(np.abs(xa[m]).max())
        allowed = TOL * max(scale, floor) + SENS_FACTOR * float(sl or 0.0)
        if allowed == 0.0 or d > allowed:
            return "differs", f"{pa}: max |jit-py| = {d:.3e}, scale {scale:.3e}, measured rounding sensitivity {float(sl or 0.0):.3e}, allowed {allowed:.3e}"
        worst = max(worst, d / allowed)
    return "same", worst


def _magnitude(res):
    if res[0] != "ok":
        return None
    vals = [float(np.abs(x[np.isfinite(x)]).max()) for _, x in _flat(res[1]) if isinstance(x, np.ndarray) and x.size and np.isfinite(x).any()]
    return max(vals) if vals else None


def _has_nonfinite(v):
    return any(isinstance(x, np.ndarray) and x.size and not np.isfinite(x).all() for _, x in _flat(v))


def _nontrivial(res):
    if res[0] == "exc":
        return True
    if res[0] != "ok" or _has_nonfinite(res[1]):
        return False
    return any(isinstance(x, np.ndarray) and x.size for _, x in _flat(res[1]))


BASE_MODULES = ("ekore.harmonics", "ekore.anomalous_dimensions", "eko.beta", "eko.gamma")


def _is_base(mod):
    return mod.startswith("ekore.harmonics") or mod in BASE_MODULES


def _shards(functions, nshards):
    by_mod = {}
    for fn in functions:
        # the two Mellin kernels are the costliest compiles by far: separate shards
        key = fn["mod"] + (":ome" if fn["name"] == "quad_ker_ome" else "")
        by_mod.setdefault(key, []).append(fn)
    mods = sorted(by_mod, key=lambda m: -COST.get(m, 12))
    bins = [[0.0, []] for _ in range(nshards)]
    for m in mods:
        b = min(bins, key=lambda x: x[0])
        b[0] += COST.get(m, 12)
        b[1] += by_mod[m]
    return [b[1] for b in bins if b[1]]


def run(ck):
    thorough = ck.thorough
    n_inputs = ck.n(20, 200)
    compile_workers = int(os.environ.get("VERIF_COMPILE_WORKERS", min(14, os.cpu_count() or 4)))
    with scratch.tmpdir("eko-verif-c48-") as tmp:
        # ---- 1. discovery in a JIT-enabled child (dispatchers do not exist with JIT disabled)
        dout = os.path.join(tmp, "discover.pkl")
        os.makedirs(os.path.join(tmp, "nbcache-discover"))
        p = subprocess.run(
            [sys.executable, "-m", "vlib.oracles.jitdiff", "discover", dout, "1" if thorough else "0"],
            env=_env(True, os.path.join(tmp, "nbcache-discover")),
            cwd=str(HOME),
            capture_output=True,
            text=True,
            timeout=600,
        )
        if p.returncode != 0 or not os.path.exists(dout):
            ck.inconclusive(f"discovery child failed: {(p.stderr or '')[-400:]}")
            return
        disc = pickle.load(open(dout, "rb"))
        if disc["error"]:
            # the anchored modules must at least import with JIT enabled
            ck.case(("import",), nontrivial=True)
            ck.violation("C48/import-with-jit", f"anchored modules fail to import with JIT enabled: {disc['error'][:300]}", dict(error=disc["error"]))
            return
        functions = disc["found"]
        only = os.environ.get("VERIF_C48_ONLY")  # development aid: restrict to modules matching a substring
        if only:
            functions = [fn for fn in functions if any(o in fn["mod"] + "." + fn["name"] for o in only.split(","))]
        ck.hit("dispatchers_found", len(functions))

        # ---- 2. generated inputs (parent, interpreted build; identical pickles for both children)
        cases, unsupported = jitdiff.build_cases(functions, ck.rng, n_inputs)
        exercised = [fn for fn in functions if fn["mod"] + "." + fn["name"] in cases]
        typed_cases = jitdiff.build_typed_cases(exercised, ck.rng, with_float=thorough)
        typed = [fn for fn in exercised if fn["mod"] + "." + fn["name"] in typed_cases]
        kinds = {fn["mod"] + "." + fn["name"]: fn["kind"] for fn in functions}

        # ---- 3. shard and run both builds
        # Two phases over ONE numba cache directory that is created empty for this run (never a cache of an
        # earlier run: numba keys entries on the caller file only).  Phase 1 compiles the base layer every other
        # module calls into (harmonic sums + their cache, matrix exponentials, beta functions); phase 2 compiles
        # everything else concurrently and finds the base layer already built instead of rebuilding it per shard.
        base = [fn for fn in exercised if _is_base(fn["mod"])]
        rest = [fn for fn in exercised if not _is_base(fn["mod"])]
        base_shards = []
        harm = sorted([fn for fn in base if fn["mod"].startswith("ekore.harmonics")], key=lambda fn: (not fn["mod"].endswith(".cache"), fn["mod"]))
        misc = [fn for fn in base if not fn["mod"].startswith("ekore.harmonics")]
        for grp in (harm, misc):
            if grp:
                base_shards.append(grp)
        rest_shards = _shards(rest, max(1, min(compile_workers, len(rest)))) if rest else []
        # integer-typed Mellin moments are other numba signatures: nothing of the base layer can be reused, so
        # they get shards of their own in phase 2 (harmonics / everything built on them)
        typed_shards = [g for g in ([fn for fn in typed if fn["mod"].startswith("ekore.harmonics")], [fn for fn in typed if not fn["mod"].startswith("ekore.harmonics")]) if g]
        shards = base_shards + rest_shards + typed_shards
        first_typed = len(base_shards) + len(rest_shards)
        shard_cases = [typed_cases if i >= first_typed else cases for i in range(len(shards))]
        cdir = os.path.join(tmp, "nbcache")
        os.makedirs(cdir)
        tmo = 3600 if thorough else 1500
        jit_items, py_items = [], []
        for i, sh in enumerate(shards):
            job = {"functions": {fn["mod"] + "." + fn["name"]: dict(kind=fn["kind"], cases=shard_cases[i][fn["mod"] + "." + fn["name"]]) for fn in sh}}
            inp = os.path.join(tmp, f"shard{i}.in.pkl")
            with open(inp, "wb") as fh:
                pickle.dump(job, fh)
            jit_items.append((f"jit{i}", True, inp, os.path.join(tmp, f"shard{i}.jit.pkl"), cdir, tmo))
            py_items.append((f"py{i}", False, inp, os.path.join(tmp, f"shard{i}.py.pkl"), cdir, tmo))
        status = {}
        nb = len(base_shards)
        for phase in (jit_items[:nb] + py_items, jit_items[nb:]):
            if not phase:
                continue
            for it, st, val in jobs.pmap(_run_child, phase, workers=compile_workers, timeout=2 * tmo):
                status[it[0]] = val if st == "ok" else dict(status=st, detail=str(val)[:500], wall=None)

        # ---- 4. compare
        n_prog = 0
        n_dis_checked = 0
        compile_times = {}
        worst_rel = {}
        for i, sh in enumerate(shards):
            sj, sp = status.get(f"jit{i}", {}), status.get(f"py{i}", {})
            names = [fn["mod"] + "." + fn["name"] for fn in sh]
            if sj.get("status") != "ok" or sp.get("status") != "ok":
                for fq in names:
                    ck.case((fq, "shard"), nontrivial=False)
                    ck.inconclusive(f"shard {i} child did not finish: jit={sj.get('status')} py={sp.get('status')} {str(sj.get('detail') or sp.get('detail'))[-200:]}")
                continue
            oj = pickle.load(open(items_out(tmp, i, True), "rb"))["functions"]
            op = pickle.load(open(items_out(tmp, i, False), "rb"))["functions"]
            for fq in names:
                rj, rp = oj.get(fq), op.get(fq)
                short = fq.split(".")[-2] + "." + fq.split(".")[-1]
                is_typed = i >= first_typed
                if is_typed:
                    short += "/integer-typed-N"
                if rj is None or rp is None or rj["compile"] or rp["compile"]:
                    why = (rj or {}).get("compile") or (rp or {}).get("compile") or "missing"
                    ck.case((fq, "load"), nontrivial=False)
                    ck.inconclusive(f"{fq}: {why}")
                    continue
                n_prog += 1
                compile_times[fq] = round(rj["t_first"] or 0.0, 2)
                if kinds[fq] == "probe":
                    ck.hit("composition_probe_exercised")
                elif kinds[fq] == "func":
                    if rj.get("nopython"):
                        ck.hit("compiled_nopython")
                    elif not any(r[0][0] == "compile_error" for r in rj["results"]):
                        ck.case((fq, "nopython"), nontrivial=False)
                        ck.inconclusive(f"{fq}: no nopython signature after the calls")
                else:
                    ck.hit("jitclass_exercised")
                reported = set()
                # typical magnitude of what this function returns in this run (median over the cases): an exact
                # 0.0 of one build against rounding noise of the other (e.g. a Lagrange polynomial at a node that
                # falls into the neighbouring area because log(x) differs by an ulp) is judged against it
                mags = [m for m in (_magnitude(rr[0]) for rr in rp["results"]) if m is not None and m > 0]
                fscale = float(np.median(mags)) if mags else 0.0
                for v, ((summ, args), (resp, postp, sens), (resj, postj, _)) in enumerate(zip(shard_cases[i][fq], rp["results"], rj["results"])):
                    s_ret, s_post = sens if sens else (None, None)
                    ck.hit("jit_vs_interpreter_compared")
                    if is_typed:
                        ck.hit("integer_typed_moment_cases")
                    sample = None
                    if v == 0 and len(ck.samples) < ck.max_samples and n_prog % 37 == 1:
                        sample = dict(function=fq, context=summ, args=_brief(args), interpreted=_brief(resp), compiled=_brief(resj))
                    ck.case((fq, "typed" if is_typed else "", v), nontrivial=_nontrivial(resp) and resj[0] != "compile_error", sample=sample)
                    wit = dict(function=fq, variant=v, context=summ, args=_brief(args), interpreted=_brief(resp), compiled=_brief(resj), seed=ck.seed, tier=ck.tier)
                    if resj[0] == "compile_error" and is_typed:
                        # integer-typed moments are outside the documented signature (N : complex); they are fed in
                        # because the repository's own tests do so, but a signature that numba cannot lower for an
                        # integer N is not a statement about the functions "on the evolution path": not judged
                        ck.hit("integer_typed_signature_not_compilable")
                        continue
                    if resj[0] == "compile_error":
                        n_dis_checked += 1
                        key = f"C48/{short}/compile-{resj[1]}"
                        if key not in reported:
                            reported.add(key)
                            ck.violation(key, f"{fq} does not compile for type-correct arguments: {resj[1]}: {resj[2][:300]}", wit)
                        continue
                    if resp[0] == "exc" or resj[0] == "exc":
                        if resp[0] == resj[0] and resp[1] == resj[1]:
                            ck.hit("same_exception")
                            ck.ok()
                        elif resj[0] == "exc" and resp[0] == "ok" and _has_nonfinite(resp[1]) and (resj[1] == "ZeroDivisionError" or is_typed):
                            # numba's documented error model: a scalar division by zero raises where
                            # NumPy scalars return inf/nan with a warning; both signal "outside the domain"
                            ck.hit("division_by_zero_signalled_by_both")
                            ck.ok()
                        elif resp[:2] == ("exc", "ZeroDivisionError") and (resj[0] == "exc" or _has_nonfinite(resj[1])):
                            # a pole (interpreted build divides by zero): the compiled build raising anything or
                            # returning inf/nan signals the same "outside the domain" (seen: AssertionError out of a
                            # nested compiled call at the N=1 pole of A_singlet with an integer-typed N)
                            ck.hit("pole_signalled_by_both")
                            ck.ok()
                        else:
                            n_dis_checked += 1
                            key = f"C48/{short}/exception-differs"
                            if key not in reported:
                                reported.add(key)
                                ck.violation(key, f"{fq}: interpreted {resp[:2]} vs compiled {resj[:2]}", wit)
                        continue
                    verdict, detail = compare(resp[1], resj[1], s_ret, fscale)
                    if verdict == "same":
                        worst_rel[fq] = max(worst_rel.get(fq, 0.0), detail)
                    # post-call state of array arguments (in-place updates, caches)
                    pv, pdetail = "same", 0.0
                    for ia, (xa, xb) in enumerate(zip(postp, postj)):
                        if xa is None and xb is None:
                            continue
                        vv, dd = compare(xa, xb, [s_post[ia]] if s_post else None)
                        if vv != "same":
                            pv, pdetail = vv, f"argument {ia} after the call: {dd}"
                            break
                    if verdict == "same" and pv == "same":
                        ck.ok()
                        continue
                    n_dis_checked += 1
                    what = "return" if verdict != "same" else "argument-state"
                    key = f"C48/{short}/{what}-{verdict if verdict != 'same' else pv}"
                    if is_typed and verdict == "differs" and summ.get("N_type") == "int" and v + 1 < len(rp["results"]):
                        # narrow mechanism: python-int moment whose polynomial products exceed int64. The interpreter
                        # computes them with unbounded ints, compiled code wraps - exactly like the *interpreted*
                        # build does when the same moment is passed as np.int64 (next case, same arguments otherwise)
                        nxt_summ, nxt = shard_cases[i][fq][v + 1][0], rp["results"][v + 1][0]
                        if nxt_summ.get("N_type") == "np.int64" and nxt_summ.get("N") == summ.get("N") and nxt[0] == "ok":
                            if compare(nxt[1], resj[1], None, fscale)[0] == "same":
                                key += "/python-int-exceeds-int64"
                    if key not in reported:
                        reported.add(key)
                        ck.violation(key, f"{fq}: {detail if verdict != 'same' else pdetail}", wit)
        unexercised = sorted(unsupported)
        ck.note(
            programs=2 * n_prog,
            disagreements_checked=n_dis_checked,
            dispatchers_found=len(functions),
            dispatchers_exercised=n_prog,
            unexercised=[f"{k}: {v}" for k, v in sorted(unsupported.items())],
            shards=len(shards),
            slowest_first_calls=dict(sorted(compile_times.items(), key=lambda kv: -kv[1])[:12]),
            largest_difference_over_allowed={k: float(f"{v:.2e}") for k, v in sorted(worst_rel.items(), key=lambda kv: -kv[1])[:8]},
            child_walls={k: (round(v["wall"], 1) if v.get("wall") else None) for k, v in sorted(status.items())},
            tolerance=TOL,
        )
        # an anchored dispatcher that cannot be exercised is a coverage gap the verdict must show
        if unexercised and len(unexercised) > 0.1 * len(functions):
            ck.inconclusive(f"{len(unexercised)} of {len(functions)} dispatchers have no argument generator")


def items_out(tmp, i, jit):
    return os.path.join(tmp, f"shard{i}.{'jit' if jit else 'py'}.pkl")


def _brief(v, depth=0):
    if isinstance(v, np.ndarray):
        if v.size <= 8:
            return dict(shape=list(v.shape), values=[[float(np.real(x)), float(np.imag(x))] if np.iscomplexobj(v) else float(x) for x in v.ravel()])
        return dict(shape=list(v.shape), dtype=str(v.dtype), first=[[float(np.real(x)), float(np.imag(x))] for x in v.ravel()[:3]])
    if isinstance(v, complex):
        return [v.real, v.imag]
    if isinstance(v, (list, tuple)) and depth < 4:
        return [_brief(x, depth + 1) for x in v][:12]
    if isinstance(v, (jitdiff.Ref, jitdiff.Col, jitdiff.Build)):
        return repr(v)
    if isinstance(v, (bool, int, float, str)) or v is None:
        return v
    return repr(v)[:80]
