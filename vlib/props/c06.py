"""C06: split-path evolutions compose consistently."""

import numpy as np

from .. import jobs, workload as w
from . import c05

META = dict(
    level="exploration",
    design_ref="DESIGN.md §5 C06",
    technique="end-to-end composition monitor: three real solves per case (mu0->mu1, mu1->mu2 started from (mu1,nf1), mu0->mu2) on a coarse and a 2x refined grid, operators contracted in the harness and applied to random smooth PDFs; relative L-infinity discrepancy and its decrease under refinement",
    level_text="Real solves at LO/NLO/NNLO (iterate-exact with >=40 iterations beyond LO) for random (mu0,mu1,mu2) inside a patch, across a matching scale with the split point on either side, and for paths that first run down in scale within a patch; split and direct evolution of random smooth PDFs must agree to 1e-3 on the fine grid (or, if larger, be clearly interpolation-dominated: <=0.35x the coarse-grid value and below 1e-2) and the discrepancy must shrink (<=0.7x) when the grid is refined unless already below 1e-5.",
    level_note="Discrepancy measured per flavour on nodes with |f| > 1e-3 max|f|, relative to max|f| of that flavour. Downward matchings use the exact inversion. The tolerance 1e-3 is the interpolation accuracy of degree-3 log interpolation on >=24 points on [1e-2,1] for these smooth inputs, with the solver's integration error (1e-5) far below.",
    rule="case = (configuration, PDF replica); distinct by configuration+replica; non-trivial = mu0, mu1, mu2 pairwise different and all three solves succeeded",
    min_nontrivial=5,
    required_hits=["compositions_compared"],
    max_inconclusive_frac=0.25,
)
META["level_text"] += ' Half of the threshold cards give alpha_s exactly on the crossed matching scale with the lower nf.'

PIDS = c05.PIDS


def grid(n):
    return [float(x) for x in np.concatenate([np.geomspace(1e-2, 0.2, n // 2, endpoint=False), np.linspace(0.2, 1.0, n - n // 2)])]


def solve3(cfg, n):
    base = {k: v for k, v in cfg.items() if not k.startswith("_")}
    base["xgrid"] = grid(n)
    mu0, nf0 = cfg["init"]
    mu1, nf1 = cfg["_mid"]
    mu2, nf2 = cfg["_final"]
    a = w.solve_cfg(dict(base, init=[mu0, nf0], targets=[[mu1, nf1], [mu2, nf2]]))
    b = w.solve_cfg(dict(base, init=[mu1, nf1], targets=[[mu2, nf2]], inversion=cfg["inversion"]))
    o01 = a[(mu1**2, nf1)][0]
    o02 = a[(mu2**2, nf2)][0]
    o12 = b[(mu2**2, nf2)][0]
    err = max(float(np.abs(a[(mu2**2, nf2)][1]).max()), float(np.abs(b[(mu2**2, nf2)][1]).max()))
    return o01, o12, o02, err


def run_case(cfg):
    rng = np.random.default_rng(cfg["_seed"])
    out = []
    try:
        sols = {n: solve3(cfg, n) for n in cfg["_grids"]}
    except (NotImplementedError, ValueError) as e:
        return dict(status="refused", msg=f"{type(e).__name__}: {str(e)[:100]}")
    except Exception as e:
        import traceback

        return dict(status="crash", msg=f"{type(e).__name__}: {str(e)[:200]}", tb=traceback.format_exc()[-600:])
    nf0 = cfg["init"][1]
    for rep in range(cfg["_replicas"]):
        f, par = c05.toy(rng, nf0, cfg["pt"] == "pol", False)
        rec = dict(replica=rep, disc={})
        for n, (o01, o12, o02, err) in sols.items():
            xs = np.array(grid(n))
            fin = np.array([f(pid, xs) for pid in PIDS])
            fin[:, -1] = 0.0
            direct = np.einsum("ajbk,bk->aj", o02, fin)
            split = np.einsum("ajbk,bk->aj", o12, np.einsum("ajbk,bk->aj", o01, fin))
            worst, wpid = 0.0, None
            for i, pid in enumerate(PIDS):
                scale = float(np.abs(direct[i]).max())
                if scale < 1e-8:
                    continue
                m = np.abs(direct[i]) > 1e-3 * scale
                d = float(np.abs(split[i] - direct[i])[m].max() / scale)
                if d > worst:
                    worst, wpid = d, pid
            rec["disc"][n] = dict(d=worst, pid=wpid, interr=err)
        out.append(rec)
    return dict(status="ok", recs=out)


def configs(ck):
    rng = ck.rng
    cfgs = []
    masses = [1.51, 4.92, 172.5]

    def mk(qcd, kind, pt="unpol", method=None, ref_on_wall=None):
        # matching ratios != 1: with L = 0 the NLO matching of light partons is trivial and a wrong
        # matching (direction, order) would be invisible
        ratios = [float(rng.choice([0.8, 1.3, 1.6])), float(rng.choice([0.8, 1.3])), 1.0]
        walls = [m * r for m, r in zip(masses, ratios)]
        iw = 0 if rng.integers(2) or kind == "down-leg" else 1
        wall = walls[iw]
        nfl = 3 + iw
        hi = walls[nfl - 2] if nfl < 5 else 300.0
        if kind == "patch":
            nf0 = int(rng.choice([4, 5]))
            lo_, hi_ = (walls[0], walls[1]) if nf0 == 4 else (walls[1], 100.0)
            s = sorted(float(np.exp(rng.uniform(np.log(lo_ * 1.05), np.log(hi_ * 0.95)))) for _ in range(3))
            s = [s[0], s[0] * 1.0 + (s[1] - s[0]) * 1.0, s[2]]
            order = [0, 1, 2] if rng.integers(3) else [0, 2, 1]  # sometimes overshoot and come back
            mu0, mu1, mu2 = s[order[0]], s[order[1]], s[order[2]]
            init, mid, fin = [mu0, nf0], [mu1, nf0], [mu2, nf0]
        elif kind == "wall-below":  # split point below the wall
            mu0 = max(1.35, wall / float(rng.uniform(1.6, 2.2))) if nfl > 3 else 1.35
            if nfl > 3:
                mu0 = max(mu0, walls[nfl - 4] * 1.05)
            mu1 = float(np.exp(rng.uniform(np.log(mu0 * 1.03), np.log(wall * 0.97)))) if wall * 0.97 > mu0 * 1.03 else wall * 0.99
            mu2 = min(wall * float(rng.uniform(1.5, 3.0)), hi * 0.95)
            init, mid, fin = [mu0, nfl], [mu1, nfl], [mu2, nfl + 1]
        elif kind == "wall-above":
            mu0 = max(1.35, wall / float(rng.uniform(1.3, 2.0)))
            if nfl > 3:
                mu0 = max(mu0, walls[nfl - 4] * 1.05)
            mu1 = min(wall * float(rng.uniform(1.2, 1.8)), hi * 0.8)
            mu2 = min(mu1 * float(rng.uniform(1.3, 2.5)), hi * 0.95)
            init, mid, fin = [mu0, nfl], [mu1, nfl + 1], [mu2, nfl + 1]
        elif kind == "overshoot":  # target below the wall but in the upper scheme: the leg after the matching runs down
            mu0 = max(1.35, wall / float(rng.uniform(1.4, 1.9)))
            if nfl > 3:
                mu0 = max(mu0, walls[nfl - 4] * 1.05)
            mu1 = min(wall * float(rng.uniform(1.2, 1.6)), hi * 0.8)
            mu2 = wall / float(rng.uniform(1.1, 1.35))
            init, mid, fin = [mu0, nfl], [mu1, nfl + 1], [mu2, nfl + 1]
        elif kind == "down-leg":  # start above the wall with the lower nf: first leg runs down
            mu0 = wall * float(rng.uniform(1.5, 2.5))
            mu1 = wall * float(rng.uniform(1.1, 1.4))
            mu2 = wall * float(rng.uniform(2.0, 3.0))
            init, mid, fin = [mu0, nfl], [mu1, nfl], [mu2, nfl + 1]
        else:  # "downward": backward evolution through a wall
            mu0 = wall * float(rng.uniform(1.6, 2.5))
            mu1 = wall * float(rng.uniform(1.1, 1.4))
            mu2 = max(1.35, wall / float(rng.uniform(1.1, 1.3)))
            if nfl > 3:
                mu2 = max(mu2, walls[nfl - 4] * 1.05)
            init, mid, fin = [mu0, nfl + 1], [mu1, nfl + 1], [mu2, nfl]
        meth = method or ("iterate-exact" if qcd > 1 else str(rng.choice(["iterate-exact", "truncated", "decompose-exact"])))
        # half of the cards give alpha_s exactly on the matching scale that is crossed, with the lower nf: the
        # couplings of the upper patch are then reached through a zero-length step plus the decoupling
        on_wall = bool(rng.integers(2)) if ref_on_wall is None else ref_on_wall
        ref = [wall, nfl] if (kind != "patch" and on_wall) else [91.2, 5]
        alphas = 0.118 if ref[0] == 91.2 else float(0.118 / (1 + 0.118 * (23 / (12 * np.pi)) * np.log(wall**2 / 91.2**2)))
        return dict(ref=ref,
            qcd=qcd, qed=0, method=meth, pt=pt, init=init, targets=[], masses=masses, ratios=ratios, xgrid=[], degree=3,
            scvar=None, xif=1.0, inversion="exact", iters=1 if qcd == 1 else (24 if ck.quick else 40), alphas=alphas, alphaem=0.007496252, em_running=False,
            max_order=[10, 0], cores=5 if ck.quick else 4, n3lo_var=[0] * 7, fhmruvv=True, matching_order=None, scheme="POLE",
            _mid=mid, _final=fin, _seed=int(rng.integers(1 << 30)), _replicas=2, _grids=[12, 24] if ck.quick else [14, 28], _kind=kind,
        )

    if ck.quick:
        cfgs = [mk(1, "wall-above"), mk(1, "down-leg"), mk(2, "overshoot", ref_on_wall=True)]
    else:
        for kind in ("patch", "wall-below", "wall-above", "down-leg", "downward", "overshoot"):
            cfgs += [mk(1, kind), mk(2, kind), mk(2, kind, pt="pol" if kind != "downward" else "unpol")]
        cfgs += [mk(3, "wall-above"), mk(3, "patch"), mk(2, "down-leg", pt="tl"), mk(1, "wall-below", pt="tl")]
    return cfgs


def run(ck):
    cfgs = configs(ck)
    if ck.replay:
        cfgs = [ck.replay["witness"]["cfg"]]
    workers = 3 if ck.quick else 4
    worst = 0.0
    for cfg, st, res in jobs.pmap(run_case, cfgs, workers=workers, timeout=ck.n(3300, 8 * 3600), item_timeout=ck.n(2400, 3 * 3600)):
        ckey = w.cfg_key(cfg)
        if st != "ok":
            ck.case(ckey, nontrivial=False)
            ck.inconclusive(f"job {st}: {str(res)[:100]}")
            continue
        if res["status"] != "ok":
            ck.case(ckey, nontrivial=False)
            if res["status"] == "refused":
                ck.hit("refused")
            else:
                ck.inconclusive("solver crashed (C04's business): " + res["msg"][:80])
            continue
        scales = {cfg["init"][0], cfg["_mid"][0], cfg["_final"][0]}
        for rec in res["recs"]:
            ck.hit("compositions_compared")
            g0, g1 = cfg["_grids"]
            d0, d1 = rec["disc"][g0]["d"], rec["disc"][g1]["d"]
            worst = max(worst, d1)
            ck.case((ckey, rec["replica"]), nontrivial=len(scales) == 3, sample=dict(order=cfg["qcd"], kind=cfg["_kind"], pt=cfg["pt"], init=cfg["init"], mid=cfg["_mid"], final=cfg["_final"], coarse=d0, fine=d1))
            key = f"C06/{cfg['_kind']}/order{cfg['qcd']}/{cfg['pt']}"
            # interpolation error shrinks fast under refinement (x4-x8 per doubling at degree 3); a defect does not.
            # (first version: flat 1e-3 on the fine grid - false alarm in the thorough tier on a long LO evolution,
            #  0.0085 -> 0.0011, i.e. pure interpolation error)
            if d1 > 1e-2 or (d1 > 1e-3 and d1 > 0.35 * d0):
                ck.violation(key + "/discrepancy", f"split vs direct evolution differ by {d1:.3g} (relative) on the {g1}-point grid (coarse {d0:.3g}); flavour {rec['disc'][g1]['pid']}", dict(cfg=cfg, rec=rec))
            elif not (d1 <= 0.7 * d0 or (d0 < 1e-5 and d1 < 1e-5)):
                ck.violation(key + "/no-refinement", f"discrepancy does not shrink with the grid: {d0:.3g} ({g0} pts) -> {d1:.3g} ({g1} pts)", dict(cfg=cfg, rec=rec))
            else:
                ck.ok()
    ck.note(worst_fine_grid_discrepancy=worst)
