"""C47: solving is reproducible across fresh processes with different hash seeds."""

import json
import os
import pathlib
import subprocess
import sys

from .. import jobs, scratch
from .. import workload as W
from ..oracles import archive_digest as ad

META = dict(
    level="exploration",
    design_ref="DESIGN.md §5 C47",
    technique="differential execution: the same cards solved in fresh child processes with different PYTHONHASHSEED (and different TMPDIR/cwd); archives compared member by member by an independent tar/lz4/npy reader",
    level_text="A fixed LOxQED card with segments at nf=4,5,6 and random tiny cards (LO/NLO, 1-3 targets across 0-2 thresholds, several methods, with and without pool) are each solved in >=4 fresh processes; member name sets and the sha256 of every decompressed array (dtype, shape, bytes) and every yaml member must be identical. Sampling of cards, not exhaustive.",
    level_note="Tar mtimes/order and the zip timestamps inside .npz containers are ignored (arrays inside are hashed). Trusted base: the independent reader vlib/oracles/archive_digest.py.",
    rule="case = (card index, hash seed) compared with the card's first run; distinct by (card parameters, seed); non-trivial = both archives complete with >=1 operator and >=2 parts, and the two runs used different hash seeds (or are an exact repeat)",
    min_nontrivial=10,
    required_hits=["archives_compared", "members_compared", "qed_nf5_archives_compared"],
    max_inconclusive_frac=0.1,
)

TIMEOUT = 900


def _solve_job(spec):
    wd = pathlib.Path(spec["wd"])
    wd.mkdir(parents=True, exist_ok=True)
    (wd / "tmp").mkdir(exist_ok=True)
    sp = dict(theory=spec["theory"], operator=spec["operator"], out=str(wd / "out.tar"))
    (wd / "spec.json").write_text(json.dumps(sp))
    env = dict(os.environ, TMPDIR=str(wd / "tmp"))
    if spec["hashseed"] == "random":
        env["PYTHONHASHSEED"] = "random"
    else:
        env["PYTHONHASHSEED"] = str(spec["hashseed"])
    try:
        p = subprocess.run([sys.executable, "-m", "vlib.drivers.solve_driver", str(wd / "spec.json")], env=env, cwd=str(wd), capture_output=True, text=True, timeout=TIMEOUT)
    except subprocess.TimeoutExpired:
        return dict(status="timeout")
    if p.returncode != 0 or not (wd / "out.tar").exists():
        err = (wd / "out.tar.err").read_text()[:600] if (wd / "out.tar.err").exists() else (p.stderr or "")[-600:]
        return dict(status="failed", err=err)
    try:
        return dict(status="ok", digest=ad.digest(wd / "out.tar"))
    except ad.Corrupt as e:
        return dict(status="corrupt", err=str(e))


def gen_card(rng, i, thorough):
    order = (1, 0) if rng.random() < (0.6 if not thorough else 0.4) else (2, 0)
    if thorough and rng.random() < 0.15:
        order = (int(rng.integers(1, 3)), 1)
    method = ["iterate-exact", "truncated", "iterate-expanded", "decompose-exact", "perturbative-exact"][int(rng.integers(5))]
    if order[1] > 0:
        rng.integers(2)  # (keeps the random stream of earlier versions)
        method = "iterate-exact"  # the only method implemented with QED; others are refused cleanly
    nt = int(rng.integers(1, 4))
    pool = [(1.3, 3), (2.0, 4), (3.0, 4), (6.0, 5), (10.0, 5), (50.0, 5), (200.0, 6)]
    idx = sorted(rng.choice(len(pool), size=nt, replace=False).tolist())
    mugrid = [pool[j] for j in idx]
    rng.shuffle(mugrid)
    n = int(rng.integers(3, 6))
    xgrid = np_geom(1e-2 if rng.random() < 0.5 else 1e-3, n)
    th = W.raw_theory(order=order, alphas=float(rng.uniform(0.1, 0.3)), ref=(91.2, 5), xif=1.0, matching_order=None)
    op = W.raw_operator(
        init=(1.65, 4),
        mugrid=mugrid,
        xgrid=xgrid,
        method=method,
        iterations=int(rng.integers(1, 3)),
        degree=int(rng.integers(1, min(n, 4))),
        inversion="exact" if rng.random() < 0.5 else "expanded",
        cores=1 if rng.random() < 0.7 else 2,
    )
    return th, op


def qed_card():
    """Fixed QCDxQED card whose paths have segments at nf = 4, 5 and 6 (every flavour block of the unified basis)."""
    th = W.raw_theory(order=(1, 1), alphas=0.118, ref=(91.2, 5), xif=1.0, matching_order=None)
    op = W.raw_operator(init=(1.65, 4), mugrid=[(10.0, 5), (200.0, 6)], xgrid=np_geom(1e-2, 3), method="iterate-exact", iterations=1, degree=1, inversion="expanded", cores=1)
    return th, op


def np_geom(lo, n):
    import numpy as np

    return [float(x) for x in np.geomspace(lo, 1.0, n)]


def run(ck):
    ncards = ck.n(5, 40)
    seeds = [0, 1, 12345, "random"] if ck.quick else [0, 1, 12345, 987654321, "random", "random"]
    with scratch.tmpdir(prefix="c47-") as root:
        root = pathlib.Path(root)
        cards = [qed_card()] + [gen_card(ck.rng, i, ck.thorough) for i in range(ncards)]
        specs = []
        for i, (th, op) in enumerate(cards):
            for j, s in enumerate(seeds + [seeds[0]]):  # last one = exact repeat of the first
                specs.append(dict(card=i, run=j, hashseed=s, theory=th, operator=op, wd=str(root / f"c{i}-r{j}")))
        res = {}
        for spec, status, val in jobs.pmap(_solve_job, specs, timeout=TIMEOUT * (1 + len(specs) // max(1, jobs.ncpu()))):
            res[(spec["card"], spec["run"])] = (spec, status, val)
        for i, (th, op) in enumerate(cards):
            desc = dict(order=th["order"], method=op["configs"]["evolution_method"], mugrid=op["mugrid"], nx=len(op["xgrid"]), cores=op["configs"]["n_integration_cores"])
            base = res.get((i, 0))
            if base is None or base[1] != "ok" or base[2]["status"] != "ok":
                ck.case(("card", i, "base"), nontrivial=False)
                ck.inconclusive(f"baseline solve of card {i} unusable: {base and (base[1], str(base[2])[:200])}")
                continue
            d0 = base[2]["digest"]
            n_ops = sum(1 for k in d0 if k.startswith("operators/") and k.endswith(".lz4"))
            n_parts = sum(1 for k in d0 if k.startswith("parts/") and k.endswith(".lz4"))
            for j in range(1, len(seeds) + 1):
                got = res.get((i, j))
                key = (json.dumps(desc, sort_keys=True), j)
                if got is None or got[1] != "ok" or got[2]["status"] != "ok":
                    ck.case(key, nontrivial=False)
                    ck.inconclusive(f"solve card {i} run {j} unusable: {got and (got[1], str(got[2])[:200])}")
                    continue
                hs = got[0]["hashseed"]
                d = got[2]["digest"]
                ck.hit("archives_compared")
                if th["order"][1] > 0 and any(nf >= 5 for _mu, nf in op["mugrid"]):
                    ck.hit("qed_nf5_archives_compared")
                ck.hit("members_compared", len(set(d) | set(d0)))
                ck.case(key, nontrivial=n_ops >= 1 and n_parts >= 2, sample=dict(card=desc, hashseed=[seeds[0], hs], members=len(d0), operators=n_ops, parts=n_parts))
                df = ad.diff(d0, d)
                if not df:
                    ck.ok()
                    continue
                names_differ = set(d) != set(d0)
                kinds = sorted({x[1:].split("/")[0].split(".")[0] for x in df})
                if names_differ:
                    mkey = "C47/member-names/" + "+".join(kinds)
                else:
                    mkey = "C47/content/" + "+".join(sorted({("yaml" if x.endswith(".yaml") else "array") + ":" + x[1:].split("/")[0].split(".")[0] for x in df}))
                ck.violation(
                    mkey,
                    f"same cards, PYTHONHASHSEED {seeds[0]} vs {hs}: archives differ in {len(df)} members: {df[:6]}",
                    dict(theory=th, operator=op, hashseeds=[seeds[0], hs], diff=df[:30], seed=ck.seed),
                )
