"""C20: beta-function and mass anomalous-dimension coefficients match the literature."""

import numpy as np

from ..oracles import literature as lit

META = dict(
    level="exploration",
    design_ref="DESIGN.md §5 C20",
    technique="reference-table monitor: every coefficient function of eko.beta/eko.gamma evaluated over nf=0..6 (x nl) against two independent hand transcriptions of the literature",
    level_text="Exhaustive evaluation of the finite coefficient table (all orders implemented x nf 0..6 x nl 2,3) against exact rational/zeta literature values; degree+1 points pin each polynomial in nf.",
    level_note="Trusted base: my transcription of Herzog et al. 2017, Vermaseren-Larin-van Ritbergen 1997 and Surguladze 1996 (exact and decimal forms cross-checked against each other in-run).",
    rule="cases = (function, nf[, nl]) for nf 0..6; all are distinct; non-trivial = literature value is a non-constant polynomial in nf or the coefficient is nf-independent but non-zero",
    min_nontrivial=20,
)

TOL = 1e-13


def run(ck):
    from eko import beta, gamma

    bad = lit.selfcheck()
    if bad:
        ck.inconclusive(f"oracle transcriptions disagree: {bad[:2]}")
        return
    table = []  # (name, callable(nf)->value, oracle(nf)->value)
    for k in range(4):
        table.append((f"beta_qcd({k + 2},0)", lambda nf, k=k: beta.beta_qcd((k + 2, 0), nf), lambda nf, k=k: lit.beta_qcd(k, nf)))
        table.append((f"gamma_m({k + 1})", lambda nf, k=k: gamma.gamma(k + 1, nf), lambda nf, k=k: lit.gamma_m(k, nf)))
    table.append(("beta_qcd(2,1)", lambda nf: beta.beta_qcd((2, 1), nf), lit.beta_qcd_mixed))
    for nl in (2, 3):
        for kk in ((0, 2), (0, 3), (1, 2)):
            table.append(
                (f"beta_qed{kk} nl={nl}", lambda nf, kk=kk, nl=nl: beta.beta_qed(kk, nf, nl), lambda nf, kk=kk, nl=nl: lit.beta_qed(kk, nf, nl))
            )
    for name, fn, orc in table:
        diffs = []
        for nf in range(0, 7):
            try:
                got = float(fn(nf))
            except Exception as e:  # the table must be evaluable
                ck.case((name, nf), sample=None)
                ck.violation(f"C20/{name.split(' ')[0]}/raises", f"{name} raised {type(e).__name__}: {e}", dict(name=name, nf=nf))
                continue
            want = float(orc(nf))
            ck.hit("coefficients_compared")
            ck.case((name, nf), nontrivial=want != 0.0, sample=dict(fn=name, nf=nf, code=got, literature=want))
            d = got - want
            diffs.append(d)
            if abs(d) > TOL * max(1.0, abs(want)):
                pass
            else:
                ck.ok()
        diffs = np.array(diffs)
        if len(diffs) == 7 and np.any(np.abs(diffs) > TOL * 1e4):
            # name the wrong monomial: fit the difference polynomial in nf
            co = np.polyfit(np.arange(7.0), diffs, 3)[::-1]
            wrong = [f"nf^{i}: {c:+.6g}" for i, c in enumerate(co) if abs(c) > 1e-9]
            ck.violation(
                f"C20/{name.split(' ')[0]}",
                f"{name} differs from the literature; difference polynomial {wrong}",
                dict(name=name, diffs=diffs.tolist(), diff_poly=co.tolist()),
            )
    # normalised b-coefficients are plain ratios of the above
    for nf in range(3, 7):
        for k in ((3, 0), (4, 0), (5, 0)):
            got = beta.b_qcd(k, nf)
            want = float(lit.beta_qcd(k[0] - 2, nf) / lit.beta_qcd(0, nf))
            ck.case(("b_qcd", k, nf))
            ck.hit("coefficients_compared")
            if abs(got - want) > TOL * 10 * max(1, abs(want)):
                ck.violation("C20/b_qcd", f"b_qcd{k} nf={nf}: {got} vs {want}", dict(k=k, nf=nf, got=got, want=want))
            else:
                ck.ok()
    ck.note(exhaustive=True)
