"""C14: QED x QCD kernels reduce to the QCD kernels when alpha_em vanishes."""

import math

import numpy as np

from .. import jobs
from .. import workload as wl
from ..oracles import pathord as po

META = dict(
    level="exploration",
    design_ref="DESIGN.md §5 C14",
    technique="reference-model monitor at kernel level (QED singlet/valence/non-singlet kernels at a_em=0 vs a harness product of oracle matrix exponentials / 24-point Gauss quadrature over the same coupling steps) plus an end-to-end ladder of real eko.solve runs (order (n,1), alpha_em -> 0, iterations K) against the pure-QCD solve",
    level_text="Kernel level: randomised exploration over random QCD towers embedded in QED grids and over the real ekore QED grids at random complex N, orders (1-4,1-2), nf 3-6, 1-40 steps, both directions. End to end: a small ladder of real solves (tiny grids); 'converges' is decided as bounded progress (difference falls >= 6x per 4x iterations, alpha_em dependence falls with alpha_em, Richardson-extrapolated operators agree). Nothing is claimed for configurations not run.",
    level_note="Trusted base: scipy.linalg.expm, Gauss-Legendre quadrature validated against mpmath.quad in-run, literature beta coefficients, and (for the real grids) ekore's pure-QCD anomalous dimensions as the QCD side of the comparison, which is what the property states. The e2e part trusts nothing but the two real solves.",
    rule="kernel case = (sector, grid source, order, nf, N or random tower, coupling steps); e2e case = (order, nf, alpha_em, K); non-trivial = kernel differs from the identity by > 1e-2 and at least 2 coupling steps, e2e: QCD operator differs from the identity by > 1e-2",
    min_nontrivial=200,
    required_hits=["kernel_singlet", "kernel_valence", "kernel_ns", "kernel_real_grids", "kernel_via_quad_ker", "e2e_ladder", "oracle_crosscheck_mp"],
    max_inconclusive_frac=0.05,
)
META["level_text"] += " The runner's own quad_ker_qed is evaluated at fixed N (a_em=0, both N3LO variants forced in every chunk, random variation indices); end-to-end ladders cross the bottom matching scale at 1.5 m_b and the top threshold."

TOL = 1e-11
# (g, gamma, Sigma, Sigma_Delta) <- eko QCD singlet layout [[qq,qg],[gq,gg]] acting on (Sigma, g)
SIG, GLU, PHO, SDEL = 2, 0, 1, 3


def embed_singlet(gs, gnsp, order, rng=None):
    """QCD tower gs[k] (2x2), gnsp[k] -> QED grid (o0+1, o1+1, 4, 4); a_em>0 slots filled with junk (they multiply a_em=0)."""
    G = np.zeros((order[0] + 1, order[1] + 1, 4, 4), dtype=complex)
    if rng is not None:
        G[:, 1:] = rng.normal(size=G[:, 1:].shape) * 5.0
    for k in range(order[0]):
        G[k + 1, 0, SIG, SIG] = gs[k][0, 0]
        G[k + 1, 0, SIG, GLU] = gs[k][0, 1]
        G[k + 1, 0, GLU, SIG] = gs[k][1, 0]
        G[k + 1, 0, GLU, GLU] = gs[k][1, 1]
        G[k + 1, 0, SDEL, SDEL] = gnsp[k]
    return G


def expected_singlet(gs, gnsp, as_list, ah, bet):
    K = np.zeros((4, 4), dtype=complex)
    S = po.qcd_step_product(gs, as_list, ah, bet)
    K[SIG, SIG], K[SIG, GLU], K[GLU, SIG], K[GLU, GLU] = S[0, 0], S[0, 1], S[1, 0], S[1, 1]
    K[PHO, PHO] = 1.0
    K[SDEL, SDEL] = po.qcd_step_product(np.asarray(gnsp).reshape(-1, 1, 1), as_list, ah, bet)[0, 0]
    return K


def _steps(rng, it):
    a0 = float(rng.uniform(0.005, 0.045))
    r = float(rng.uniform(1.2, 3.5))
    a1 = a0 * r if (rng.random() < 0.5 and a0 * r < 0.055) else a0 / r
    # boundaries and midpoints the way the runner makes them are only one choice; any monotone list is legal input
    t = np.sort(rng.uniform(0, 1, it - 1)) if it > 1 else np.array([])
    t = np.concatenate([[0.0], 0.5 * t + 0.5 * np.linspace(0, 1, it + 1)[1:-1], [1.0]])
    as_list = a0 * (a1 / a0) ** t
    ah = np.zeros((it, 2))
    w = rng.uniform(0.35, 0.65, it)
    ah[:, 0] = as_list[:-1] * (1 - w) + as_list[1:] * w
    return a0, a1, as_list, ah


_QKB = []


def _quad_ker_base():
    """The real quad_ker module and its QuadKerBase with the contour point replaced by a chosen N."""
    if not _QKB:
        import importlib

        qk = importlib.import_module("eko.evolution_operator.quad_ker")

        class Base(qk.QuadKerBase):
            def __init__(self, n, mode0):
                super().__init__(0.5, True, -1.0, mode0)
                self._n = n

            n = property(lambda self: self._n)

        _QKB.extend([qk, Base])
    return _QKB


def _relm(K, R):
    return float(np.linalg.norm(K - R) / np.linalg.norm(R))


def _kernel_chunk(arg):
    seed, cid, nrand, nreal = arg
    import ekore.anomalous_dimensions.unpolarized.space_like as ad_us
    from eko.kernels import EvoMethods as EM
    from eko.kernels import non_singlet_qed as qed_ns
    from eko.kernels import singlet_qed as qed_s
    from eko.kernels import valence_qed as qed_v

    rng = np.random.default_rng([seed, 14, cid])
    out = []

    def rec(sector, src, order, nf, it, dev, nontrivial, wit, mech=None):
        out.append(dict(sector=sector, src=src, order=order, nf=nf, it=it, dev=dev, nontrivial=bool(nontrivial), wit=wit, cid=cid, mech=mech))

    for i in range(nrand + nreal):
        real = i >= nrand
        order = (int(rng.integers(1, 5)), int(rng.integers(1, 3)))
        if real and order[0] == 4 and rng.random() < 0.7:
            order = (int(rng.integers(1, 4)), order[1])  # the N3LO grids are slow in interpreter mode
        forced = real and i == nrand  # ... but every chunk has one N3LO case, alternating between the two N3LO variants
        if forced:
            order = (4, order[1])
        nf = int(rng.integers(3, 7))
        if real and order[0] == 4:
            nf = min(nf, 5)  # ekore refuses nf=6 at N3LO ("nf=6 is not available at N3LO"): a clean refusal, nothing to compare
        it = int(rng.integers(1, 41))
        a0, a1, as_list, ah = _steps(rng, it)
        bet = po.betas(nf, order[0])
        n0 = order[0]
        if real:
            N = complex(rng.uniform(1.2, 6.0), rng.uniform(-4.0, 4.0))
            fh = bool(rng.integers(2))
            if forced:
                fh = cid % 2 == 1
            # N3LO variation indices (valid for both variants); only matter at order 4
            var = tuple(int(x) for x in rng.integers(0, 3, 4)) + ((tuple(int(x) for x in rng.integers(0, 3, 3))) if fh else (0, 0, 0))
            if rng.random() < 0.4:
                var = (0, 0, 0, 0, 0, 0, 0)
            gs = ad_us.gamma_singlet((n0, 0), N, nf, var, fh)
            gp = ad_us.gamma_ns((n0, 0), 10101, N, nf, var, fh)
            gm = ad_us.gamma_ns((n0, 0), 10201, N, nf, var, fh)
            gv = ad_us.gamma_ns((n0, 0), 10200, N, nf, var, fh)
            G4 = ad_us.gamma_singlet_qed(order, N, nf, var, fh)
            G2 = ad_us.gamma_valence_qed(order, N, nf, var, fh)
            src = "ekore"
            base = dict(N=N, use_fhmruvv=fh, n3lo_ad_variation=list(var))
        else:
            gs = po.tower(rng, n0)
            gp, gm, gv = (po.tower(rng, n0)[:, 0, 0] for _ in range(3))
            G4 = embed_singlet(gs, gp, order, rng)
            G2 = np.zeros((n0 + 1, order[1] + 1, 2, 2), dtype=complex)
            G2[:, 1:] = rng.normal(size=G2[:, 1:].shape) * 5.0
            full = rng.random() < 0.5  # a non-diagonal QCD valence block is legal input for the kernel too
            for k in range(n0):
                G2[k + 1, 0] = np.diag([gv[k], gm[k]])
                if full:
                    G2[k + 1, 0, 0, 1], G2[k + 1, 0, 1, 0] = gs[k][0, 1], gs[k][1, 0]
            src = "random"
            base = dict()
        base.update(order=list(order), nf=nf, ev_op_iterations=it, as_list=as_list.tolist(), a_half=ah.tolist())
        # ---- singlet 4x4
        K = qed_s.dispatcher(order, EM.ITERATE_EXACT, G4.copy(), as_list, ah, nf, it, (10, 0))
        R = expected_singlet(gs, gp, as_list, ah[:, 0], bet)
        # known mechanism (see known_findings.json, C30/singlet/as4/sigma-delta): the N3LO FHMRUVV Sigma_Delta entry is
        # gamma_ns+ at the *qq* variation slot. Recognised only if the kernel reproduces exactly that.
        R_alt = None
        if real and n0 == 4 and fh and var[3] != var[4]:
            v_alt = var[:4] + (var[3],) + var[5:]
            R_alt = expected_singlet(gs, ad_us.gamma_ns((n0, 0), 10101, N, nf, v_alt, fh), as_list, ah[:, 0], bet)
        dev = _relm(K, R)
        mech = "SdeltaSdelta/qq-vs-nsp-variation" if (dev > TOL and R_alt is not None and _relm(K, R_alt) <= TOL) else None
        rec("singlet", src, order, nf, it, dev, it >= 2 and np.linalg.norm(R - np.eye(4)) > 1e-2, dict(base, gamma=G4.tolist(), K=K.tolist(), expected=R.tolist()), mech)
        # ---- valence 2x2
        K = qed_v.dispatcher(order, EM.ITERATE_EXACT, G2.copy(), as_list, ah, nf, it, (10, 0))
        R = po.qcd_step_product(G2[1:, 0] if not real else np.array([np.diag([gv[k], gm[k]]) for k in range(n0)]), as_list, ah[:, 0], bet)
        rec("valence", src, order, nf, it, _relm(K, R), it >= 2 and np.linalg.norm(R - np.eye(2)) > 1e-2, dict(base, gamma=G2.tolist(), K=K.tolist(), expected=R.tolist()))
        # ---- non-singlet (running-alpha_em product form and the fixed-alpha_em closed form)
        modes = ((10102, gp), (10103, gp), (10202, gm), (10203, gm))
        mode, gq = modes[int(rng.integers(4))]
        if real:
            g1 = ad_us.gamma_ns_qed(order, mode, N, nf, var, base["use_fhmruvv"])
        else:
            g1 = np.zeros((n0 + 1, order[1] + 1), dtype=complex)
            g1[:, 1:] = rng.normal(size=g1[:, 1:].shape) * 5.0
            g1[1:, 0] = gq
        mu2f = float(rng.uniform(2, 100))
        mu2t = mu2f * float(rng.uniform(0.01, 100))
        ref, lg = po.ns_exact_float(np.asarray(gq), as_list[0], as_list[-1], bet)
        k1 = qed_ns.dispatcher(order, EM.ITERATE_EXACT, g1.copy(), as_list, np.zeros(it), bool(rng.integers(2)), nf, it, mu2f, mu2t)
        k2 = qed_ns.fixed_alphaem_exact(order, g1.copy(), as_list[-1], as_list[0], 0.0, nf, mu2f, mu2t)
        dev = max(abs(k1 - ref), abs(k2 - ref)) / (abs(ref) * (1 + abs(lg)))
        rec("ns", src, order, nf, it, float(dev), abs(ref - 1) > 1e-2, dict(base, mode=mode, gamma=g1.tolist(), mu2_from=mu2f, mu2_to=mu2t, K_steps=k1, K_fixed=k2, expected=ref))
        if not real:
            continue
        # ---- the same three sectors the way the runner reaches them: eko.evolution_operator.quad_ker.quad_ker_qed
        # at a fixed Mellin moment (QuadKerBase with its contour point replaced by N), a_em = 0, same steps and flags
        qk, Base = _quad_ker_base()
        from eko import scale_variations as sv

        def via(m0, m1):
            return complex(qk.quad_ker_qed(Base(N, m0), order, m0, m1, EM.ITERATE_EXACT, as_list, mu2f, mu2t, ah, False, nf, 0.0, it, 10, sv.Modes.unvaried, False, var, fh))

        Rs = expected_singlet(gs, gp, as_list, ah[:, 0], bet)
        lab = {21: GLU, 22: PHO, 100: SIG, 101: SDEL}
        prs = [(a, b) for a in lab for b in lab]
        # N3LO grids are slow in interpreter mode: the QCD block, Sigma_Delta and one photon entry
        sel = prs if order[0] < 4 else [(21, 21), (21, 100), (100, 21), (100, 100), (101, 101), (22, 22), prs[int(rng.integers(16))]]
        got = {(a, b): via(a, b) for a, b in sel}
        dev = max(abs(got[a, b] - Rs[lab[a], lab[b]]) for a, b in sel) / np.linalg.norm(Rs)
        mech = None
        if dev > TOL and R_alt is not None and max(abs(got[a, b] - R_alt[lab[a], lab[b]]) for a, b in sel) / np.linalg.norm(Rs) <= TOL:
            mech = "SdeltaSdelta/qq-vs-nsp-variation"
        rec("singlet", "ekore-via-quad_ker", order, nf, it, float(dev), it >= 2, dict(base, entries=sel, got=[got[k] for k in sel], expected=Rs.tolist(), mu2_from=mu2f, mu2_to=mu2t), mech)
        Rv = po.qcd_step_product(np.array([np.diag([gv[k], gm[k]]) for k in range(n0)]), as_list, ah[:, 0], bet)
        lv = {10200: 0, 10204: 1}
        prs = [(a, b) for a in lv for b in lv]
        sel = prs if order[0] < 4 else [prs[int(rng.integers(4))]]
        dev = max(abs(via(a, b) - Rv[lv[a], lv[b]]) for a, b in sel) / np.linalg.norm(Rv)
        rec("valence", "ekore-via-quad_ker", order, nf, it, float(dev), it >= 2, dict(base, entries=sel, expected=Rv.tolist(), mu2_from=mu2f, mu2_to=mu2t))
        kq = via(mode, 0)
        dev = abs(kq - ref) / (abs(ref) * (1 + abs(lg)))
        rec("ns", "ekore-via-quad_ker", order, nf, it, float(dev), abs(ref - 1) > 1e-2, dict(base, mode=mode, mu2_from=mu2f, mu2_to=mu2t, K=kq, expected=ref))
    return out


# ------------------------------------------------------------------ end to end
E2E_CFG = {
    3: dict(init=(1.0, 3), mugrid=((1.45, 3),)),
    4: dict(init=(1.65, 4), mugrid=((3.0, 4),)),
    5: dict(init=(5.0, 5), mugrid=((20.0, 5),)),
    45: dict(init=(2.0, 4), mugrid=((8.0, 5),)),  # crosses the bottom threshold: two segments + matching
    # the same with the bottom matching scale at 1.5 m_b: the a_s matching is non-trivial already at NLO, so the
    # coupling steps of the QED and QCD operators only agree if both resolve the boundary to the same patch
    # across the top threshold (the only place where all QED-basis non-singlet combinations are active in the matching)
    56: dict(init=(100.0, 5), mugrid=((300.0, 6),)),
    451: dict(init=(2.0, 4), mugrid=((10.0, 5),), ratios=(1.0, 1.5, 1.0)),
}


def _solve(arg):
    order, nfkey, aem, K = arg
    cfg = E2E_CFG[nfkey]
    th = wl.raw_theory(order=order, alphaem=aem if order[1] > 0 else 0.007496252, ratios=cfg.get("ratios", (1.0, 1.0, 1.0)))
    op = wl.raw_operator(init=cfg["init"], mugrid=cfg["mugrid"], xgrid=(1e-2, 0.1, 1.0), method="iterate-exact", iterations=K, degree=1)
    out = wl.solve(th, op)
    ((E, err),) = out.values()
    idx = list(range(1, 14))  # drop the photon
    return E[idx][:, :, idx], (np.zeros_like(E) if err is None else err)[idx][:, :, idx]


def _e2e(ck):
    AEMS = [1e-4, 1e-6, 1e-8]
    if ck.quick:
        ladders = [((2, 4), [10, 40]), ((2, 451), [10, 40]), ((1, 56), [10, 40])]
    else:
        ladders = [((2, 3), [10, 40, 160]), ((2, 4), [10, 40, 160]), ((2, 5), [10, 40, 160]), ((2, 45), [10, 40, 160]), ((2, 451), [10, 40, 160]), ((3, 45), [10, 40]), ((3, 4), [10, 40]), ((1, 56), [10, 40, 160]), ((2, 56), [10, 40])]
    items = []
    for (n, nfk), Ks in ladders:
        for K in Ks:
            items.append(((n, 0), nfk, 0.0, K))
            for aem in AEMS:
                items.append(((n, 1), nfk, aem, K))
    res = {}
    for it, st, val in jobs.pmap(_solve, items, timeout=ck.n(1500, 9000)):
        if st == "ok":
            res[it] = val
        else:
            res[it] = None
            ck.inconclusive(f"e2e solve {it} {st}: {str(val)[-200:]}")
    for (n, nfk), Ks in ladders:
        need = [((n, 0), nfk, 0.0, K) for K in Ks] + [((n, 1), nfk, a, K) for K in Ks for a in AEMS]
        if any(res.get(i) is None for i in need):
            ck.case(("e2e", n, nfk), nontrivial=False)
            continue
        keyb = f"C14/e2e/order{n}1/nf{nfk}"
        Eq = {K: res[((n, 0), nfk, 0.0, K)] for K in Ks}
        Ed = {(a, K): res[((n, 1), nfk, a, K)] for K in Ks for a in AEMS}
        scale = float(np.abs(Eq[Ks[-1]][0]).max())
        ident = np.einsum("ij,kl->ikjl", np.eye(13), np.eye(3))
        nontriv = float(np.abs(Eq[Ks[-1]][0] - ident).max()) > 1e-2
        D = {(a, K): float(np.abs(Ed[(a, K)][0] - Eq[K][0]).max()) for K in Ks for a in AEMS}
        qerr = max(float(np.abs(Ed[(a, K)][1]).max()) + float(np.abs(Eq[K][1]).max()) for K in Ks for a in AEMS)
        wit0 = dict(order=[n, 1], nf=nfk, cfg=E2E_CFG[nfk], iterations=Ks, alphaem=AEMS, D={f"{a:g}/{K}": v for (a, K), v in D.items()}, quad_error=qerr, scale=scale)
        # (a) the alpha_em dependence of the QED operator vanishes with alpha_em
        for K in Ks:
            ck.case(("e2e-aem", n, nfk, K), nontrivial=nontriv, sample=dict(e2e="alphaem-dependence", order=[n, 1], nf=nfk, K=K, D=[D[(a, K)] for a in AEMS]))
            ck.hit("e2e_ladder")
            d4 = float(np.abs(Ed[(1e-4, K)][0] - Ed[(1e-8, K)][0]).max())
            d6 = float(np.abs(Ed[(1e-6, K)][0] - Ed[(1e-8, K)][0]).max())
            if d4 <= 50 * 1e-4 * scale and d6 <= max(d4 / 10.0, qerr):
                ck.ok()
            else:
                ck.violation(keyb + "/alphaem-dependence", f"e2e order ({n},1) K={K}: |E(1e-4)-E(1e-8)|={d4:.2e}, |E(1e-6)-E(1e-8)|={d6:.2e}: alpha_em dependence does not vanish linearly", dict(wit0, K=K, d4=d4, d6=d6))
        # (b) at alpha_em=1e-8 the distance to pure QCD falls >= 6x per 4x iterations
        for K1, K2 in zip(Ks[:-1], Ks[1:]):
            ck.case(("e2e-K", n, nfk, K1, K2), nontrivial=nontriv, sample=dict(e2e="iterations", order=[n, 1], nf=nfk, K=[K1, K2], D=[D[(1e-8, K1)], D[(1e-8, K2)]]))
            ck.hit("e2e_ladder")
            d1, d2 = D[(1e-8, K1)], D[(1e-8, K2)]
            if d1 <= 10 * qerr:
                ck.ok()  # already at the accuracy of the Mellin inversion
            elif d1 >= 6.0 * max(d2, qerr):
                ck.ok()
            elif d2 <= 10 * qerr:
                ck.inconclusive(f"{keyb}: D({K2}) at the quadrature floor, ratio not measurable")
            else:
                ck.violation(keyb + "/iterations", f"e2e order ({n},1) alpha_em=1e-8: |E_QED-E_QCD| = {d1:.3e} (K={K1}) -> {d2:.3e} (K={K2}), ratio {d1 / d2:.1f} < 6", dict(wit0, K=[K1, K2]))
        # (c) the K -> infinity limits agree: Richardson extrapolation of both second-order discretisations
        K1, K2 = Ks[-2], Ks[-1]
        w = (K2 / K1) ** 2
        Rq = (w * Eq[K2][0] - Eq[K1][0]) / (w - 1)
        Rd = (w * Ed[(1e-8, K2)][0] - Ed[(1e-8, K1)][0]) / (w - 1)
        dr = float(np.abs(Rd - Rq).max())
        bound = 2.0 * qerr  # twice the integration error the two solves report themselves (observed: 1e-8..6e-7, i.e. 30x below)
        ck.case(("e2e-limit", n, nfk), nontrivial=nontriv, sample=dict(e2e="extrapolated-limit", order=[n, 1], nf=nfk, K=[K1, K2], diff=dr, bound=bound, D_last=D[(1e-8, K2)]))
        ck.hit("e2e_ladder")
        ck.extra.setdefault("e2e_summary", []).append(dict(order=[n, 1], nf=nfk, iterations=Ks, D={f"{a:g}/{K}": v for (a, K), v in D.items()}, quad_error=qerr, extrapolated_diff=dr, extrapolated_bound=bound, scale=scale))
        if dr <= bound:
            ck.ok()
        else:
            ck.violation(keyb + "/limit", f"e2e order ({n},1) alpha_em=1e-8: extrapolated (K->inf) QED and QCD operators differ by {dr:.3e} > {bound:.3e}", dict(wit0, K=[K1, K2], extrapolated_diff=dr, bound=bound))


HITS = dict(singlet="kernel_singlet", valence="kernel_valence", ns="kernel_ns")


def run(ck):
    # oracle self-check: Gauss-Legendre vs mpmath.quad
    worst = 0.0
    for _ in range(ck.n(10, 40)):
        n = int(ck.rng.integers(1, 5))
        g = po.tower(ck.rng, n)[:, 0, 0]
        a0, a1 = ck.rng.uniform(0.004, 0.055, 2)
        bet = po.betas(int(ck.rng.integers(3, 7)), n)
        r1, lg = po.ns_exact(g, a0, a1, bet)
        r2, _ = po.ns_exact_float(g, a0, a1, bet)
        worst = max(worst, abs(r1 - r2) / abs(r1) / (1 + abs(lg)))
    ck.hit("oracle_crosscheck_mp")
    ck.note(oracle_dev_scalar=worst)
    if worst > 1e-14:
        ck.inconclusive(f"oracle cross-check failed: {worst:.2e}")
        return
    nrand, nreal = ck.n(200, 5000), ck.n(70, 1700)
    nch = ck.n(10, 100)
    chunks = [(ck.seed, cid, math.ceil(nrand / nch), math.ceil(nreal / nch)) for cid in range(nch)]
    idx = 0
    for item, st, val in jobs.pmap(_kernel_chunk, chunks, timeout=ck.n(1200, 7200)):
        if st != "ok":
            ck.case(("chunk", item[1]), nontrivial=False)
            ck.inconclusive(f"chunk {item[1]} {st}: {str(val)[:300]}")
            continue
        for r in val:
            idx += 1
            o = r["order"]
            ck.case((r["sector"], r["src"], tuple(o), r["nf"], r["cid"], idx), nontrivial=r["nontrivial"], sample=dict(sector=r["sector"], grid=r["src"], order=list(o), nf=r["nf"], steps=r["it"], rel_dev=r["dev"]) if idx % 53 == 0 else None)
            ck.hit(HITS[r["sector"]])
            if r["src"] == "ekore":
                ck.hit("kernel_real_grids")
            if r["src"] == "ekore-via-quad_ker":
                ck.hit("kernel_via_quad_ker")
            if np.isfinite(r["dev"]) and r["dev"] <= TOL:
                ck.ok()
            else:
                ck.violation(
                    f"C14/kernel-{r['sector']}/order{o[0]}x/{r['mech']}" if r.get("mech") else f"C14/kernel-{r['sector']}/{r['src']}/order{o[0]}{o[1]}",
                    f"QED {r['sector']} kernel at a_em=0 ({r['src']} grid, order {tuple(o)}, {r['it']} steps) differs from the QCD kernel over the same steps by {r['dev']:.3e} > {TOL}",
                    dict(r["wit"], rel_dev=r["dev"], tol=TOL),
                )
    _e2e(ck)
