"""C21: scale-variation prescriptions equal their renormalisation-group expansions.

Every public function of ``eko.scale_variations.exponentiated`` and
``eko.scale_variations.expanded`` is run on random (non-commuting, complex)
anomalous dimensions and compared with the sympy-derived re-expansion of
gamma(a(mu^2)) in a(xi^2 mu^2) resp. the truncated path-ordered exponential
(``vlib/oracles/rginv_sv.py``), betas from ``vlib/oracles/literature.py``.
"""

from __future__ import annotations

import numpy as np

from ..oracles import literature as lit
from ..oracles import rginv_sv as sv

META = dict(
    level="exploration",
    design_ref="DESIGN.md §5 C21",
    technique="reference-model monitor: real scale-variation functions on random non-commuting complex matrices vs. sympy (non-commutative) RG re-expansion / truncated path-ordered exponential, literature betas, 1e-12",
    level_text="Randomised exploration over (function, order, nf, shape, L, running flag); the functions are polynomial in their inputs, so agreement on random non-commuting complex inputs at 1e-12 pins every coefficient that the sampled orders reach.  Held means no disagreement on the sampled inputs.",
    level_note="Trusted base: sympy series in oracles/rginv_sv.py (validated in-run against a numerical ODE integration of the definitions), beta_0..beta_2 and beta_0^QED of oracles/literature.py.  QED variants: QCD-axis rule plus the documented alpha_em term only (mixed O(as aem) terms are documented as neglected).",
    rule="case = (function, order, nf, matrix dimension, running flag, draw index) with random complex gamma and L; distinct by that tuple; non-trivial when L != 0, the result differs from the input (order >= 2 or QED term active) and, for matrix inputs, the relative commutator |[g0,g1]|/(|g0||g1|) exceeds 0.05",
    min_nontrivial=200,
    required_hits=[
        "gamma_variation",
        "gamma_variation_qed_running",
        "gamma_variation_qed_fixed",
        "variation_as1",
        "variation_as2",
        "variation_as3",
        "non_singlet_variation",
        "singlet_variation_dim2",
        "singlet_variation_dim4",
        "non_singlet_variation_qed",
        "singlet_variation_qed",
        "valence_variation_qed",
    ],
    max_inconclusive_frac=0.02,
)

TOL = 1e-12


def _betas(nf):
    return tuple(float(lit.beta_qcd(k, nf)) for k in range(3))


def _rand(rng, shape):
    return rng.normal(size=shape) + 1j * rng.normal(size=shape)


def _rand_gamma(rng, n, dim):
    """n anomalous dimensions: scalars (dim=0) or dim x dim complex matrices with varied magnitudes."""
    mags = 10 ** rng.uniform(-1, 1.5, size=n)
    if dim == 0:
        return np.array([m * _rand(rng, ()) for m in mags])
    return np.array([m * _rand(rng, (dim, dim)) for m in mags])


def _rand_L(rng):
    u = rng.uniform()
    if u < 0.04:
        return 0.0
    if u < 0.15:  # the customary xi = 1/2, 2 (and their squares)
        return float(np.log(rng.choice([0.25, 0.5, 2.0, 4.0])))
    return float(rng.uniform(-3.0, 3.0))


def _commutator(g):
    if g.ndim != 3 or g.shape[0] < 2:
        return 1.0
    a, b = g[0], g[1]
    return float(np.abs(a @ b - b @ a).max() / (np.abs(a).max() * np.abs(b).max() * a.shape[0] + 1e-300))


def _close(got, want, scale):
    return np.all(np.abs(np.asarray(got) - np.asarray(want)) <= TOL * max(scale, 1e-300))


def _lst(x):
    """arrays as nested lists so that the replay file keeps every number"""
    return None if x is None else np.asarray(x).tolist()


def _witness(fn, order, nf, L, gamma, got, want, **kw):
    return dict(function=fn, order=list(order), nf=nf, L=L, gamma=_lst(gamma), observed=_lst(got), expected=_lst(want), **kw)


# ------------------------------------------------------------ exponentiated
def _expected_gbar(g, order0, nf, L):
    """QCD rule on a tower g[0..order0-1] -> (array, scale)."""
    res = sv.gbar(list(g), order0, _betas(nf), L)
    return np.array([r[0] for r in res]), max(r[1] for r in res)


def _check_gamma_variation(ck, rng, idx, seed):
    from eko.scale_variations import exponentiated as ex

    order0 = 1 + idx % 4
    nf = 3 + (idx // 4) % 4
    dim = (0, 2, 4)[(idx // 16) % 3]
    L = _rand_L(rng)
    g = _rand_gamma(rng, order0, dim)
    want, scale = _expected_gbar(g, order0, nf, L)
    arg = g.copy()
    ck.hit("gamma_variation")
    key = ("gamma_variation", order0, nf, dim, idx)
    nontriv = L != 0.0 and order0 >= 2 and _commutator(g) > 0.05
    ck.case(key, nontrivial=nontriv, sample=dict(function="gamma_variation", order=order0, nf=nf, dim=dim, L=L))
    mech = f"C21/exponentiated/gamma_variation/order{order0}"
    try:
        ret = ex.gamma_variation(arg, (order0, 0), nf, L)
    except Exception as e:
        ck.violation(mech + "/raises", f"gamma_variation raised {type(e).__name__}: {e}", _witness("gamma_variation", (order0, 0), nf, L, g, None, want, seed=seed))
        return
    if ret is None or np.shape(ret) != g.shape:
        ck.violation(mech + "/return", f"gamma_variation returned {type(ret).__name__} of shape {np.shape(ret)}", _witness("gamma_variation", (order0, 0), nf, L, g, None, want, seed=seed))
        return
    ok = True
    for j in range(order0):
        if not _close(ret[j], want[j], scale):
            ok = False
            ck.violation(
                f"C21/exponentiated/gamma_variation/gbar{j}",
                f"gamma_variation order {order0} nf={nf}: returned gamma[{j}] differs from the RG re-expansion by {np.abs(ret[j] - want[j]).max():.3g} (scale {scale:.3g})",
                _witness("gamma_variation", (order0, 0), nf, L, g, ret, want, index=j, seed=seed),
            )
        if not _close(arg[j], want[j], scale):
            ok = False
            ck.violation(
                f"C21/exponentiated/gamma_variation/inplace{j}",
                f"gamma_variation order {order0}: argument after the call (in-place effect) differs from the RG re-expansion at index {j}",
                _witness("gamma_variation", (order0, 0), nf, L, g, arg, want, index=j, seed=seed),
            )
    if ok:
        ck.ok()


def _check_gamma_variation_qed(ck, rng, idx, seed):
    from eko.scale_variations import exponentiated as ex

    order = (1 + idx % 4, (idx // 4) % 3)
    running = bool((idx // 12) % 2)
    nf = 3 + (idx // 24) % 4
    dim = (0, 4, 2)[(idx // 96 + idx) % 3]
    nl = int(rng.choice([2, 3]))
    L = _rand_L(rng)
    shape = (order[0] + 1, order[1] + 1) + ((dim, dim) if dim else ())
    g = _rand(rng, shape) * 10 ** rng.uniform(-1, 1)
    want = g.copy()
    qcd, scale = _expected_gbar(g[1:, 0], order[0], nf, L)
    want[1:, 0] = qcd
    qed_active = running and order[1] >= 2
    if qed_active:
        b0qed = float(lit.beta_qed((0, 2), nf, nl))
        want[0, 2] = g[0, 2] + b0qed * g[0, 1] * L
        scale = max(scale, float(np.abs(g[0, 2]).max() + abs(b0qed * L) * np.abs(g[0, 1]).max()))
    name = "gamma_variation_qed_running" if running else "gamma_variation_qed_fixed"
    ck.hit(name)
    key = (name, order, nf, dim, nl, idx)
    nontriv = L != 0.0 and (order[0] >= 2 or qed_active)
    ck.case(key, nontrivial=nontriv, sample=dict(function=name, order=list(order), nf=nf, nl=nl, dim=dim, L=L))
    arg = g.copy()
    flag = "running" if running else "fixed"
    mech = f"C21/exponentiated/gamma_variation_qed/{flag}"
    wit = lambda got, **kw: _witness("gamma_variation_qed", order, nf, L, g, got, want, nl=nl, alphaem_running=running, seed=seed, **kw)  # noqa: E731
    try:
        ret = ex.gamma_variation_qed(arg, order, nf, nl, L, running)
    except Exception as e:
        ck.violation(mech + "/raises", f"gamma_variation_qed raised {type(e).__name__}: {e}", wit(None))
        return
    if ret is None:
        ck.violation(
            mech + "/returns-None",
            f"gamma_variation_qed(order={order}, alphaem_running={running}) returned None instead of the adjusted anomalous dimensions",
            wit(None),
        )
        return
    if np.shape(ret) != g.shape:
        ck.violation(mech + "/shape", f"gamma_variation_qed returned shape {np.shape(ret)} for input {g.shape}", wit(None))
        return
    ok = True
    for what, arr in (("return", ret), ("inplace", arg)):
        d = np.abs(arr - want)
        if not np.all(d <= TOL * scale):
            ok = False
            where = np.unravel_index(np.argmax(d.reshape(shape[0], shape[1], -1).max(axis=-1)), shape[:2])
            site = "qcd-axis" if where[1] == 0 and where[0] >= 1 else ("aem-term" if tuple(where) == (0, 2) else "untouched-entry")
            ck.violation(
                f"{mech}/{site}/{what}",
                f"gamma_variation_qed order={order} running={running}: {what} value at gamma[{where[0]},{where[1]}] off by {d.max():.3g} (scale {scale:.3g})",
                wit(arr, index=list(map(int, where))),
            )
    if ok:
        ck.ok()


# ------------------------------------------------------------------ expanded
def _check_variation_terms(ck, rng, idx, seed):
    """variation_as1/2/3 called directly with the products they ask for."""
    from eko.scale_variations import expanded as xp

    j = 1 + idx % 3
    nf = 3 + (idx // 3) % 4
    dim = (0, 2, 4)[(idx // 12) % 3]
    L = _rand_L(rng)
    g = _rand_gamma(rng, 3, dim)
    b = _betas(nf)
    want, scale = sv.evaluate(sv.compiled()["expanded"][j], list(g) + [0 * g[0]], b, L)
    mul = (lambda x, y: x @ y) if dim else (lambda x, y: x * y)
    name = f"variation_as{j}"
    ck.hit(name)
    ck.case((name, nf, dim, idx), nontrivial=L != 0.0 and _commutator(g) > 0.05, sample=dict(function=name, nf=nf, dim=dim, L=L))
    try:
        if j == 1:
            got = xp.variation_as1(g, L)
        elif j == 2:
            got = xp.variation_as2(g, L, b[0], mul(g[0], g[0]))
        else:
            got = xp.variation_as3(g, L, b[0], b[1], mul(g[0], g[0]), mul(mul(g[0], g[0]), g[0]), mul(g[1], g[0]), mul(g[0], g[1]))
    except Exception as e:
        ck.violation(f"C21/expanded/{name}/raises", f"{name} raised {type(e).__name__}: {e}", _witness(name, (j + 1, 0), nf, L, g, None, want, seed=seed))
        return
    if got is None or not _close(got, want, scale):
        ck.violation(
            f"C21/expanded/{name}",
            f"{name} (nf={nf}, dim={dim}) differs from the a^{j} term of the truncated path-ordered exponential by {np.abs(np.asarray(got) - want).max() if got is not None else 'None'}",
            _witness(name, (j + 1, 0), nf, L, g, got, want, seed=seed),
        )
    else:
        ck.ok()


def _check_kernels(ck, rng, idx, seed):
    from eko.scale_variations import expanded as xp

    order0 = 1 + idx % 4
    nf = 3 + (idx // 4) % 4
    dim = (0, 2, 4)[(idx // 16) % 3]
    L = _rand_L(rng)
    a_s = float(10 ** rng.uniform(-2.5, -0.7))
    g = _rand_gamma(rng, order0, dim)
    gl = list(g) + [0 * g[0]] * (4 - order0)
    want, scale = sv.kernel(gl, a_s, order0, _betas(nf), L)
    name = "non_singlet_variation" if dim == 0 else f"singlet_variation_dim{dim}"
    ck.hit(name)
    nontriv = L != 0.0 and order0 >= 2 and (dim == 0 or order0 < 4 or _commutator(g) > 0.05)
    ck.case((name, order0, nf, idx), nontrivial=nontriv, sample=dict(function=name, order=order0, nf=nf, L=L, a_s=a_s))
    try:
        if dim == 0:
            got = xp.non_singlet_variation(g, a_s, (order0, 0), nf, L)
        else:
            got = xp.singlet_variation(g, a_s, (order0, 0), nf, L, dim)
    except Exception as e:
        ck.violation(f"C21/expanded/{name}/raises", f"{name} raised {type(e).__name__}: {e}", _witness(name, (order0, 0), nf, L, g, None, want, a_s=a_s, seed=seed))
        return
    if got is None or np.shape(got) != np.shape(want) or not _close(got, want, scale):
        ck.violation(
            f"C21/expanded/{name}/order{order0}",
            f"{name} order {order0} nf={nf}: kernel differs from the truncated path-ordered exponential by {np.abs(np.asarray(got) - want).max() if got is not None and np.shape(got) == np.shape(want) else 'shape/None'} (scale {scale:.3g})",
            _witness(name, (order0, 0), nf, L, g, got, want, a_s=a_s, seed=seed),
        )
    else:
        ck.ok()


def _check_kernels_qed(ck, rng, idx, seed):
    from eko.scale_variations import expanded as xp

    which = ("non_singlet_variation_qed", "singlet_variation_qed", "valence_variation_qed")[idx % 3]
    dim = {"non_singlet_variation_qed": 0, "singlet_variation_qed": 4, "valence_variation_qed": 2}[which]
    order = (1 + (idx // 3) % 4, (idx // 12) % 3)
    running = bool((idx // 36) % 2)
    nf = 3 + (idx // 72 + idx) % 4
    L = _rand_L(rng)
    a_s = float(10 ** rng.uniform(-2.5, -0.7))
    a_em = float(10 ** rng.uniform(-3.5, -2.0))
    shape = (order[0] + 1, order[1] + 1) + ((dim, dim) if dim else ())
    g = _rand(rng, shape) * 10 ** rng.uniform(-1, 1)
    qcd = g[1:, 0]
    gl = list(qcd) + [0 * qcd[0]] * (4 - order[0])
    want, scale = sv.kernel(gl, a_s, order[0], _betas(nf), L)
    qed_active = running and order[1] >= 2
    if qed_active:
        want = want + a_em * L * g[0, 1]
        scale += abs(a_em * L) * float(np.abs(g[0, 1]).max())
    ck.hit(which)
    ck.case((which, order, running, nf, idx), nontrivial=L != 0.0 and (order[0] >= 2 or qed_active), sample=dict(function=which, order=list(order), running=running, nf=nf, L=L))
    wit = dict(a_s=a_s, a_em=a_em, alphaem_running=running, seed=seed)
    try:
        got = getattr(xp, which)(g, a_s, a_em, running, order, nf, L)
    except Exception as e:
        ck.violation(f"C21/expanded/{which}/raises", f"{which} raised {type(e).__name__}: {e}", _witness(which, order, nf, L, g, None, want, **wit))
        return
    if got is None or np.shape(got) != np.shape(want) or not _close(got, want, scale):
        ck.violation(
            f"C21/expanded/{which}/{'running' if running else 'fixed'}/order{order[0]}-{order[1]}",
            f"{which} order={order} running={running} nf={nf}: kernel differs from QCD path-ordered exponential + documented a_em*L*gamma[0,1] term",
            _witness(which, order, nf, L, g, got, want, **wit),
        )
    else:
        ck.ok()


CHECKS = (
    # (function, share of the budget)
    (_check_gamma_variation, 0.2),
    (_check_gamma_variation_qed, 0.3),
    (_check_variation_terms, 0.1),
    (_check_kernels, 0.2),
    (_check_kernels_qed, 0.2),
)


def run(ck):
    bad = sv.selfcheck()
    if bad:
        ck.inconclusive(f"oracle self-check (symbolic series vs ODE integration of the definitions) failed: {bad[:2]}")
        return
    if lit.selfcheck():
        ck.inconclusive("literature transcriptions disagree")
        return
    total = ck.n(1500, 30000)
    for fn, share in CHECKS:
        n = int(total * share)
        for idx in range(n):
            fn(ck, ck.rng, idx, ck.seed)
    ck.note(orders_qcd=[1, 2, 3, 4], orders_qed="(1-4, 0-2) x running on/off", nf=[3, 4, 5, 6], dims=[0, 2, 4])


def _oracle_for(fn, g, order, nf, L, w):
    """expected value and scale for one recorded call (used by replay)."""
    if fn == "gamma_variation":
        return _expected_gbar(g, order[0], nf, L)
    if fn == "gamma_variation_qed":
        want = g.copy()
        want[1:, 0], scale = _expected_gbar(g[1:, 0], order[0], nf, L)
        if w["alphaem_running"] and order[1] >= 2:
            want[0, 2] = g[0, 2] + float(lit.beta_qed((0, 2), nf, w["nl"])) * g[0, 1] * L
            scale = max(scale, float(np.abs(want[0, 2]).max()))
        return want, scale
    if fn.startswith("variation_as"):
        j = int(fn[-1])
        return sv.evaluate(sv.compiled()["expanded"][j], list(g) + [0 * g[0]], _betas(nf), L)
    if fn == "non_singlet_variation" or fn.startswith("singlet_variation_dim"):
        return sv.kernel(list(g) + [0 * g[0]] * (4 - order[0]), w["a_s"], order[0], _betas(nf), L)
    qcd = g[1:, 0]
    want, scale = sv.kernel(list(qcd) + [0 * qcd[0]] * (4 - order[0]), w["a_s"], order[0], _betas(nf), L)
    if w["alphaem_running"] and order[1] >= 2:
        want = want + w["a_em"] * L * g[0, 1]
        scale += abs(w["a_em"] * L) * float(np.abs(g[0, 1]).max())
    return want, scale


def _call(fn, g, order, nf, L, w):
    from eko.scale_variations import expanded as xp
    from eko.scale_variations import exponentiated as ex

    if fn == "gamma_variation":
        return ex.gamma_variation(g.copy(), order, nf, L)
    if fn == "gamma_variation_qed":
        return ex.gamma_variation_qed(g.copy(), order, nf, w["nl"], L, w["alphaem_running"])
    if fn == "variation_as1":
        return xp.variation_as1(g, L)
    if fn in ("variation_as2", "variation_as3"):
        b = _betas(nf)
        mul = (lambda x, y: x @ y) if g.ndim == 3 else (lambda x, y: x * y)
        if fn == "variation_as2":
            return xp.variation_as2(g, L, b[0], mul(g[0], g[0]))
        return xp.variation_as3(g, L, b[0], b[1], mul(g[0], g[0]), mul(mul(g[0], g[0]), g[0]), mul(g[1], g[0]), mul(g[0], g[1]))
    if fn == "non_singlet_variation":
        return xp.non_singlet_variation(g, w["a_s"], order, nf, L)
    if fn.startswith("singlet_variation_dim"):
        return xp.singlet_variation(g, w["a_s"], order, nf, L, g.shape[-1])
    return getattr(xp, fn)(g, w["a_s"], w["a_em"], w["alphaem_running"], order, nf, L)


def replay(ck, rep):
    """Re-run the recorded call on the recorded inputs (and once more with L/2 as a second, distinct case)."""
    w = rep["witness"]
    a = np.asarray(w["gamma"], dtype=float)
    g = a[..., 0] + 1j * a[..., 1]
    fn, order, nf = w["function"], tuple(w["order"]), w["nf"]
    for L in (w["L"], 0.5 * w["L"] if w["L"] else 0.7):
        ck.case(("replay", fn, L), nontrivial=True, sample=dict(function=fn, order=list(order), nf=nf, L=L, replay=True))
        ck.hit("replay")
        want, scale = _oracle_for(fn, g, order, nf, L, w)
        try:
            got = _call(fn, g, order, nf, L, w)
        except Exception as e:
            ck.violation(rep["key"], f"replayed call raised {type(e).__name__}: {e}", dict(w, L=L))
            continue
        if got is None or np.shape(got) != np.shape(want) or not _close(got, want, scale):
            ck.violation(rep["key"], "replayed call still disagrees with the oracle", dict(w, L=L, observed=_lst(got), expected=_lst(want)))
        else:
            ck.ok()
    ck.meta = dict(ck.meta, required_hits=[])
    ck.min_nontrivial = 0
