"""C07: exact non-singlet kernels solve dE/da = gamma(a)/beta(a) E (QCD and QED fixed-alpha_em)."""

import warnings

import numpy as np

from .. import jobs, workload
from ..oracles import evint

META = dict(
    level="exploration",
    design_ref="DESIGN.md §5 C07",
    technique="contract monitor (icontract.ensure with recording condition) on eko.kernels.non_singlet.dispatcher and non_singlet_qed.fixed_alphaem_exact/exact; every observed call is compared offline with exp(int gamma/beta da) by 30-digit mpmath quadrature using literature beta coefficients; driven by random synthetic towers and by real eko.solve runs",
    level_text="Randomised exploration: orders 1-4 x nf 3-6 x all method names that dispatch to the exact kernel x random complex gamma towers and coupling pairs (both orderings, boundary a1->a0), plus the same contract evaluated on the arguments the real pipeline produces in tiny LO/NLO/NNLO(/N3LO, QED) solves. The reference is the numerical solution of the defining ODE, so any wrong coefficient, operand or nf-specific branch in the kernels or in the beta values they fetch shows as a relative deviation far above the 1e-10 tolerance.",
    level_note="Trusted base: mpmath.quad (error estimate required < 1e-18; cross-checked per run against mpmath.odefun on a sample), hand transcription of beta_0..beta_3 and beta^(2,1) (oracles/literature, self-checked against decimal forms). Interpreter mode only (NUMBA_DISABLE_JIT=1); compiled build is C48's subject.",
    rule="case = one observed dispatcher call (order, method, nf, gamma tower, a0, a1[, a_em, mu2]); distinct by continuous random draws / distinct Mellin points; non-trivial = |a1/a0-1| > 5% and gamma has a non-zero imaginary part (measured per call)",
    min_nontrivial=500,
    required_hits=["contract_ns_dispatcher_synthetic", "contract_ns_dispatcher_pipeline", "contract_qed_fixed_alphaem", "oracle_crosscheck_odefun"],
    max_inconclusive_frac=0.02,
)

TOL = 1e-10
EXACT_METHODS = ("ITERATE_EXACT", "DECOMPOSE_EXACT", "PERTURBATIVE_EXACT")
ALL_METHODS = (
    "ITERATE_EXACT",
    "ITERATE_EXPANDED",
    "PERTURBATIVE_EXACT",
    "PERTURBATIVE_EXPANDED",
    "TRUNCATED",
    "ORDERED_TRUNCATED",
    "DECOMPOSE_EXACT",
    "DECOMPOSE_EXPANDED",
)


class MonitorBroken(Exception):
    """Raised only if a contract condition itself returns False (never: conditions record and return True)."""


# ------------------------------------------------------------------ the monitor
class Recorder:
    def __init__(self):
        self.qcd = []  # (order, method_name, gamma, a1, a0, nf, result)
        self.qed = []  # (order, gamma2d, a1, a0, aem, nf, mu2_from, mu2_to, result)
        self.qed_run = []  # running-alphaem entry point

    # named condition functions: record the observation, never disturb the code under test
    def ns_kernel_solves_dglap(self, order, method, gamma_ns, a1, a0, nf, result):
        try:
            name = getattr(method, "name", str(method))
            self.qcd.append(((int(order[0]), int(order[1])), name, np.array(gamma_ns, dtype=complex), float(a1), float(a0), int(nf), complex(result)))
        except Exception:  # pragma: no cover - a monitor must never break the run
            self.qcd.append(None)
        return True

    def qed_ns_kernel_solves_dglap(self, order, gamma_ns, a1, a0, aem, nf, mu2_from, mu2_to, result):
        try:
            self.qed.append(((int(order[0]), int(order[1])), np.array(gamma_ns, dtype=complex), float(a1), float(a0), float(aem), int(nf), float(mu2_from), float(mu2_to), complex(result)))
        except Exception:  # pragma: no cover
            self.qed.append(None)
        return True


def install(rec):
    """Put contracts on the real callables (module attributes, honoured in NUMBA_DISABLE_JIT=1 mode).

    Returns an ``undo`` callable."""
    import icontract

    from eko.kernels import non_singlet as ns
    from eko.kernels import non_singlet_qed as qns

    orig_ns, orig_q = ns.dispatcher, qns.fixed_alphaem_exact
    if getattr(orig_ns, "__verif_contract__", False):
        raise RuntimeError("contract already installed")

    def ns_kernel_solves_dglap(order, method, gamma_ns, a1, a0, nf, result):
        return rec.ns_kernel_solves_dglap(order, method, gamma_ns, a1, a0, nf, result)

    def qed_ns_kernel_solves_dglap(order, gamma_ns, a1, a0, aem, nf, mu2_from, mu2_to, result):
        return rec.qed_ns_kernel_solves_dglap(order, gamma_ns, a1, a0, aem, nf, mu2_from, mu2_to, result)

    wrapped_ns = icontract.ensure(ns_kernel_solves_dglap, error=MonitorBroken)(orig_ns)
    wrapped_q = icontract.ensure(qed_ns_kernel_solves_dglap, error=MonitorBroken)(orig_q)
    wrapped_ns.__verif_contract__ = True
    ns.dispatcher = wrapped_ns
    qns.fixed_alphaem_exact = wrapped_q

    def undo():
        ns.dispatcher = orig_ns
        qns.fixed_alphaem_exact = orig_q

    return undo


# ------------------------------------------------------------------ the oracle side
def _judge_value(got, L, err, extra_log=0.0):
    """Compare kernel value with exp(L); returns (status, info)."""
    import mpmath as mp

    if abs(err) > 1e-18 * (1 + abs(L)):
        return "inc", dict(why=f"oracle quad error {float(abs(err)):.1e}")
    ref = complex(mp.exp(L + extra_log))
    scale = abs(ref) * (1 + abs(complex(L)) + abs(extra_log))
    d = abs(got - ref)
    ok = np.isfinite(d) and d <= TOL * scale
    return ("ok" if ok else "viol"), dict(observed=got, expected=ref, rel=d / abs(ref) if ref else float("inf"), margin=d / (TOL * scale) if scale else float("inf"))


def judge_qcd(obs):
    order, method, gamma, a1, a0, nf, got = obs
    o = order[0]
    bs = evint.betas_qcd(nf, o)
    L, err = evint.ns_log(gamma[:o], a0, a1, bs)
    st, info = _judge_value(got, L, err)
    info.update(order=list(order), method=method, nf=nf, a0=a0, a1=a1, gamma=[complex(g) for g in gamma[:o]])
    return st, info


def judge_qed(obs):
    import mpmath as mp

    order, gamma2, a1, a0, aem, nf, mu2_from, mu2_to, got = obs
    o = order[0]
    bs = evint.betas_qed_fixed(nf, o, aem)
    # gamma_k(a_em) = sum_j gamma[k,j] a_em^j ; k=0 is the pure-QED part (acts in ln mu^2)
    with mp.workdps(30):
        pw = [mp.mpf(aem) ** j for j in range(gamma2.shape[1])]
        gk = [sum(mp.mpc(complex(gamma2[k, j])) * pw[j] for j in range(gamma2.shape[1])) for k in range(gamma2.shape[0])]
        L, err = evint.ns_log([complex(g) for g in gk[1 : o + 1]], a0, a1, bs)
        # dE/dln mu^2 = -gamma_pureQED E  at fixed a_em
        extra = -gk[0] * mp.log(mp.mpf(mu2_to) / mp.mpf(mu2_from))
        st, info = _judge_value(got, L, err, extra_log=complex(extra))
    info.update(order=list(order), nf=nf, a0=a0, a1=a1, aem=aem, mu2_from=mu2_from, mu2_to=mu2_to, gamma=np.array(gamma2))
    return st, info


def _nontrivial(a0, a1, gamma):
    return bool(abs(a1 / a0 - 1) > 0.05 and np.any(np.abs(np.imag(gamma)) > 0))


# ------------------------------------------------------------------ synthetic workload
def _rand_gamma(rng, n, scale_pow=1):
    mag = np.array([10 ** rng.uniform(-1, k + scale_pow) for k in range(n)])
    ph = rng.uniform(0, 2 * np.pi, n)
    return mag * np.exp(1j * ph)


def _pair(rng, boundary=False):
    lo, hi = np.log(0.002), np.log(0.05)
    a0 = float(np.exp(rng.uniform(lo, hi)))
    if boundary:
        a1 = a0 * (1 + float(10 ** rng.uniform(-9, -2)) * (1 if rng.random() < 0.5 else -1))
    else:
        a1 = float(np.exp(rng.uniform(lo, hi)))
    return a0, a1


def _synthetic_batch(job):
    """Worker: install the contract, call the *real* dispatcher on synthetic inputs, judge every record."""
    warnings.simplefilter("ignore")
    seed, idx, n_qcd, n_qed = job
    rng = np.random.default_rng([seed, 7, idx])
    from eko.kernels import EvoMethods
    from eko.kernels import non_singlet as ns
    from eko.kernels import non_singlet_qed as qns

    rec = Recorder()
    undo = install(rec)
    raised = []
    try:
        for i in range(n_qcd):
            o = int(rng.integers(1, 5))
            nf = int(rng.integers(3, 7))
            meths = ALL_METHODS if o == 1 else EXACT_METHODS
            m = EvoMethods[meths[int(rng.integers(len(meths)))]]
            a0, a1 = _pair(rng, boundary=(i % 10 == 9))
            g = _rand_gamma(rng, o)
            if i % 7 == 3:  # real-analytic-like towers: one purely real
                g = g.real.astype(complex) if i % 14 == 3 else g
            try:
                ns.dispatcher((o, 0), m, g, a1, a0, nf)
            except Exception as e:
                raised.append(dict(site="ns.dispatcher", order=o, nf=nf, method=m.name, a0=a0, a1=a1, gamma=g, exc=f"{type(e).__name__}: {e}"))
        for i in range(n_qed):
            o = int(rng.integers(1, 5))
            q = int(rng.integers(1, 3))
            nf = int(rng.integers(3, 7))
            a0, a1 = _pair(rng, boundary=(i % 10 == 9))
            g2 = np.zeros((o + 1, q + 1), dtype=complex)
            for j in range(q + 1):
                g2[1:, j] = _rand_gamma(rng, o) * (30.0**j)
            g2[0, 1:] = _rand_gamma(rng, q) * 10
            aem = float(10 ** rng.uniform(-4, -2))
            mu_from, mu_to = (float(x) for x in 10 ** rng.uniform(0, 4, 2))
            try:
                if i % 3 == 2:
                    # running-alpha_em entry points: n steps, each a fixed-alpha_em kernel (observed by the contract)
                    n = int(rng.integers(1, 5))
                    as_list = np.array(sorted([a0] + [float(np.exp(rng.uniform(np.log(0.002), np.log(0.05)))) for _ in range(n)], reverse=bool(rng.integers(2))))
                    aem_half = 10 ** rng.uniform(-4, -2, n)
                    tot = qns.dispatcher((o, q), EvoMethods.ITERATE_EXACT, g2, as_list, aem_half, True, nf, n, mu_from, mu_to)
                    rec.qed_run.append(((o, q), g2.copy(), as_list.copy(), aem_half.copy(), nf, n, mu_from, mu_to, complex(tot), len(rec.qed)))
                else:
                    qns.fixed_alphaem_exact((o, q), g2, a1, a0, aem, nf, mu_from, mu_to)
            except Exception as e:
                raised.append(dict(site="qed_ns", order=[o, q], nf=nf, a0=a0, a1=a1, aem=aem, exc=f"{type(e).__name__}: {e}"))
    finally:
        undo()
    out = []
    for obs in rec.qcd:
        st, info = judge_qcd(obs)
        out.append(("qcd", st, _nontrivial(obs[4], obs[3], obs[2]), info))
    for obs in rec.qed:
        st, info = judge_qed(obs)
        out.append(("qed", st, _nontrivial(obs[3], obs[2], obs[1]), info))
    # running alpha_em: product structure + step bookkeeping (mu2 steps geometric, (as, aem) pairing)
    for order, g2, as_list, aem_half, nf, n, mu_from, mu_to, tot, end in rec.qed_run:
        steps = rec.qed[end - n : end]
        mus = np.geomspace(mu_from, mu_to, n + 1)
        good = len(steps) == n
        prod = 1.0 + 0j
        for s, st_ in enumerate(steps):
            _o, _g, b1_, b0_, aem_, nf_, mf, mt, val = st_
            good = good and b0_ == as_list[s] and b1_ == as_list[s + 1] and aem_ == aem_half[s] and nf_ == nf
            good = good and abs(mf / mus[s] - 1) < 1e-12 and abs(mt / mus[s + 1] - 1) < 1e-12
            prod *= val
        good = good and abs(prod - tot) <= 1e-13 * abs(prod) * (n + 1)
        out.append(("qed-run", "ok" if good else "viol", True, dict(order=list(order), nf=nf, n=n, as_list=as_list, aem_half=aem_half, mu2_from=mu_from, mu2_to=mu_to, observed=tot, product_of_steps=prod, gamma=g2)))
    for r in raised:
        out.append(("raised", "viol", False, r))
    # oracle cross-check: quadrature vs Taylor ODE solver on one case of this batch
    xc = None
    if rec.qcd:
        order, method, gamma, a1, a0, nf, got = rec.qcd[len(rec.qcd) // 2]
        bs = evint.betas_qcd(nf, order[0])
        L, _ = evint.ns_log(gamma[: order[0]], a0, a1, bs)
        import mpmath as mp

        e_ode = evint.ns_kernel_ode(gamma[: order[0]], a0, a1, bs)
        xc = float(abs(mp.exp(L) - e_ode) / abs(e_ode))
    return out, xc


# ------------------------------------------------------------------ real pipeline
def _solve_job(job):
    """Worker: run a real tiny eko.solve with the contracts installed; judge a sample of the observed calls."""
    warnings.simplefilter("ignore")
    name, th_kw, op_kw, max_judged = job
    import logging

    logging.disable(logging.CRITICAL)
    rec = Recorder()
    undo = install(rec)
    try:
        th = workload.raw_theory(**th_kw)
        op = workload.raw_operator(**op_kw)
        try:
            workload.solve(th, op)
            solve_err = None
        except Exception as e:  # the run itself failing is not C07's verdict
            solve_err = f"{type(e).__name__}: {e}"
    finally:
        undo()
    is_exact = op_kw.get("method", "iterate-exact") in ("iterate-exact", "decompose-exact", "perturbative-exact")
    out = []
    n_obs = dict(qcd=len(rec.qcd), qed=len(rec.qed))
    for kind, recs, judge in (("qcd", rec.qcd, judge_qcd), ("qed", rec.qed, judge_qed)):
        recs = [r for r in recs if r is not None]
        if kind == "qcd":
            recs = [r for r in recs if r[0][0] == 1 or r[1] in EXACT_METHODS]
        # segment classes (nf, a0, a1): judge an even subsample of each
        classes = {}
        for r in recs:
            k = (r[5], r[4], r[3]) if kind == "qcd" else (r[5], r[3], r[2], r[4])
            classes.setdefault(k, []).append(r)
        per = max(5, max_judged // max(1, len(classes)))
        for k, rs in classes.items():
            step = max(1, len(rs) // per)
            for r in rs[::step][:per]:
                st, info = judge(r)
                g = r[2] if kind == "qcd" else r[1]
                a0, a1 = (r[4], r[3]) if kind == "qcd" else (r[3], r[2])
                info["solve"] = name
                out.append((kind, st, _nontrivial(a0, a1, g), info))
    return name, n_obs, out, solve_err, is_exact


def _pipeline_jobs(ck):
    tiny = dict(xgrid=(1e-2, 0.1, 0.5, 1.0), mugrid=((10.0, 5),), init=(1.65, 4))
    J = []
    mj = ck.n(120, 600)
    J.append(("LO-iterate-exact", dict(order=(1, 0)), dict(method="iterate-exact", **tiny), mj))
    J.append(("NLO-iterate-exact", dict(order=(2, 0)), dict(method="iterate-exact", **tiny), mj))
    J.append(("NLO-decompose-exact", dict(order=(2, 0), alphas=0.2), dict(method="decompose-exact", xgrid=(1e-3, 0.3, 1.0), mugrid=((3.0, 4), (50.0, 5)), init=(1.3, 3)), mj))
    J.append(("NNLO-perturbative-exact", dict(order=(3, 0)), dict(method="perturbative-exact", xgrid=(1e-2, 0.3, 1.0), mugrid=((10.0, 5),), init=(1.65, 4)), mj))
    J.append(("LOxQED-iterate-exact", dict(order=(1, 1)), dict(method="iterate-exact", xgrid=(1e-2, 0.3, 1.0), mugrid=((10.0, 5),), init=(1.65, 4), iterations=2), mj))
    if ck.thorough:
        J.append(("NNLO-iterate-exact-to-nf6", dict(order=(3, 0)), dict(method="iterate-exact", xgrid=(1e-2, 0.3, 1.0), mugrid=((300.0, 6),), init=(1.65, 4)), mj))
        J.append(("NLOxQED-iterate-exact", dict(order=(2, 1)), dict(method="iterate-exact", xgrid=(1e-2, 0.3, 1.0), mugrid=((10.0, 5),), init=(1.65, 4), iterations=2), mj))
        J.append(("N3LO-iterate-exact", dict(order=(4, 0)), dict(method="iterate-exact", xgrid=(1e-2, 0.3, 1.0), mugrid=((10.0, 5),), init=(1.65, 4)), mj))
        J.append(("NLO-polarized", dict(order=(2, 0)), dict(method="iterate-exact", polarized=True, **tiny), mj))
        J.append(("NLO-timelike", dict(order=(2, 0)), dict(method="iterate-exact", time_like=True, **tiny), mj))
    return J


# ------------------------------------------------------------------ registration
def _site(kind, info):
    o = info.get("order", ["?"])
    if kind == "qcd":
        return f"C07/ns-exact/order{o[0]}"
    if kind == "qed":
        return f"C07/qed-fixed-alphaem/as{o[0]}aem{o[1]}"
    if kind == "qed-run":
        return "C07/qed-running-steps"
    return f"C07/raises/{info.get('site', 'other')}"


class _Viol:
    """Group violations by site; refine the key with nf when only one nf fails while others were observed holding."""

    def __init__(self):
        self.bad = {}
        self.good_nf = {}

    def add(self, site, nf, ok, what=None, wit=None):
        if ok:
            self.good_nf.setdefault(site, set()).add(nf)
        else:
            self.bad.setdefault(site, []).append((nf, what, wit))

    def flush(self, ck, suffix=""):
        for site, items in self.bad.items():
            nfs = {nf for nf, _, _ in items}
            only = len(nfs) == 1 and len(self.good_nf.get(site, set()) - nfs) >= 2
            for nf, what, wit in items:
                ck.violation(site + (f"/nf{nf}-only" if only else "") + suffix, what, wit)


def _what(kind, info):
    if kind == "raised":
        return f"{info.get('site')} raised {info.get('exc')}"
    if kind == "qed-run":
        return f"running-alpha_em NS kernel {info['observed']} is not the product of its fixed-alpha_em steps over geometric mu^2 steps ({info['product_of_steps']})"
    return (
        f"{'QED ' if kind == 'qed' else ''}NS exact kernel order={info['order']} nf={info['nf']} method={info.get('method', '-')} a0={info['a0']:.6g} a1={info['a1']:.6g}: "
        f"code {info['observed']} vs ODE solution {info['expected']} (rel {info['rel']:.3e})"
    )


def run(ck):
    # ---- synthetic calls through the contract
    nb = ck.n(16, 400)
    per_qcd, per_qed = ck.n(250, 500), ck.n(120, 250)
    sjobs = [(ck.seed, i, per_qcd, per_qed) for i in range(nb)]
    pj = _pipeline_jobs(ck)
    viol = _Viol()
    worst = {"qcd": 0.0, "qed": 0.0}
    # pipeline solves first in the queue (long), synthetic batches fill the other workers
    for job, st, val in jobs.pmap(_dispatch, [("solve", j) for j in pj] + [("syn", j) for j in sjobs], timeout=ck.n(1500, 6 * 3600)):
        kind, j = job
        if st != "ok":
            ck.case(None, nontrivial=False)
            ck.inconclusive(f"{kind} worker {st}: {str(val)[:160]}")
            continue
        if kind == "syn":
            out, xc = val
            if xc is not None:
                ck.hit("oracle_crosscheck_odefun")
                if not xc < 1e-15:
                    ck.inconclusive(f"oracle routes disagree (quad vs odefun): {xc:.2e}")
            _absorb(ck, out, viol, worst, "synthetic", j[1])
        else:
            name, n_obs, out, solve_err, is_exact = val
            ck.note(**{f"pipeline_calls_observed[{name}]": n_obs})
            if solve_err:
                ck.inconclusive(f"pipeline solve {name} failed: {solve_err[:160]}")
            if n_obs["qcd"] + n_obs["qed"] == 0:
                ck.inconclusive(f"pipeline solve {name}: contract observed no call (module patch not honoured?)")
            ck.hit("pipeline_calls_seen_ns_dispatcher", n_obs["qcd"])
            ck.hit("pipeline_calls_seen_qed_fixed_alphaem", n_obs["qed"])
            _absorb(ck, out, viol, worst, "pipeline", name)
    viol.flush(ck)
    ck.note(worst_margin_used=worst, tolerance="|K-Kref| <= 1e-10 |Kref| (1+|ln Kref|)")


def _dispatch(job):
    kind, j = job
    return _synthetic_batch(j) if kind == "syn" else _solve_job(j)


def _absorb(ck, out, viol, worst, origin, tag):
    for i, (kind, st, nontriv, info) in enumerate(out):
        key = (origin, tag, kind, i)
        if st == "inc":
            ck.case(key, nontrivial=False)
            ck.inconclusive(info.get("why", "oracle undecided"))
            continue
        ck.case(key, nontrivial=nontriv, sample=dict(origin=origin, kind=kind, **{k: info[k] for k in ("order", "nf", "a0", "a1", "observed", "expected", "rel", "method", "solve") if k in info}) if (i == 3 or not ck.samples) else None)
        if kind == "qcd":
            ck.hit(f"contract_ns_dispatcher_{origin}")
            ck.hit(f"order{info['order'][0]}_nf{info['nf']}")
        elif kind == "qed":
            ck.hit("contract_qed_fixed_alphaem")
            if origin == "pipeline":
                ck.hit("contract_qed_fixed_alphaem_pipeline")
        elif kind == "qed-run":
            ck.hit("qed_running_steps")
        site = _site(kind, info)
        if st == "ok":
            ck.ok()
            if kind in worst and "margin" in info:
                worst[kind] = max(worst[kind], float(info["margin"]))
            viol.add(site, info.get("nf"), True)
        else:
            info = dict(info, origin=origin, tag=tag, seed=ck.seed)
            viol.add(site, info.get("nf"), False, _what(kind, info), info)


def replay(ck, rep):
    """Re-run exactly the witness call through the contract and judge it."""
    w = rep["witness"]
    from eko.kernels import EvoMethods
    from eko.kernels import non_singlet as ns
    from eko.kernels import non_singlet_qed as qns

    def cx(v):
        return complex(v[0], v[1]) if isinstance(v, list) else complex(v)

    rec = Recorder()
    undo = install(rec)
    try:
        if "aem" in w and "mu2_from" in w and "as_list" not in w:
            g = np.array([[cx(x) for x in row] for row in w["gamma"]])
            qns.fixed_alphaem_exact(tuple(w["order"]), g, w["a1"], w["a0"], w["aem"], w["nf"], w["mu2_from"], w["mu2_to"])
            qns.fixed_alphaem_exact(tuple(w["order"]), g, w["a0"], w["a1"], w["aem"], w["nf"], w["mu2_to"], w["mu2_from"])  # and its inverse path
        elif "method" in w:
            g = np.array([cx(x) for x in w["gamma"]])
            ns.dispatcher(tuple(w["order"]), EvoMethods[w["method"]], g, w["a1"], w["a0"], w["nf"])
            ns.dispatcher(tuple(w["order"]), EvoMethods[w["method"]], g, w["a0"], w["a1"], w["nf"])  # and its inverse path
    finally:
        undo()
    viol, worst = _Viol(), {"qcd": 0.0, "qed": 0.0}
    out = [("qcd", *_j(judge_qcd, o, 4, 3, 2)) for o in rec.qcd] + [("qed", *_j(judge_qed, o, 3, 2, 1)) for o in rec.qed]
    _absorb(ck, out, viol, worst, "replay", 0)
    viol.flush(ck)
    ck.min_nontrivial = 0
    ck.meta = dict(ck.meta, required_hits=[])


def _j(judge, o, i0, i1, ig):
    st, info = judge(o)
    return st, _nontrivial(o[i0], o[i1], o[ig]), info
