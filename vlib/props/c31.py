"""C31: flavour/evolution basis rotations and sector projectors are exact and complete."""

import numpy as np
import sympy as sp

from ..oracles import flavor as fl

META = dict(
    level="exploration",
    design_ref="DESIGN.md §5 C31",
    technique="exact rational reference: rotation tables, label/PID tables and every sector projector of eko.basis_rotation are compared entry by entry (in Q) with an independent statement of the bases written from the documentation; algebraic laws (invertible, orthogonal, idempotent, complete) are evaluated on the code's own matrices",
    level_text="The space is finite (2 tables, nf 3-6 x QCD/QED x every sector of the anomalous-dimension basis) and is enumerated completely with exact arithmetic, so the verdict covers every case of the quantifier; it is still only an observation of the executed functions.",
    level_note="Trusted base: vlib/oracles/flavor.py (my transcription of FlavorSpace.rst, self-checked against the explicit formulas of the docs), sympy rational linear algebra.",
    rule="case = (table row) or (function, sector, nf, qed) or (law, nf, qed); all distinct; non-trivial = the reference object is non-zero (every sector projector with at least one active member, every table row)",
    min_nontrivial=150,
    required_hits=["table_rows", "projector_exact", "projector_action", "projector_laws", "select_light", "ad_projectors"],
    max_inconclusive_frac=0.0,
)


def _exact(arr):
    """Exact rational sympy matrix behind a float/int numpy array (None if not representable)."""
    arr = np.asarray(arr)
    rows = []
    for r in np.atleast_2d(arr):
        row = []
        for x in r:
            fr = fl.rat(x)
            if fr is None:
                return None
            row.append(fl.to_sym(fr))
        rows.append(row)
    return sp.Matrix(rows)


def _sect(lab):
    return f"{lab[0]}-{lab[1]}"


def _sclass(lab):
    """Class of a sector (mechanism level, for keys of failures that hit whole classes)."""
    if lab[1] == 0:
        return "non-singlet"
    if lab[0] in (10200, 10204):
        return "valence"
    if 22 in lab or 101 in lab:
        return "singlet-qed-only"
    return "singlet"


def tables(ck, br):
    pids = tuple(br.flavor_basis_pids)
    # flavour basis: ordering and names as documented
    ck.case(("table", "flavor_basis_pids"))
    ck.hit("table_rows")
    if pids != fl.FLAVOR_PIDS:
        ck.violation("C31/table/flavor_basis_pids", f"flavor_basis_pids = {pids}", dict(expected=fl.FLAVOR_PIDS))
    elif tuple(br.flavor_basis_names) != tuple(fl.FLAVOR_NAMES[p] for p in pids):
        ck.violation("C31/table/flavor_basis_names", f"flavor_basis_names = {br.flavor_basis_names}", {})
    else:
        ck.ok()
    if sorted(pids) != sorted(fl.FLAVOR_PIDS):
        return None
    for qed, labels, lpids, rot, name in (
        (False, br.evol_basis, br.evol_basis_pids, br.rotate_flavor_to_evolution, "evolution"),
        (True, br.unified_evol_basis, br.unified_evol_basis_pids, br.rotate_flavor_to_unified_evolution, "unified"),
    ):
        want_labels = set(fl.labels(6, qed))
        ck.case(("table", name, "labels"))
        ck.hit("table_rows")
        if set(labels) != want_labels or len(labels) != 14 or len(lpids) != 14 or np.shape(rot) != (14, 14):
            ck.violation(f"C31/table/{name}/labels", f"labels {labels} are not the 14 distributions of the {name} basis", {})
            continue
        ck.ok()
        R = _exact(rot)
        for i, lab in enumerate(labels):
            ck.case(("table", name, lab))
            ck.hit("table_rows")
            bad = False
            if lpids[i] != fl.evol_pid(lab):
                ck.violation(f"C31/table/{name}/pid/{lab}", f"pid of {lab} is {lpids[i]}, convention says {fl.evol_pid(lab)}", {})
                bad = True
            want = fl.vec(fl.content(lab, 6, qed), pids)
            if R is None or R[i, :] != want:
                diff = {int(pids[j]): (float(rot[i][j]), float(want[j])) for j in range(14) if R is None or R[i, j] != want[j]}
                ck.violation(
                    f"C31/table/{name}/row/{lab}",
                    f"row {lab} of the {name} rotation differs from its definition at {diff} (pid: (code, definition))",
                    dict(row=np.asarray(rot[i]).tolist(), expected=[float(x) for x in want]),
                )
                bad = True
            if not bad:
                ck.ok()
        # algebraic laws on the code's own table
        ck.case(("law", name, "invertible+orthogonal"))
        ck.hit("table_rows")
        if R is None:
            ck.violation(f"C31/table/{name}/not-rational", "rotation table has non-rational entries", {})
            continue
        G = R * R.T
        if R.det() == 0:
            ck.violation(f"C31/table/{name}/singular", f"{name} rotation is singular", {})
        elif not G.is_diagonal():
            offs = [(labels[i], labels[j], str(G[i, j])) for i in range(14) for j in range(i) if G[i, j] != 0]
            ck.violation(f"C31/table/{name}/rows-not-orthogonal", f"rows not mutually orthogonal: {offs[:4]}", dict(pairs=offs))
        else:
            ck.ok()
    return pids


def projectors(ck, br, pids):
    for qed in (False, True):
        bq = "qed" if qed else "qcd"
        sectors = fl.sector_labels(qed)
        for nf in (3, 4, 5, 6):
            dists = {lab: fl.vec(fl.content(lab, nf, qed), pids) for lab in fl.labels(nf, qed) if lab[-1] not in "+-"}
            got = {}
            for lab in sectors:
                members = fl.sector_members(lab, nf, qed)
                # ---- sector membership (QED helper)
                if qed:
                    ck.case(("select", lab, nf), nontrivial=bool(members))
                    ck.hit("select_light")
                    try:
                        sel = list(br.select_light_flavors_uni_ev(lab, nf))
                    except Exception as e:
                        ck.violation(f"C31/select_light/raises/{_sclass(lab)}/{type(e).__name__}", f"select_light_flavors_uni_ev({lab}, {nf}) raised {type(e).__name__}: {e}", dict(lab=lab, nf=nf))
                        sel = None
                    if sel is not None:
                        if sorted(sel) != sorted(f"{a}.{b}" for a, b in members):
                            ck.violation(
                                f"C31/select_light/members/{_sclass(lab)}/nf{nf}",
                                f"select_light_flavors_uni_ev({lab}, {nf}) = {sel}, active members are {[f'{a}.{b}' for a, b in members]}",
                                dict(lab=lab, nf=nf),
                            )
                        else:
                            ck.ok()
                # ---- the projector itself
                ck.case(("proj", bq, lab, nf), nontrivial=bool(members), sample=dict(sector=lab, nf=nf, qed=qed, members=members))
                try:
                    P = br.ad_projector(lab, nf, qed)
                except Exception as e:
                    ck.violation(f"C31/ad_projector/raises/{bq}/{_sclass(lab)}/{type(e).__name__}", f"ad_projector({lab}, nf={nf}, qed={qed}) raised {type(e).__name__}: {e}", dict(lab=lab, nf=nf, qed=qed))
                    continue
                Pe = _exact(P)
                if Pe is None or Pe.shape != (14, 14):
                    ck.violation(f"C31/ad_projector/not-rational/{bq}/{_sclass(lab)}", "projector has non-rational entries or wrong shape", dict(lab=lab, nf=nf, qed=qed))
                    continue
                got[lab] = Pe
                want = fl.sector_projector(lab, nf, qed, pids)
                ck.hit("projector_exact")
                bad = False
                if Pe != want:
                    bad = True
                # row-vector action on every evolution-basis distribution active at nf
                src = {a: b for a, b in members}
                wrong = []
                for d, v in dists.items():
                    ck.hit("projector_action")
                    img = v * Pe
                    exp = dists[src[d]] if d in src else sp.zeros(1, 14)
                    if img != exp:
                        wrong.append((d, src.get(d, "0")))
                if wrong or bad:
                    what = (
                        f"ad_projector({lab}, nf={nf}, qed={qed}): "
                        + (f"distributions not mapped as (source -> expected target) {wrong}" if wrong else "matrix differs from the exact projector outside the evolution distributions")
                    )
                    kind = "action" if wrong else "matrix"
                    ck.violation(
                        f"C31/ad_projector/{kind}/{bq}/{_sclass(lab)}/nf{nf}",
                        what,
                        dict(lab=lab, nf=nf, qed=qed, wrong=wrong, n_entries_differ=sum(1 for x in (Pe - want) if x != 0)),
                    )
                else:
                    ck.ok()
            # ---- laws of the diagonal projectors (on the code's matrices)
            diag = [lab for lab in sectors if fl.is_diagonal_sector(lab) and lab in got]
            ck.case(("laws", bq, nf))
            ck.hit("projector_laws")
            probs = []
            for a in diag:
                if got[a] * got[a] != got[a]:
                    probs.append(("not idempotent", a))
                for b in diag:
                    if a < b and (got[a] * got[b] != sp.zeros(14, 14) or got[b] * got[a] != sp.zeros(14, 14)):
                        probs.append(("not orthogonal", a, b))
            if len(diag) == len([s for s in sectors if fl.is_diagonal_sector(s)]):
                tot = sp.zeros(14, 14)
                for a in diag:
                    tot += got[a]
                if tot != fl.active_identity(nf, qed, pids):
                    d = tot - fl.active_identity(nf, qed, pids)
                    probs.append(("sum != identity on active partons", [int(pids[i]) for i in range(14) if any(x != 0 for x in d[i, :])]))
            if probs:
                ck.violation(f"C31/projector-laws/{bq}/nf{nf}", f"diagonal sector projectors nf={nf} qed={qed}: {probs[:4]}", dict(nf=nf, qed=qed, problems=probs))
            else:
                ck.ok()
            # ---- the collected tensor
            ck.case(("ad_projectors", bq, nf))
            ck.hit("ad_projectors")
            try:
                allp = np.asarray(br.ad_projectors(nf, qed))
            except Exception as e:
                ck.violation(f"C31/ad_projectors/raises/{bq}/{type(e).__name__}", f"ad_projectors(nf={nf}, qed={qed}) raised {type(e).__name__}: {e}", dict(nf=nf, qed=qed))
                continue
            # one projector per sector of the respective basis, each equal to the exact one
            wants = [fl.sector_projector(lab, nf, qed, pids) for lab in sectors]
            if allp.ndim != 3 or allp.shape[1:] != (14, 14):
                ck.violation(f"C31/ad_projectors/shape/{bq}", f"ad_projectors(nf={nf}, qed={qed}) has shape {allp.shape}", dict(nf=nf, qed=qed))
                continue
            gots = [_exact(p) for p in allp]
            missing = [sectors[i] for i, w in enumerate(wants) if not any(g == w for g in gots if g is not None)]
            extra = [i for i, g in enumerate(gots) if g is None or not any(g == w for w in wants)]
            if len(gots) != len(sectors) or missing or extra:
                ck.violation(
                    f"C31/ad_projectors/sectors/{bq}",
                    f"ad_projectors(nf={nf}, qed={qed}) returns {len(gots)} projectors for {len(sectors)} sectors; sectors without their projector: {missing[:6]}; entries matching no sector: {extra[:6]}",
                    dict(nf=nf, qed=qed, missing=missing, extra=extra),
                )
            else:
                ck.ok()


def sector_tables(ck, br):
    """The sector (anomalous-dimension basis) label lists and member maps cover every sector exactly once."""
    for qed, full, amap, name in (
        (False, br.full_labels, br.map_ad_to_evolution, "evolution"),
        (True, br.full_unified_labels, br.map_ad_to_unified_evolution, "unified"),
    ):
        want = fl.sector_labels(qed)
        ck.case(("sector-table", name))
        ck.hit("table_rows")
        probs = []
        if sorted(full) != sorted(want):
            probs.append(dict(list="full labels", missing=sorted(set(want) - set(full)), unexpected=sorted(set(full) - set(want)), duplicates=len(full) - len(set(full))))
        if sorted(amap) != sorted(want):
            probs.append(dict(list="member map keys", missing=sorted(set(want) - set(amap)), unexpected=sorted(set(amap) - set(want))))
        for lab in want:
            if lab in amap:
                exp = sorted(f"{a}.{b}" for a, b in fl.sector_members(lab, 6, qed))
                if sorted(amap[lab]) != exp:
                    probs.append(dict(sector=lab, members=list(amap[lab]), expected=exp))
        if probs:
            ck.violation(f"C31/table/{name}/sectors", f"sector tables of the {name} basis: {probs[:3]}", dict(problems=probs))
        else:
            ck.ok()
    ck.case(("sector-table", "anomalous_dimensions_basis"))
    ck.hit("table_rows")
    if sorted(br.anomalous_dimensions_basis) != sorted(fl.sector_labels(False)):
        ck.violation("C31/table/evolution/anomalous_dimensions_basis", f"anomalous_dimensions_basis = {br.anomalous_dimensions_basis}", {})
    else:
        ck.ok()


def intrinsic_labels(ck, br):
    for nf in (3, 4, 5, 6):
        ck.case(("intrinsic_unified_evol_labels", nf))
        ck.hit("table_rows")
        try:
            labs = br.intrinsic_unified_evol_labels(nf)
        except Exception as e:
            ck.violation("C31/intrinsic_unified_evol_labels/raises", f"nf={nf}: {type(e).__name__}: {e}", dict(nf=nf))
            continue
        if sorted(labs) != sorted(fl.uni_labels(nf)):
            ck.violation(
                f"C31/intrinsic_unified_evol_labels/nf{nf}",
                f"labels {sorted(labs)} are not the intrinsic unified basis {sorted(fl.uni_labels(nf))}",
                dict(nf=nf),
            )
        else:
            ck.ok()


def run(ck):
    from eko import basis_rotation as br

    bad = fl.selfcheck()
    if bad:
        ck.inconclusive(f"flavour oracle is not self-consistent: {bad[:2]}")
        return
    pids = tables(ck, br)
    if pids is None:
        ck.inconclusive("flavour basis PIDs are not the 14 partons: projector checks cannot be evaluated")
        return
    sector_tables(ck, br)
    projectors(ck, br, pids)
    intrinsic_labels(ck, br)
    ck.note(exhaustive=True)
