"""C32: evolution-basis operators are reconstructed exactly in the flavour basis."""

import numpy as np

from ..oracles import flavor as fl

META = dict(
    level="exploration",
    design_ref="DESIGN.md §5 C32",
    technique="reference-model monitor: to_flavor_basis_tensor on the outputs of PhysicalOperator.ad_to_evol_map and MatchingCondition.split_ad_to_evol_map (and their products with the threshold rotations) filled with random members is compared with R_out^-1 . E_evol . R_in built from an independent exact statement of the intrinsic bases; the weight functions are enumerated exhaustively in exact rationals; the label->member maps are compared with the documented sector structure",
    level_text="Weights: complete enumeration (nf 3-6 x QCD/QED x every label x normalised/raw) in exact arithmetic. Tensors: every (kind, nf, QCD/QED) combination with several random fillings; linearity makes a handful of generic fillings decisive for a linear map, but the verdict is still 'held on the executions observed'.",
    level_note="Trusted base: vlib/oracles/flavor.py, sympy exact inverse of the 14x14 basis matrices, numpy einsum. Tolerance 1e-12 x scale: the tensor is a sum of <= 30 products of O(1) floats and small rationals.",
    rule="case = (kind, qed, nf_in, nf_out, filling) or (weights, qed, nf, label, normalised); non-trivial = the reference tensor has >= 20 non-zero flavour blocks (members are pairwise distinct random matrices, so no accidental cancellation), every weight vector is non-zero",
    min_nontrivial=60,
    required_hits=["weights_exact", "map_labels", "tensor_vs_reference", "error_tensor_vs_reference", "mixed_nf_tensor", "rotation_chain"],
    max_inconclusive_frac=0.0,
)

TOL = 1e-12


# ------------------------------------------------------------------- helpers
def _group(lab):
    if lab[-1] in "+-":
        return "heavy"
    if "delta" in lab:
        return "delta"
    if lab in ("S", "V"):
        return "total"
    if lab in ("g", "ph"):
        return "gauge"
    return "ns"


_CACHE = {}


def _basis(nf, qed, pids):
    key = (nf, qed, pids)
    if key not in _CACHE:
        labs = fl.labels(nf, qed)
        R = fl.basis_matrix(nf, qed, pids, labs)
        Rinv = R.inv()
        _CACHE[key] = (labs, np.array(R.tolist(), dtype=float), np.array(Rinv.tolist(), dtype=float))
    return _CACHE[key]


def reference_tensor(members, nf_in, nf_out, qed, pids, attr="value"):
    """R_out^-1 . blockdiag(members) . R_in for ``{"X.Y": OpMember}`` (X target, Y input)."""
    lin, Rin, _ = _basis(nf_in, qed, pids)
    lout, _, Rout_inv = _basis(nf_out, qed, pids)
    n = next(iter(members.values())).value.shape[0]
    E = np.zeros((14, n, 14, n))
    unknown = []
    for name, op in members.items():
        X, Y = name.split(".")
        if X not in lout or Y not in lin:
            unknown.append(name)
            continue
        E[lout.index(X), :, lin.index(Y), :] += getattr(op, attr)
    ref = np.einsum("oX,XaYb,Yi->oaib", Rout_inv, E, Rin)
    return ref, unknown


def localise(diff, nf_in, nf_out, qed, pids, scale):
    """Express a flavour-space difference in the evolution bases and name the blocks."""
    lin, Rin, Rin_inv = _basis(nf_in, qed, pids)
    lout, Rout, _ = _basis(nf_out, qed, pids)
    D = np.einsum("Xo,oaib,iY->XaYb", Rout, diff, Rin_inv)
    blocks = []
    for i, X in enumerate(lout):
        for j, Y in enumerate(lin):
            m = np.abs(D[i, :, j, :]).max()
            if m > 100 * TOL * scale:
                blocks.append((f"{X}.{Y}", float(m)))
    blocks.sort(key=lambda t: -t[1])
    return blocks


def rand_member(rng, n, OpMember):
    return OpMember(rng.uniform(-1, 1, (n, n)), rng.uniform(0.01, 0.1, (n, n)))


def physical_ad_keys(qed):
    return fl.sector_labels(qed)


def matching_ad_keys(br):
    hp, hm = br.matching_hplus_pid, br.matching_hminus_pid
    return [(100, 100), (100, 21), (21, 100), (21, 21), (200, 200), (hp, 100), (hp, 21), (hp, hp), (100, hp), (21, hp), (hm, hm)]


def expected_physical_map(nf, qed):
    """label 'X.Y' -> AD key (or 'id'); from the sector structure of the docs."""
    exp = {}
    for lab in fl.sector_labels(qed):
        for src, tgt in fl.sector_members(lab, nf, qed):
            # sector (a, b): member named a.b -- target a, input b
            exp[f"{src}.{tgt}"] = lab
    for q in range(nf + 1, 7):
        for s in "+-":
            exp[f"{fl.QNAME[q]}{s}.{fl.QNAME[q]}{s}"] = "id"
    return exp


def expected_matching_map(nf, qed, br):
    """Matching.rst: singlet+h+ block, V and every active non-singlet (and the deltas) with A_ns, h- with A_HH, higher quarks untouched."""
    hp, hm = br.matching_hplus_pid, br.matching_hminus_pid
    h = fl.QNAME[nf + 1]
    exp = {"S.S": (100, 100), "S.g": (100, 21), "g.S": (21, 100), "g.g": (21, 21), "V.V": (200, 200)}
    for lab in fl.labels(nf, qed):
        if _group(lab) in ("ns", "delta"):
            exp[f"{lab}.{lab}"] = (200, 200)
    if qed:
        exp["ph.ph"] = "id"
    exp.update({f"{h}+.S": (hp, 100), f"{h}+.g": (hp, 21), f"{h}+.{h}+": (hp, hp), f"S.{h}+": (100, hp), f"g.{h}+": (21, hp), f"{h}-.{h}-": (hm, hm)})
    for q in range(nf + 2, 7):
        for s in "+-":
            exp[f"{fl.QNAME[q]}{s}.{fl.QNAME[q]}{s}"] = "id"
    return exp


# ------------------------------------------------------------------- monitors
def weights(ck, flavors, br, pids):
    for qed in (False, True):
        bq = "qed" if qed else "qcd"
        fn = flavors.pids_from_intrinsic_unified_evol if qed else flavors.pids_from_intrinsic_evol
        for nf in (3, 4, 5, 6):
            for lab in fl.labels(nf, qed):
                cont = fl.content(lab, nf, qed)
                norm2 = fl.dot(cont, cont)
                for normalize in (False, True):
                    ck.case(("weights", bq, nf, lab, normalize), sample=dict(fn=fn.__name__, label=lab, nf=nf, normalize=normalize) if lab == "Sdelta" else None)
                    ck.hit("weights_exact")
                    try:
                        w = np.asarray(fn(lab, nf, normalize), dtype=float)
                    except Exception as e:
                        ck.violation(f"C32/weights/raises/{bq}/{_group(lab)}", f"{fn.__name__}({lab!r}, {nf}, {normalize}) raised {type(e).__name__}: {e}", dict(label=lab, nf=nf, normalize=normalize))
                        continue
                    want = {p: (c / norm2 if normalize else c) for p, c in cont.items()}
                    got = {}
                    okr = w.shape == (14,)
                    if okr:
                        for p, x in zip(pids, w):
                            fr = fl.rat(x)
                            if fr is None:
                                okr = False
                                break
                            if fr != 0:
                                got[p] = fr
                    if not okr or got != want:
                        ck.violation(
                            f"C32/weights/{bq}/{_group(lab)}/nf{nf}/{'normalised' if normalize else 'raw'}",
                            f"{fn.__name__}({lab!r}, nf={nf}, normalize={normalize}) = {({int(k): str(v) for k, v in got.items()} if okr else w.tolist())}, definition gives { {int(k): str(v) for k, v in want.items()} }",
                            dict(label=lab, nf=nf, normalize=normalize, got=w.tolist(), want={int(k): float(v) for k, v in want.items()}),
                        )
                    else:
                        ck.ok()


def check_map(ck, kind, op, ad_members, expected, nf, qed):
    """Labels and the member behind each label."""
    bq = "qed" if qed else "qcd"
    ck.case(("map", kind, bq, nf))
    ck.hit("map_labels")
    got = {str(k): v for k, v in op.op_members.items()}
    names = set(got)
    exp_names = set(expected)
    if not qed:
        names.discard("ph.ph")  # the photon is a spectator in QCD: nothing is demanded of it
    probs = []
    if names != exp_names:
        probs.append(dict(missing=sorted(exp_names - names), unexpected=sorted(names - exp_names)))
    n = next(iter(got.values())).value.shape[0]
    for name in sorted(names & exp_names):
        src = expected[name]
        want = np.eye(n) if src == "id" else ad_members[src].value
        want_e = np.zeros((n, n)) if src == "id" else ad_members[src].error
        if not (np.array_equal(got[name].value, want) and np.array_equal(got[name].error, want_e)):
            which = [str(k) for k, v in ad_members.items() if np.array_equal(v.value, got[name].value)]
            probs.append(dict(label=name, expected_member=str(src), found_member=which or "none/identity"))
    if probs:
        grp = sorted({_group(p["label"].split(".")[0]) for p in probs if "label" in p} | ({"labels"} if any("missing" in p for p in probs) else set()))
        ck.violation(f"C32/map/{kind}/{bq}/nf{nf}/{'+'.join(grp)}", f"{kind} map nf={nf} qed={qed}: {probs[:3]}", dict(kind=kind, nf=nf, qed=qed, problems=probs))
    else:
        ck.ok()


def check_tensor(ck, tag, kind, opbase, nf_in, nf_out, qed, pids, key, hit, seedinfo):
    bq = "qed" if qed else "qcd"
    members = {str(k): v for k, v in opbase.op_members.items()}
    try:
        val, err = opbase.to_flavor_basis_tensor(qed)
    except Exception as e:
        ck.case(key)
        ck.violation(f"C32/{tag}/raises/{kind}/{bq}", f"to_flavor_basis_tensor raised {type(e).__name__}: {e} ({kind}, nf_in={nf_in}, nf_out={nf_out})", dict(kind=kind, nf_in=nf_in, nf_out=nf_out, qed=qed, labels=sorted(members), **seedinfo))
        return None
    ref, unknown = reference_tensor(members, nf_in, nf_out, qed, pids, "value")
    ref_e, _ = reference_tensor(members, nf_in, nf_out, qed, pids, "error")
    scale = max(1.0, float(np.abs(ref).max()))
    nz_blocks = int(np.sum(np.abs(ref).max(axis=(1, 3)) > 1e-9))
    ck.case(key, nontrivial=nz_blocks >= 20, sample=dict(kind=kind, qed=qed, nf_in=nf_in, nf_out=nf_out, n_members=len(members), nonzero_flavour_blocks=nz_blocks, **seedinfo))
    bad = False
    if unknown:
        ck.violation(f"C32/{tag}/labels-outside-basis/{kind}/{bq}", f"members {unknown[:5]} are not in the intrinsic bases nf_in={nf_in}, nf_out={nf_out}", dict(kind=kind, nf_in=nf_in, nf_out=nf_out, qed=qed, unknown=unknown, **seedinfo))
        bad = True
    ck.hit(hit)
    d = val - ref
    if val.shape != ref.shape or not np.all(np.isfinite(val)) or np.abs(d).max() > TOL * scale:
        blocks = localise(d, nf_in, nf_out, qed, pids, scale) if val.shape == ref.shape and np.all(np.isfinite(val)) else []
        grp = "+".join(sorted({_group(b[0].split(".")[0]) for b in blocks[:6]})) or "other"
        ck.violation(
            f"C32/{tag}/value/{kind}/{bq}/nf{nf_in}-{nf_out}/{grp}",
            f"flavour tensor differs from R_out^-1 E R_in by {float(np.abs(d).max()) if val.shape == ref.shape else 'shape'}; evolution-basis blocks affected: {blocks[:6]}",
            dict(kind=kind, nf_in=nf_in, nf_out=nf_out, qed=qed, max_abs_diff=float(np.abs(d).max()) if val.shape == ref.shape else None, blocks=blocks[:12], **seedinfo),
        )
        bad = True
    ck.hit("error_tensor_vs_reference")
    de = err - ref_e
    if err.shape != ref_e.shape or not np.all(np.isfinite(err)) or np.abs(de).max() > TOL * scale:
        blocks = localise(de, nf_in, nf_out, qed, pids, scale) if err.shape == ref_e.shape and np.all(np.isfinite(err)) else []
        ck.violation(
            f"C32/{tag}/error-tensor/{kind}/{bq}",
            f"error tensor is not the same linear image of the member errors (max diff {float(np.abs(de).max()) if err.shape == ref_e.shape else 'shape'}); blocks {blocks[:6]}",
            dict(kind=kind, nf_in=nf_in, nf_out=nf_out, qed=qed, blocks=blocks[:12], **seedinfo),
        )
        bad = True
    if not bad:
        ck.ok()
    return val, ref


def refill(opbase, rng, OpMember, OperatorBase):
    """Same labels, a fresh distinct random matrix per label."""
    n = next(iter(opbase.op_members.values())).value.shape[0]
    return OperatorBase({k: rand_member(rng, n, OpMember) for k in opbase.op_members}, 1.0)


def run(ck):
    from eko import basis_rotation as br
    from eko import member
    from eko.evolution_operator import flavors
    from eko.evolution_operator.matching_condition import MatchingCondition
    from eko.evolution_operator.physical import PhysicalOperator

    bad = fl.selfcheck()
    if bad:
        ck.inconclusive(f"flavour oracle is not self-consistent: {bad[:2]}")
        return
    pids = tuple(br.flavor_basis_pids)
    if sorted(pids) != sorted(fl.FLAVOR_PIDS):
        ck.inconclusive("flavour basis is not the 14 partons")
        return
    OpMember, OperatorBase = member.OpMember, member.OperatorBase
    weights(ck, flavors, br, pids)
    ck.note(weights_exhaustive=True)

    nfill = ck.n(4, 60)
    rng = ck.rng
    for qed in (False, True):
        bq = "qed" if qed else "qcd"
        for nf in (3, 4, 5, 6):
            for it in range(nfill):
                n = int(rng.integers(1, 4))
                si = dict(seed=ck.seed, filling=it, xgrid=n)
                # ---------------- evolution inside one patch
                ad = {k: rand_member(rng, n, OpMember) for k in physical_ad_keys(qed)}
                try:
                    phys = PhysicalOperator.ad_to_evol_map(ad, nf, 1.0, qed)
                except Exception as e:
                    ck.case(("physical", bq, nf, it))
                    ck.violation(f"C32/map/physical/raises/{bq}", f"ad_to_evol_map(nf={nf}, qed={qed}) raised {type(e).__name__}: {e}", dict(nf=nf, qed=qed))
                    phys = None
                if phys is not None:
                    if it == 0:
                        check_map(ck, "physical", phys, ad, expected_physical_map(nf, qed), nf, qed)
                    check_tensor(ck, "tensor", "physical", phys, nf, nf, qed, pids, ("physical", bq, nf, it), "tensor_vs_reference", si)
                    check_tensor(ck, "tensor", "physical-refilled", refill(phys, rng, OpMember, OperatorBase), nf, nf, qed, pids, ("physical-refilled", bq, nf, it), "tensor_vs_reference", si)
                # ---------------- matching nf -> nf+1
                if nf == 6:
                    continue
                adm = {k: rand_member(rng, n, OpMember) for k in matching_ad_keys(br)}
                try:
                    mat = MatchingCondition.split_ad_to_evol_map(adm, nf, 1.0, qed)
                except Exception as e:
                    ck.case(("matching", bq, nf, it))
                    ck.violation(f"C32/map/matching/raises/{bq}", f"split_ad_to_evol_map(nf={nf}, qed={qed}) raised {type(e).__name__}: {e}", dict(nf=nf, qed=qed))
                    continue
                if it == 0:
                    check_map(ck, "matching", mat, adm, expected_matching_map(nf, qed, br), nf, qed)
                res = check_tensor(ck, "tensor", "matching", mat, nf, nf, qed, pids, ("matching", bq, nf, it), "tensor_vs_reference", si)
                check_tensor(ck, "tensor", "matching-refilled", refill(mat, rng, OpMember, OperatorBase), nf, nf, qed, pids, ("matching-refilled", bq, nf, it), "tensor_vs_reference", si)
                # ---------------- products with the threshold rotation: nf_in != nf_out
                try:
                    rot = member.ScalarOperator.promote_names(flavors.rotate_matching(nf + 1, qed), 1.0)
                    roti = member.ScalarOperator.promote_names(flavors.rotate_matching_inverse(nf + 1, qed), 1.0)
                    up = rot @ mat  # basis(nf+1) <- basis(nf)
                    down = mat @ roti  # basis(nf) <- basis(nf+1)
                except Exception as e:
                    ck.case(("chain", bq, nf, it))
                    ck.violation(f"C32/chain/raises/{bq}", f"product with the threshold rotation raised {type(e).__name__}: {e}", dict(nf=nf, qed=qed))
                    continue
                r_up = check_tensor(ck, "mixed", "rot@matching", up, nf, nf + 1, qed, pids, ("up", bq, nf, it), "mixed_nf_tensor", si)
                check_tensor(ck, "mixed", "matching@rot_inverse", down, nf + 1, nf, qed, pids, ("down", bq, nf, it), "mixed_nf_tensor", si)
                check_tensor(ck, "mixed", "up-refilled", refill(up, rng, OpMember, OperatorBase), nf, nf + 1, qed, pids, ("up-refilled", bq, nf, it), "mixed_nf_tensor", si)
                check_tensor(ck, "mixed", "down-refilled", refill(down, rng, OpMember, OperatorBase), nf + 1, nf, qed, pids, ("down-refilled", bq, nf, it), "mixed_nf_tensor", si)
                # a change of evolution basis must not change the operator in flavour space
                if res is not None and r_up is not None:
                    ck.case(("chain", bq, nf, it))
                    ck.hit("rotation_chain")
                    d = r_up[0] - res[1]
                    scale = max(1.0, float(np.abs(res[1]).max()))
                    if np.abs(d).max() > TOL * scale:
                        blocks = localise(d, nf, nf, qed, pids, scale)
                        ck.violation(
                            f"C32/chain/rotation-invariance/{bq}/nf{nf}",
                            f"flavour tensor of rotate_matching({nf + 1}) @ matching differs from the matching itself by {float(np.abs(d).max())}; blocks (matching basis) {blocks[:6]}",
                            dict(nf=nf, qed=qed, blocks=blocks[:12], **si),
                        )
                    else:
                        ck.ok()
