"""C30: QED-extended anomalous-dimension grids embed the QCD ones with the correct charges."""

from fractions import Fraction as F

import numpy as np

META = dict(
    level="exploration",
    design_ref="DESIGN.md §5 C30",
    technique="differential + structural monitor: the pure-QCD slices of gamma_singlet_qed / gamma_valence_qed / gamma_ns_qed are compared entry by entry with gamma_singlet / gamma_ns (index map written here), the photon row/column must vanish, and the charge factors of the QED slices are extracted and compared with factors derived independently from the flavour-basis statement P_{q_i q_k}=delta_ik e_i^2 P, P_{q_i gamma}=e_i^2 Q, P_{gamma q_i}=e_i^2 R",
    level_text="Random complex N x nf 3-6 x both N3LO variants x variation tuples x QED orders up to (4,2); exact identities (same floating-point expressions are expected, tolerance 1e-13) plus nf-independence of the extracted O(aem^2) structure functions.",
    level_note="Trusted base: my derivation of the unified-evolution-basis charge matrices (Sigma=Sigma_u+Sigma_d, Sigma_Delta=(n_d/n_u)Sigma_u-Sigma_d; same for V) in exact rationals; the QCD entry points themselves are the reference for the embedded slices (their own correctness is C25/C27/C28).",
    rule="cases = (identity, N, nf, order slice, variant/variation); distinct by all of these; non-trivial = reference entry non-zero",
    min_nontrivial=1000,
    required_hits=["embed_singlet", "embed_valence", "embed_ns", "photon_decoupled", "charge_ratio", "aem2_structure", "charge_matrix"],
)

TOL = 1e-13
EU2, ED2 = F(4, 9), F(1, 9)
NC = 3


def nup(nf):
    return nf // 2


def charge_matrix(nf):
    """2x2 matrix acting on (Sigma, Sigma_Delta) (or (V, V_Delta)) for a kernel e_q^2 P, and the
    photon couplings, from the flavour-basis statement (exact rationals)."""
    nu = nup(nf)
    nd = nf - nu
    e2avg = (nu * EU2 + nd * ED2) / nf
    M = [
        [e2avg, F(nu, nf) * (EU2 - ED2)],
        [F(nd, nf) * (EU2 - ED2), (nd * EU2 + nu * ED2) / nf],
    ]
    # q <- photon: Sigma' += (nu eu2 + nd ed2) Q = nf e2avg Q ; Sigma_Delta' += nd (eu2 - ed2) Q
    qph = [nf * e2avg, nd * (EU2 - ED2)]
    # photon <- q: gamma' = R (eu2 Sigma_u + ed2 Sigma_d) = R (e2avg Sigma + nu/nf (eu2-ed2) Sigma_Delta)
    phq = [e2avg, F(nu, nf) * (EU2 - ED2)]
    return M, qph, phq


def fl(x):
    return float(x)


def run(ck):
    import ekore.anomalous_dimensions.unpolarized.space_like as us

    rng = ck.rng
    npts = ck.n(300, 10000)

    def cmp(hit, key, case, got, want, extra=None, tol=TOL, scale=None):
        got = complex(got)
        want = complex(want)
        sc = max(abs(want), abs(got)) if scale is None else scale
        ck.case(case, nontrivial=want != 0, sample=dict(identity=hit, case=case, got=got, want=want))
        ck.hit(hit)
        if not np.isfinite(abs(got)) or abs(got - want) > tol * sc:
            w = dict(identity=hit, case=case, got=got, want=want, seed=ck.seed)
            w.update(extra or {})
            ck.violation(key, f"{hit} {case}: {got} vs {want}", w)
        else:
            ck.ok()

    for ip in range(npts):
        kind = ip % 3
        if kind == 0:
            n = complex(rng.uniform(0.3, 20), rng.uniform(-30, 30))
        elif kind == 1:
            n = complex(rng.uniform(1.1, 8), rng.uniform(-2, 2))
        else:
            n = complex(float(rng.integers(2, 12)), 0.0) if rng.random() < 0.5 else complex(rng.uniform(1.2, 40), 0.0)
        nf = int(3 + ip % 4)
        fhm = bool((ip // 4) % 2)
        if fhm and nf == 6:
            fhm = False
        if fhm:
            v7 = tuple(int(x) for x in rng.integers(0, 3, 7))
        else:
            v7 = (int(rng.integers(0, 20)), int(rng.integers(0, 16)), int(rng.integers(0, 16)), int(rng.integers(0, 7)), 0, 0, 0)
        if ip % 5 == 0:
            v7 = (0,) * 7
        order = (int(rng.integers(1, 5)), int(rng.integers(1, 3))) if ip % 2 else (4, 2)
        tag = (nf, order, "fhmruvv" if fhm else "inhouse", v7)
        info = dict(N=n, nf=nf, order=order, use_fhmruvv=fhm, n3lo_ad_variation=v7)
        nq = order[0]

        gS = us.gamma_singlet_qed(order, n, nf, v7, fhm)
        gV = us.gamma_valence_qed(order, n, nf, v7, fhm)
        qS = us.gamma_singlet((nq, 0), n, nf, v7, fhm)
        qns = {m: us.gamma_ns((nq, 0), m, n, nf, v7, fhm) for m in (10101, 10201, 10200)}
        # Sigma_Delta is a non-singlet plus combination: its entry is gamma_ns(10101) for the SAME
        # variation tuple (slot 4, nsp) - not the ns+ part hidden inside qq (slot 3)
        qns_sd = qns[10101]
        gns = {m: us.gamma_ns_qed(order, m, n, nf, v7, fhm) for m in (10102, 10103, 10202, 10203)}

        # shapes
        for nm, arr, shp in (("singlet", gS, (order[0] + 1, order[1] + 1, 4, 4)), ("valence", gV, (order[0] + 1, order[1] + 1, 2, 2))):
            ck.case(("shape", nm, n, tag), nontrivial=False)
            if arr.shape != shp:
                ck.violation(f"C30/{nm}/shape", f"gamma_{nm}_qed{order} has shape {arr.shape}, expected {shp}", dict(info))
            else:
                ck.ok()
        # (0,0) slot is empty
        cmp("photon_decoupled", "C30/grid/00-slot", ("zero00", n, tag), np.abs(gS[0, 0]).max() + np.abs(gV[0, 0]).max() + sum(abs(g[0, 0]) for g in gns.values()), 0.0, info, scale=1.0)

        # ---------------- pure-QCD slices: index map (g,ph,Sigma,Sigma_Delta) <- [[qq,qg],[gq,gg]]
        for k in range(1, nq + 1):
            blk = gS[k, 0]
            ref = qS[k - 1]
            sl = f"as{k}"
            for (a, b), (i, j) in {(0, 0): (1, 1), (0, 2): (1, 0), (2, 0): (0, 1), (2, 2): (0, 0)}.items():
                cmp("embed_singlet", f"C30/singlet/{sl}/entry{a}{b}", ("S", k, a, b, n, tag), blk[a, b], ref[i, j], dict(info, slice=(k, 0)))
            sd_key = f"C30/singlet/{sl}/sigma-delta"
            if k == 4 and abs(blk[3, 3] - qns_sd[k - 1]) > 1e-13 * max(1.0, abs(qns_sd[k - 1])):
                # the known mechanism: ns+ evaluated with the qq variation slot [3] instead of the nsp slot [4];
                # anything else in this entry is a different violation and must not hide behind the known key
                v_alt = tuple(v7[:4]) + (v7[3],) + tuple(v7[5:])
                try:
                    alt = us.gamma_ns((nq, 0), 10101, n, nf, v_alt, fhm)[k - 1]
                except Exception:
                    alt = np.nan
                same_mechanism = fhm and v7[3] != v7[4] and abs(blk[3, 3] - alt) <= 1e-12 * max(1.0, abs(alt))
                if not same_mechanism:
                    sd_key += "/other"
            cmp("embed_singlet", sd_key, ("Sd", k, n, tag), blk[3, 3], qns_sd[k - 1], dict(info, slice=(k, 0)))
            # photon row and column, and every entry not in the map, vanish
            mask = np.ones((4, 4), bool)
            for a, b in ((0, 0), (0, 2), (2, 0), (2, 2), (3, 3)):
                mask[a, b] = False
            cmp("photon_decoupled", f"C30/singlet/{sl}/photon-or-offblock", ("ph", k, n, tag), np.abs(blk[mask]).max(), 0.0, dict(info, slice=(k, 0), block=blk), scale=max(1.0, np.abs(blk).max()))
            # valence: diag(nsV, ns-)
            vb = gV[k, 0]
            cmp("embed_valence", f"C30/valence/{sl}/V", ("V", k, n, tag), vb[0, 0], qns[10200][k - 1], dict(info, slice=(k, 0)))
            cmp("embed_valence", f"C30/valence/{sl}/Vdelta", ("Vd", k, n, tag), vb[1, 1], qns[10201][k - 1], dict(info, slice=(k, 0)))
            cmp("embed_valence", f"C30/valence/{sl}/offdiag", ("Vo", k, n, tag), abs(vb[0, 1]) + abs(vb[1, 0]), 0.0, dict(info, slice=(k, 0)), scale=max(1.0, np.abs(vb).max()))
            # ns grids
            for m in (10102, 10103):
                cmp("embed_ns", f"C30/ns/{sl}/plus", ("ns", m, k, n, tag), gns[m][k, 0], qns[10101][k - 1], dict(info, mode=m, slice=(k, 0)))
            for m in (10202, 10203):
                cmp("embed_ns", f"C30/ns/{sl}/minus", ("ns", m, k, n, tag), gns[m][k, 0], qns[10201][k - 1], dict(info, mode=m, slice=(k, 0)))
        # slices (k>=2, j>=1) are not implemented: must stay empty
        for k in range(2, order[0] + 1):
            for j in range(1, order[1] + 1):
                tot = np.abs(gS[k, j]).max() + np.abs(gV[k, j]).max() + sum(abs(g[k, j]) for g in gns.values())
                cmp("photon_decoupled", "C30/grid/unimplemented-slot", ("empty", k, j, n, tag), tot, 0.0, dict(info, slice=(k, j)), scale=1.0)

        # ---------------- up/down charge ratio at O(aem) and O(as aem)
        for j_as in (0, 1):
            for mu, md, sect in ((10102, 10103, "plus"), (10202, 10203, "minus")):
                u, d = gns[mu][j_as, 1], gns[md][j_as, 1]
                cmp("charge_ratio", f"C30/ns/as{j_as}aem1/{sect}/charge-ratio", ("ratio", j_as, sect, n, tag), u * fl(ED2), d * fl(EU2), dict(info, up=u, down=d), tol=1e-14 * 20)
        # plus and minus coincide at O(aem) (one-loop kernel), and differ at O(as aem)
        cmp("charge_ratio", "C30/ns/as0aem1/plus-minus", ("pm", n, tag), gns[10102][0, 1], gns[10202][0, 1], info)

        # ---------------- charge matrices of the O(aem) and O(as aem) blocks
        M, qph, phq = charge_matrix(nf)
        for sl in ((0, 1), (1, 1)):
            blk = gS[sl]
            P = blk[2, 2] / fl(M[0][0])  # common ns kernel from the Sigma,Sigma entry
            for a in range(2):
                for b in range(2):
                    cmp("charge_matrix", f"C30/singlet/as{sl[0]}aem1/quark-block", ("cm", sl, a, b, n, tag), blk[2 + a, 2 + b], P * fl(M[a][b]), dict(info, slice=sl, block=blk), tol=1e-12)
            Q = blk[2, 1] / fl(qph[0])
            cmp("charge_matrix", f"C30/singlet/as{sl[0]}aem1/q-from-photon", ("cq", sl, n, tag), blk[3, 1], Q * fl(qph[1]), dict(info, slice=sl, block=blk), tol=1e-12)
            Rr = blk[1, 2] / fl(phq[0])
            cmp("charge_matrix", f"C30/singlet/as{sl[0]}aem1/photon-from-q", ("cp", sl, n, tag), blk[1, 3], Rr * fl(phq[1]), dict(info, slice=sl, block=blk), tol=1e-12)
            if sl == (1, 1):
                # gluon row/column couple to quarks like the photon does (same charge pattern)
                G = blk[2, 0] / fl(qph[0])
                cmp("charge_matrix", "C30/singlet/as1aem1/q-from-gluon", ("cg", sl, n, tag), blk[3, 0], G * fl(qph[1]), dict(info, slice=sl, block=blk), tol=1e-12)
                Gq = blk[0, 2] / fl(phq[0])
                cmp("charge_matrix", "C30/singlet/as1aem1/gluon-from-q", ("cgq", sl, n, tag), blk[0, 3], Gq * fl(phq[1]), dict(info, slice=sl, block=blk), tol=1e-12)
            else:
                # the gluon does not take part at O(aem)
                cmp("photon_decoupled", "C30/singlet/as0aem1/gluon-row-col", ("g01", n, tag), np.abs(blk[0, :]).max() + np.abs(blk[:, 0]).max(), 0.0, dict(info, block=blk), scale=max(1.0, np.abs(blk).max()))
            vb = gV[sl]
            Pv = vb[0, 0] / fl(M[0][0])
            for a in range(2):
                for b in range(2):
                    cmp("charge_matrix", f"C30/valence/as{sl[0]}aem1/block", ("cv", sl, a, b, n, tag), vb[a, b], Pv * fl(M[a][b]), dict(info, slice=sl, block=vb), tol=1e-12)
            # the Sigma_Delta/V_Delta kernels are the ns ones: e_q^2-weighted functions agree with gamma_ns_qed
            cmp("charge_matrix", f"C30/singlet/as{sl[0]}aem1/ns-kernel", ("ck", sl, n, tag), P * fl(EU2), gns[10102][sl], dict(info, slice=sl), tol=1e-12)
            cmp("charge_matrix", f"C30/valence/as{sl[0]}aem1/ns-kernel", ("ckv", sl, n, tag), Pv * fl(EU2), gns[10202][sl], dict(info, slice=sl), tol=1e-12)

    # ---------------- O(aem^2): gamma_q = e_q^2 (e_q^2 F1(N) + e_Sigma^2(nf) F2(N)); F1,F2 nf-independent
    npts2 = ck.n(100, 3000)
    eu2, ed2 = fl(EU2), fl(ED2)
    for ip in range(npts2):
        n = complex(rng.uniform(0.3, 20), rng.uniform(-30, 30)) if ip % 2 else complex(rng.uniform(1.2, 30), 0.0)
        for sect, mu, md in (("plus", 10102, 10103), ("minus", 10202, 10203)):
            F1s, F2u, F2d, G11 = [], [], [], []
            for nf in (3, 4, 5, 6):
                nu = nup(nf)
                esig = NC * (nu * eu2 + (nf - nu) * ed2)
                gu = us.gamma_ns_qed((1, 2), mu, n, nf, (0,) * 7, False)
                gd = us.gamma_ns_qed((1, 2), md, n, nf, (0,) * 7, False)
                u, d = gu[0, 2] / eu2, gd[0, 2] / ed2
                f1 = (u - d) / (eu2 - ed2)
                F1s.append(f1)
                F2u.append((u - eu2 * f1) / esig)
                F2d.append((d - ed2 * f1) / esig)
                G11.append(gu[1, 1] / eu2)
            F1s, F2u, F2d, G11 = map(np.array, (F1s, F2u, F2d, G11))
            sc = max(np.abs(F1s).max(), np.abs(F2u).max(), 1e-300)
            ck.case(("aem2", sect, n), nontrivial=abs(F2u[0]) > 0 and abs(F1s[0]) > 0, sample=dict(sector=sect, N=n, F1=complex(F1s[0]), F2=complex(F2u[0])))
            ck.hit("aem2_structure")
            dev = max(np.abs(F1s - F1s[0]).max(), np.abs(F2u - F2u[0]).max(), np.abs(F2d - F2u).max())
            # abelianisation: the e_q^4 part of O(aem^2) is the C_F-stripped O(as aem) kernel over 2 (deFlorian et al. 2016, eq. 57/58)
            dev_ab = np.abs(F1s - G11 / (4.0 / 3.0) / 2.0).max()
            if dev > 1e-11 * sc:
                ck.violation(
                    f"C30/ns/aem2/{sect}/charge-structure",
                    f"O(aem^2) ns {sect}: extracted F1/F2 depend on nf or on the quark type at N={n}",
                    dict(N=n, sector=sect, F1_by_nf=F1s, F2_from_u_by_nf=F2u, F2_from_d_by_nf=F2d, seed=ck.seed),
                )
            elif dev_ab > 1e-11 * sc:
                ck.violation(
                    f"C30/ns/aem2/{sect}/abelian-part",
                    f"O(aem^2) ns {sect}: e_q^4 part differs from gamma^(1,1)/(2 C_F) at N={n}",
                    dict(N=n, sector=sect, F1_by_nf=F1s, G11_over_2CF=G11 / (8.0 / 3.0), seed=ck.seed),
                )
            else:
                ck.ok()
