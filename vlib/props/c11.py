"""C11: every solution, scale-variation and matching prescription conserves sum rules."""

import math

import numpy as np

from .. import jobs
from ..oracles import pathord as po

META = dict(
    level="exploration",
    design_ref="DESIGN.md §5 C11",
    technique="conservation-law monitor: left action of the conserved row vector on every kernel / scale-variation factor / matching operator produced by the real functions from random towers with the sum rule imposed by construction",
    level_text="Randomised exploration: random complex towers whose columns sum to zero in the relevant basis are fed to all 8 singlet methods (orders 1-4, iterations 1-50, both coupling orderings), the QED singlet/valence iterate, expanded and exponentiated scale variations (QCD and QED, fixed and running alpha_em) and build_ome (forward, exact and expanded inverse, matching orders 1-3). The oracle is the conservation law itself (no reference value needed), evaluated on every call. Nothing is claimed for inputs not generated.",
    level_note="Trusted base: the algebraic statement v.gamma_k = 0 for all k  =>  v.K = v, where v is (1,1) for (Sigma,g), (1,1,1,0) for (g,gamma,Sigma,Sigma_Delta), (1,1,1) for (g,Sigma,h+); plus a random left null vector as a basis-independent restatement. Tolerance 1e-11(1+||K||): rounding of projector/eig algebra on O(1) matrices.",
    rule="case = (site, method/prescription, order, nf, random constrained tower, couplings, iterations, L); distinct by construction; non-trivial = tower not identically zero and the kernel differs from the identity by > 1e-3 (quark-number cases with a zero tower are counted as trivial)",
    min_nontrivial=300,
    required_hits=["singlet_kernel", "qed_singlet_kernel", "qed_valence_kernel", "sv_expanded", "sv_exponentiated", "matching", "quark_number"],
    max_inconclusive_frac=0.02,
)

TOL = 1e-11
METHODS = [
    "ITERATE_EXACT",
    "ITERATE_EXPANDED",
    "PERTURBATIVE_EXACT",
    "PERTURBATIVE_EXPANDED",
    "TRUNCATED",
    "ORDERED_TRUNCATED",
    "DECOMPOSE_EXACT",
    "DECOMPOSE_EXPANDED",
]


def constrain(g, v):
    """Project the complex matrix g (.., d, d) so that v @ g == 0: fix the row of the last non-zero v entry."""
    g = np.array(g, dtype=complex)
    v = np.asarray(v, dtype=complex)
    idx = int(np.max(np.nonzero(v)[0]))
    others = [i for i in range(len(v)) if i != idx]
    g[..., idx, :] = -sum(v[i] * g[..., i, :] for i in others) / v[idx]
    return g


def defect(v, K):
    """|| v.K - v || / (1 + ||K||)"""
    v = np.asarray(v, dtype=complex)
    return float(np.linalg.norm(v @ K - v) / (1.0 + np.linalg.norm(K)))


def defect0(v, G):
    """|| v.G || / (1 + ||G||)  (anomalous dimensions: conserved means annihilated)."""
    v = np.asarray(v, dtype=complex)
    return float(np.linalg.norm(v @ G) / (1.0 + np.linalg.norm(G)))


def _vecs(rng, d, phys):
    """The physical conserved vector and a random complex left vector."""
    w = rng.normal(size=d) + 1j * rng.normal(size=d)
    w[-1] = w[-1] if abs(w[-1]) > 0.3 else 1.0  # the constrained row must be well conditioned
    return [("phys", np.array(phys, dtype=complex)), ("random", w)]


def _qed_tower(rng, order, d, scale_s=(4.0, 40.0, 400.0, 4000.0), scale_e=(1.0, 4.0, 40.0)):
    g = np.zeros((order[0] + 1, order[1] + 1, d, d), dtype=complex)
    for i in range(order[0] + 1):
        for j in range(order[1] + 1):
            if i == 0 and j == 0:
                continue
            sc = (scale_s[i - 1] if i > 0 else 1.0) * (scale_e[j] if j > 0 else 1.0)
            g[i, j] = (rng.normal(size=(d, d)) + 1j * rng.normal(size=(d, d))) * sc / math.sqrt(2 * d)
    return g


def _chunk(arg):
    seed, cid, nbase = arg
    import importlib

    qk = importlib.import_module("eko.evolution_operator.quad_ker")  # the package attribute of that name is the function
    build_ome, MatchingMethods = qk.build_ome, qk.MatchingMethods
    from eko.kernels import EvoMethods as EM
    from eko.kernels import non_singlet as ns
    from eko.kernels import non_singlet_qed as qed_ns
    from eko.kernels import singlet as s
    from eko.kernels import singlet_qed as qed_s
    from eko.kernels import valence_qed as qed_v
    from eko.scale_variations import expanded as sv_exp
    from eko.scale_variations import exponentiated as sv_expo

    rng = np.random.default_rng([seed, 11, cid])
    out = []

    def rec(site, sub, d, nontrivial, wit, err=None):
        out.append(dict(site=site, sub=sub, defect=d, nontrivial=bool(nontrivial), wit=wit, err=err, cid=cid))

    def call(site, sub, fn, wit):
        """Run fn -> (defect, nontrivial); exceptions/None outputs are recorded, not raised."""
        try:
            d, nt = fn()
        except Exception as e:  # noqa: BLE001 - the monitored function failed to produce a kernel
            rec(site, sub, None, True, wit, err=f"{type(e).__name__}: {e}")
            return
        rec(site, sub, d, nt, wit)

    for _ in range(nbase):
        nf = int(rng.integers(3, 7))
        a0 = float(rng.uniform(0.005, 0.05))
        r = float(rng.uniform(1.1, 4.0))
        a1 = a0 * r if (rng.random() < 0.5 and a0 * r < 0.06) else a0 / r
        L = float(rng.uniform(-1.4, 1.4))

        # ------------------------------------------------ QCD singlet kernels, all methods
        for n in (1, 2, 3, 4):
            for vname, v in _vecs(rng, 2, (1, 1)):
                gam = constrain(po.tower(rng, n), v)
                for m in METHODS:
                    it = int(rng.integers(1, 51))
                    M = int(rng.choice([n + 1, 6, 10])) if n > 1 else 10
                    wit = dict(method=m, order=[n, 0], nf=nf, a0=a0, a1=a1, ev_op_iterations=it, ev_op_max_order=[M, 0], vector=v, gamma=gam)

                    def f(m=m, n=n, gam=gam, it=it, M=M, v=v):
                        K = s.dispatcher((n, 0), EM[m], gam.copy(), a1, a0, nf, it, (M, 0))
                        return defect(v, K), np.linalg.norm(K - np.eye(2)) > 1e-3

                    call("singlet", f"{m.lower().replace('_', '-')}/order{n}/{vname}", f, wit)

        # ------------------------------------------------ quark number: zero tower -> exactly 1
        n = int(rng.integers(1, 5))
        for m in METHODS:
            wit = dict(method=m, order=[n, 0], nf=nf, a0=a0, a1=a1)

            def f(m=m, n=n):
                k = ns.dispatcher((n, 0), EM[m], np.zeros(n, dtype=complex), a1, a0, nf)
                return float(abs(k - 1.0)), False

            call("quark-number", f"ns-{m.lower().replace('_', '-')}/order{n}", f, wit)

        # ------------------------------------------------ QED singlet / valence / NS kernels
        for _rep in range(4):
            order = (int(rng.integers(1, 4)), int(rng.integers(1, 3)))
            it = int(rng.integers(1, 51))
            as_list = np.geomspace(a0, a1, it + 1)
            a_half = np.zeros((it, 2))
            a_half[:, 0] = 0.5 * (as_list[1:] + as_list[:-1])
            aem0 = float(rng.uniform(3e-4, 1.2e-3))
            a_half[:, 1] = aem0 * (1.0 + 0.05 * np.linspace(0, 1, it) * rng.uniform(-1, 1))
            for vname, v in _vecs(rng, 4, (1, 1, 1, 0)):
                gam = constrain(_qed_tower(rng, order, 4), v)
                wit = dict(order=list(order), nf=nf, as_list=as_list, a_half=a_half, ev_op_iterations=it, vector=v, gamma=gam.tolist())

                def f(gam=gam, v=v):
                    K = qed_s.dispatcher(order, EM.ITERATE_EXACT, gam.copy(), as_list, a_half, nf, it, (10, 0))
                    return defect(v, K), np.linalg.norm(K - np.eye(4)) > 1e-3

                call("qed-singlet", f"iterate/order{order[0]}{order[1]}/{vname}", f, wit)
            for vname, v in _vecs(rng, 2, (1, 0)):
                if vname == "phys":
                    # V conserved: first row of every gamma vanishes
                    gam = _qed_tower(rng, order, 2)
                    gam[..., 0, :] = 0.0
                else:
                    gam = constrain(_qed_tower(rng, order, 2), v)
                wit = dict(order=list(order), nf=nf, as_list=as_list, a_half=a_half, ev_op_iterations=it, vector=v, gamma=gam.tolist())

                def f(gam=gam, v=v):
                    K = qed_v.dispatcher(order, EM.ITERATE_EXACT, gam.copy(), as_list, a_half, nf, it, (10, 0))
                    return defect(v, K), np.linalg.norm(K - np.eye(2)) > 1e-3

                call("qed-valence", f"iterate/order{order[0]}{order[1]}/{vname}", f, wit)
            wit = dict(order=list(order), nf=nf, as_list=as_list, aem=a_half[:, 1], ev_op_iterations=it)

            def f():
                k = qed_ns.dispatcher(order, EM.ITERATE_EXACT, np.zeros((order[0] + 1, order[1] + 1), dtype=complex), as_list, a_half[:, 1], True, nf, it, 10.0, 100.0)
                return float(abs(k - 1.0)), False

            call("quark-number", f"qed-ns/order{order[0]}{order[1]}", f, wit)

        # ------------------------------------------------ expanded scale variation factors
        for n in (1, 2, 3, 4):
            for vname, v in _vecs(rng, 2, (1, 1)):
                gam = constrain(po.tower(rng, n), v)
                wit = dict(order=[n, 0], nf=nf, a_s=a1, L=L, vector=v, gamma=gam)

                def f(n=n, gam=gam, v=v):
                    K = sv_exp.singlet_variation(gam.copy(), a1, (n, 0), nf, L, 2)
                    return defect(v, K), n > 1

                call("sv-expanded", f"singlet/order{n}/{vname}", f, wit)
        for running in (False, True):
            o = (int(rng.integers(1, 5)), int(rng.integers(1, 3)))
            for vname, v in _vecs(rng, 4, (1, 1, 1, 0)):
                gam = constrain(_qed_tower(rng, o, 4), v)
                wit = dict(order=list(o), nf=nf, a_s=a1, a_em=aem0, alphaem_running=running, L=L, vector=v, gamma=gam.tolist())

                def f(o=o, gam=gam, v=v, running=running):
                    K = sv_exp.singlet_variation_qed(gam.copy(), a1, aem0, running, o, nf, L)
                    return defect(v, K), (o[0] > 1 or (running and o[1] > 1))

                call("sv-expanded", f"singlet-qed/{'running' if running else 'fixed'}/{vname}", f, wit)
            for vname, v in _vecs(rng, 2, (1, 0)):
                gam = _qed_tower(rng, o, 2)
                if vname == "phys":
                    gam[..., 0, :] = 0.0
                else:
                    gam = constrain(gam, v)
                wit = dict(order=list(o), nf=nf, a_s=a1, a_em=aem0, alphaem_running=running, L=L, vector=v, gamma=gam.tolist())

                def f(o=o, gam=gam, v=v, running=running):
                    K = sv_exp.valence_variation_qed(gam.copy(), a1, aem0, running, o, nf, L)
                    return defect(v, K), (o[0] > 1 or (running and o[1] > 1))

                call("sv-expanded", f"valence-qed/{'running' if running else 'fixed'}/{vname}", f, wit)
        n = int(rng.integers(1, 5))
        wit = dict(order=[n, 0], nf=nf, a_s=a1, L=L)

        def f(n=n):
            k = sv_exp.non_singlet_variation(np.zeros(n, dtype=complex), a1, (n, 0), nf, L)
            return float(abs(k - 1.0)), False

        call("quark-number", f"sv-expanded-ns/order{n}", f, wit)

        # ------------------------------------------------ exponentiated: adjusted gammas still conserve
        for n in (1, 2, 3, 4):
            for vname, v in _vecs(rng, 2, (1, 1)):
                gam = constrain(po.tower(rng, n), v)
                wit = dict(order=[n, 0], nf=nf, L=L, vector=v, gamma=gam)

                def f(n=n, gam=gam, v=v):
                    G = sv_expo.gamma_variation(gam.copy(), (n, 0), nf, L)
                    if G is None:
                        raise TypeError("gamma_variation returned None")
                    changed = np.linalg.norm(G - gam) > 1e-6 * np.linalg.norm(gam)
                    return max(defect0(v, G[k]) for k in range(n)), changed

                call("sv-exponentiated", f"singlet/order{n}/{vname}", f, wit)
        for running in (False, True):
            o = (int(rng.integers(1, 5)), int(rng.integers(1, 3)))
            nl = int(rng.integers(2, 4))
            for d, phys in ((4, (1, 1, 1, 0)), (2, (1, 0))):
                for vname, v in _vecs(rng, d, phys):
                    gam = _qed_tower(rng, o, d)
                    if d == 2 and vname == "phys":
                        gam[..., 0, :] = 0.0
                    else:
                        gam = constrain(gam, v)
                    wit = dict(order=list(o), nf=nf, nl=nl, L=L, alphaem_running=running, vector=v, gamma=gam.tolist())

                    def f(o=o, gam=gam, v=v, running=running, nl=nl):
                        G = sv_expo.gamma_variation_qed(gam.copy(), o, nf, nl, L, running)
                        if G is None:
                            raise TypeError("gamma_variation_qed returned None instead of the adjusted anomalous dimensions")
                        changed = np.linalg.norm(G - gam) > 1e-6 * np.linalg.norm(gam)
                        return max(defect0(v, G[i, j]) for i in range(o[0] + 1) for j in range(o[1] + 1)), changed

                    call("sv-exponentiated", f"qed-dim{d}/{'running' if running else 'fixed'}/{vname}", f, wit)

        # ------------------------------------------------ matching operators
        for mo in (1, 2, 3):
            for d, phys in ((3, (1, 1, 1)), (2, (1, 1))):
                for vname, v in _vecs(rng, d, phys):
                    A = constrain(po.tower(rng, mo, d, scale=[3.0, 30.0, 300.0]), v)
                    a_s = float(rng.uniform(0.01, 0.04))
                    for bm in ("FORWARD", "BACKWARD_EXACT", "BACKWARD_EXPANDED"):
                        wit = dict(matching_order=[mo, 0], a_s=a_s, backward_method=bm, vector=v, A=A)

                        def f(A=A, mo=mo, a_s=a_s, bm=bm, v=v):
                            K = build_ome(A.copy(), (mo, 0), a_s, MatchingMethods[bm])
                            return defect(v, K), np.linalg.norm(K - np.eye(len(v))) > 1e-3

                        call("matching", f"{bm.lower().replace('_', '-')}/order{mo}/dim{d}/{vname}", f, wit)
    return out


HITS = {
    "singlet": "singlet_kernel",
    "qed-singlet": "qed_singlet_kernel",
    "qed-valence": "qed_valence_kernel",
    "sv-expanded": "sv_expanded",
    "sv-exponentiated": "sv_exponentiated",
    "matching": "matching",
    "quark-number": "quark_number",
}


def _mech(site, sub):
    """Mechanism key: site + prescription (+order), without the vector flavour."""
    parts = sub.split("/")
    if parts[-1] in ("phys", "random"):
        parts = parts[:-1]
    return f"C11/{site}/" + "/".join(parts)


def _register(ck, r, idx):
    ck.case((r["site"], r["sub"], r["cid"], idx), nontrivial=r["nontrivial"], sample=dict(site=r["site"], case=r["sub"], defect=r["defect"]) if idx % 97 == 0 else None)
    ck.hit(HITS[r["site"]])
    key = _mech(r["site"], r["sub"])
    if r["err"] is not None:
        ck.violation(key + "/no-output", f"{r['site']} {r['sub']}: the prescription produced no kernel ({r['err'][:160]})", dict(r["wit"], error=r["err"]))
        return
    tol = 0.0 if r["site"] == "quark-number" else TOL
    if r["defect"] is not None and np.isfinite(r["defect"]):
        md = ck.extra.setdefault("max_defect_by_site", {})
        md[r["site"]] = max(md.get(r["site"], 0.0), float(r["defect"]))
    if r["defect"] is not None and np.isfinite(r["defect"]) and r["defect"] <= tol:
        ck.ok()
    else:
        what = (
            f"{r['site']} {r['sub']}: kernel for a vanishing tower differs from 1 by {r['defect']:.3e}"
            if r["site"] == "quark-number"
            else f"{r['site']} {r['sub']}: conserved vector not preserved, ||v.K-v||/(1+||K||) = {r['defect']:.3e} > {TOL}"
        )
        ck.violation(key, what, dict(r["wit"], defect=r["defect"], tol=tol))


def run(ck):
    nbase = ck.n(12, 480)
    per = ck.n(1, 8)
    chunks = [(ck.seed, cid, per) for cid in range(math.ceil(nbase / per))]
    idx = 0
    for item, st, val in jobs.pmap(_chunk, chunks, timeout=ck.n(900, 7200)):
        if st != "ok":
            ck.case(("chunk", item[1]), nontrivial=False)
            ck.inconclusive(f"chunk {item[1]} {st}: {str(val)[:300]}")
            continue
        for r in val:
            _register(ck, r, idx)
            idx += 1
