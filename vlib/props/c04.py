"""C04: every supported configuration yields a finite EKO; others fail cleanly."""

import numpy as np

from .. import jobs, workload as w

META = dict(
    level="exploration",
    design_ref="DESIGN.md §5 C04",
    technique="configuration sweep of the real solver (covering array + exhaustive low-order sub-product) with outcome classification, a finiteness monitor on numpy.save/savez (every array written) and zero-block monitors on the ekore entry points the kernels call",
    level_text="Each configuration is solved by the real eko.solve in a worker; the outcome must be a finite archive or a NotImplementedError/ValueError with a message. Arrays are checked for finiteness at the moment they are written. Wrappers on the anomalous-dimension/OME entry points record whether a whole perturbative order came back identically zero during a solve that succeeded (silent zero-filling).",
    level_note="Couplings and scales are kept in the perturbative range (alpha_s(MZ) in [0.105,0.122], mu >= 1.3 GeV). Documented exception: time-like matching beyond NLO may be zero. QED grids are monitored on the pure axes only (mixed higher orders are legitimately absent).",
    rule="case = one runcard configuration (orders x QED x em_running x method x scale variation x inversion x pol/time-like x path shape x nf); distinct by configuration tuple; non-trivial = the solver was really invoked on a path with evolution (every generated case is)",
    min_nontrivial=40,
    required_hits=["outcome_classified", "arrays_written_checked"],
    max_inconclusive_frac=0.1,
)

CLEAN = ("NotImplementedError", "ValueError")
WRAP = [
    ("ekore.anomalous_dimensions.unpolarized.space_like", ["gamma_singlet", "gamma_ns"], "ad_us"),
    ("ekore.anomalous_dimensions.polarized.space_like", ["gamma_singlet", "gamma_ns"], "ad_ps"),
    ("ekore.anomalous_dimensions.unpolarized.time_like", ["gamma_singlet", "gamma_ns"], "ad_ut"),
    ("ekore.operator_matrix_elements.unpolarized.space_like", ["A_singlet", "A_non_singlet"], "ome_us"),
    ("ekore.operator_matrix_elements.polarized.space_like", ["A_singlet", "A_non_singlet"], "ome_ps"),
    ("ekore.operator_matrix_elements.unpolarized.time_like", ["A_singlet", "A_non_singlet"], "ome_ut"),
]
WRAP_QED = [("ekore.anomalous_dimensions.unpolarized.space_like", ["gamma_singlet_qed", "gamma_valence_qed", "gamma_ns_qed"], "ad_us")]


def make_cfg(row, rng):
    nf0 = row["nf"]
    shape = row["path"]
    masses = list(w.DEFAULT_MASSES)
    masses[2] = 60.0  # keep the top wall reachable cheaply
    # L != 0: a vanishing logarithm must not look like a missing order
    ratios = [float(rng.choice([1.3, 1.6])), float(rng.choice([0.8, 1.3, 1.6])), float(rng.choice([0.8, 1.3, 1.6]))]
    if row["nf"] <= 5 and not (row["nf"] == 5 and row["path"] == "up") and (row.get("_force_inf") or rng.random() < 0.35):
        # the top quark switched off by an infinite matching ratio (the idiom of the repository's own
        # fixtures): a wrong index into the ratio list then turns ln(k) into +-inf
        ratios[2] = float("inf")
    walls = [m * r for m, r in zip(masses, ratios)]
    lo = [1.3, walls[0], walls[1], walls[2]]
    hi = [walls[0], walls[1], min(walls[2], 250.0), 300.0]

    def inpatch(nf, f):
        a, b = lo[nf - 3], hi[nf - 3]
        return float(np.exp(np.log(a * 1.05) + f * (np.log(b * 0.95) - np.log(a * 1.05))))

    if shape == "up" and nf0 == 6:
        shape = "single"
    if shape == "down" and nf0 == 3:
        shape = "single"
    nff = nf0 + (1 if shape == "up" else -1 if shape == "down" else 0)
    mu0 = inpatch(nf0, 0.3)
    mu1 = inpatch(nff, 0.7 if shape != "down" else 0.4)
    scvar = row["scvar"]
    return dict(
        qcd=row["qcd"],
        qed=row["qed"],
        method=row["method"],
        pt=row["pt"],
        init=[mu0, nf0],
        targets=[[mu1, nff]],
        masses=masses,
        ratios=ratios,
        xgrid=[1e-2, 0.3, 1.0],
        degree=1,
        scvar=scvar,
        xif=2.0 if scvar else 1.0,
        inversion=row["inversion"],
        iters=1,
        alphas=0.118,
        alphaem=0.007496252,
        em_running=row["em_running"],
        max_order=[10, 0],
        cores=1,
        n3lo_var=[0] * 7,
        fhmruvv=True,
        matching_order=None,
        scheme="POLE",
        shape=shape,
    )


def run_case(cfg):
    import importlib
    import traceback

    import numpy

    stats = {"written": 0, "nonfinite": 0}
    zero = {}  # (alias.fn, k) -> all-zero so far ; calls
    orig_save, orig_savez = numpy.save, numpy.savez

    def chk(a):
        a = numpy.asarray(a)
        stats["written"] += 1
        if a.dtype.kind in "fc" and not numpy.all(numpy.isfinite(a)):
            stats["nonfinite"] += 1

    def save(file, arr, *a, **k):
        chk(arr)
        return orig_save(file, arr, *a, **k)

    def savez(file, *args, **kw):
        for x in list(args) + list(kw.values()):
            chk(x)
        return orig_savez(file, *args, **kw)

    numpy.save, numpy.savez = save, savez
    undo = []

    def wrap(modname, fn, alias, qed=False):
        mod = importlib.import_module(modname)
        orig = getattr(mod, fn)

        def rec(*a, **k):
            r = orig(*a, **k)
            arr = numpy.asarray(r)
            if qed:
                blocks = [((i, 0), arr[i, 0]) for i in range(1, arr.shape[0])] + [((0, j), arr[0, j]) for j in range(1, arr.shape[1])]
            else:
                blocks = [(i, arr[i]) for i in range(arr.shape[0])]
            for kk, b in blocks:
                key = f"{alias}.{fn}[{kk}]"
                z = bool(numpy.all(b == 0))
                cur = zero.get(key, [True, 0])
                zero[key] = [cur[0] and z, cur[1] + 1]
            return r

        setattr(mod, fn, rec)
        undo.append((mod, fn, orig))

    for modname, fns, alias in WRAP:
        for fn in fns:
            wrap(modname, fn, alias)
    for modname, fns, alias in WRAP_QED:
        for fn in fns:
            wrap(modname, fn, alias, qed=True)
    try:
        try:
            res = w.solve_cfg(cfg)
        except Exception as e:
            tb = traceback.extract_tb(e.__traceback__)
            frames = [f for f in tb if "/src/eko" in f.filename or "/src/ekore" in f.filename or "/src/ekobox" in f.filename]
            site = f"{frames[-1].filename.split('/src/')[-1]}:{frames[-1].name}" if frames else "outside-repo"
            return dict(status="raised", etype=type(e).__name__, msg=str(e)[:300], site=site, tb="".join(traceback.format_exception(e))[-900:], stats=stats)
        finite = all(np.all(np.isfinite(o)) and (e is None or np.all(np.isfinite(e))) for o, e in res.values())
        zeros = {k: v[1] for k, v in zero.items() if v[0] and v[1] > 0}
        return dict(status="ok", finite=bool(finite), stats=stats, zero_blocks=zeros, calls={k: v[1] for k, v in zero.items()}, ntargets=len(res))
    finally:
        numpy.save, numpy.savez = orig_save, orig_savez
        for mod, fn, orig in undo:
            setattr(mod, fn, orig)


FACTORS = dict(
    qcd=[1, 2, 3, 4],
    qed=[0, 1, 2],
    em_running=[False, True],
    method=w.METHODS,
    scvar=[None, "exponentiated", "expanded"],
    inversion=["exact", "expanded"],
    pt=["unpol", "pol", "tl", "pol+tl"],
    path=["single", "up", "down"],
    nf=[3, 4, 5, 6],
)


def rows(ck):
    rng = ck.rng
    out = w.covering_array(FACTORS, strength=2 if ck.quick else 3, rng=rng, extra_random=ck.n(20, 300))
    # cap the expensive N3LO rows
    cap = ck.n(10, 120)
    n4 = 0
    kept = []
    for r in out:
        if r["qcd"] == 4:
            n4 += 1
            if n4 > cap:
                r = dict(r, qcd=int(rng.integers(1, 4)))
        kept.append(r)
    # rows biased towards the supported region (the covering array is dominated by refusals)
    for _ in range(ck.n(60, 500)):
        r = {n: FACTORS[n][int(rng.integers(len(FACTORS[n])))] for n in FACTORS}
        if rng.random() < 0.6:
            r["qed"] = 0
            r["pt"] = ["unpol", "unpol", "pol", "tl"][int(rng.integers(4))]
            r["qcd"] = int(rng.integers(1, 4)) if (r["pt"] != "unpol" or rng.random() < 0.85) else 4
        else:
            r["qed"] = int(rng.integers(1, 3))
            r["method"] = "iterate-exact"
            r["pt"] = "unpol"
            r["qcd"] = int(rng.integers(1, 4))
        kept.append(r)
    # downward crossings at NLO+ with unequal matching ratios (incl. a switched-off top): a wrong ratio/index
    # in the inverse matching shows up as a non-finite logarithm
    for _ in range(ck.n(8, 60)):
        r = {n: FACTORS[n][int(rng.integers(len(FACTORS[n])))] for n in FACTORS}
        r.update(qed=0, pt=["unpol", "unpol", "pol"][int(rng.integers(3))], qcd=int(rng.integers(2, 4)), path="down", nf=int(rng.integers(4, 6)), _force_inf=True)
        kept.append(r)
    tag = ["cover"] * len(kept)
    if not ck.quick:
        import itertools

        sub = dict(FACTORS, qcd=[1, 2], qed=[0, 1], nf=[4])
        names = list(sub)
        for vals in itertools.product(*[sub[n] for n in names]):
            kept.append(dict(zip(names, vals)))
            tag.append("exhaustive-low-order")
    return kept, tag


def must_refuse(cfg):
    """Support matrix as documented (doc/source/theory and the solver's own refusal messages):
    a configuration in one of these classes has no implementation and has to be refused."""
    if cfg["qed"] > 0 and cfg["method"] != "iterate-exact":
        return "QED evolution is only implemented for the iterate-exact method"
    if cfg["pt"] == "pol+tl":
        return "polarized time-like evolution is not implemented"
    if cfg["qed"] > 0 and cfg["pt"] in ("pol", "tl"):
        return "QED evolution only exists for unpolarized space-like evolution"
    if cfg["pt"] in ("pol", "tl") and cfg["qcd"] >= 4:
        return f"{cfg['pt']} evolution beyond NNLO is not available"
    return None


def zero_violation(cfg, key):
    """Is an identically-zero block at this site a silent zero-fill of a requested ingredient?"""
    name, k = key.split("[")
    k = k.rstrip("]")
    if name.startswith("ome_ut") and k not in ("0",):
        return False  # documented exception: time-like matching beyond NLO is unknown
    if name in ("ome_ut.A_non_singlet", "ome_ps.A_non_singlet") and k == "0":
        # physics, not a missing ingredient: the light non-singlet matching starts at O(a_s^2)
        # (doc/source/theory/Matching.rst); only the unpolarized intrinsic hh entry is O(a_s)
        return False
    return True


def run(ck):
    rws, tags = rows(ck)
    cfgs = []
    for r, t in zip(rws, tags):
        c = make_cfg(r, ck.rng)
        if c["pt"] == "pol+tl":
            c["_both"] = True
        c["_tag"] = t
        cfgs.append(c)
    if ck.replay:
        cfgs = [ck.replay["witness"]["cfg"]]

    def to_solver(c):
        d = {k: v for k, v in c.items() if not k.startswith("_")}
        return d

    seen = set()
    todo = []
    for c in cfgs:
        k = w.cfg_key(c)
        if k not in seen:
            seen.add(k)
            todo.append(c)
    outcomes = {}
    for cfg, st, res in jobs.pmap(run_case_outer, todo, timeout=ck.n(3000, 6 * 3600), item_timeout=ck.n(1200, 3600)):
        key = w.cfg_key(cfg)
        brief = {k: cfg[k] for k in ("qcd", "qed", "em_running", "method", "scvar", "inversion", "pt", "shape")}
        brief["nf"] = cfg["init"][1]
        if st != "ok":
            ck.case(key, nontrivial=False)
            ck.inconclusive(f"job {st}: {str(res)[:100]}")
            continue
        ck.hit("outcome_classified")
        ck.hit("arrays_written_checked", res["stats"]["written"])
        ck.case(key, nontrivial=True, sample=dict(cfg=brief, outcome=res["status"] if res["status"] == "ok" else f"{res['etype']}: {res['msg'][:80]}"))
        if res["stats"]["nonfinite"]:
            ck.violation(f"C04/nonfinite-written/{brief['pt']}/order{cfg['qcd']}{cfg['qed']}", "non-finite array written to the archive", dict(cfg=cfg, res=res))
            continue
        if res["status"] == "raised":
            oc = f"{res['etype']}@{res['site']}"
            outcomes[oc] = outcomes.get(oc, 0) + 1
            if res["etype"] in CLEAN:
                if len(res["msg"].strip()) < 8:
                    ck.violation(f"C04/refusal-without-message/{res['site']}", f"{res['etype']} with empty message", dict(cfg=cfg, res=res))
                else:
                    ck.hit("clean_refusals")
                    ck.ok()
            else:
                ck.violation(f"C04/{res['etype']}@{res['site']}", f"unrelated exception {res['etype']}: {res['msg'][:120]}", dict(cfg=cfg, res=res))
            continue
        outcomes["ok"] = outcomes.get("ok", 0) + 1
        why = must_refuse(cfg)
        if why:
            cls = "qed-method" if cfg["qed"] > 0 and cfg["method"] != "iterate-exact" else (cfg["pt"] + ("+qed" if cfg["qed"] else ""))
            ck.violation(f"C04/accepted-unsupported/{cls}", f"configuration was solved although {why} (order {cfg['qcd']},{cfg['qed']}, method {cfg['method']}, {brief['pt']})", dict(cfg=cfg, res=res))
            continue
        if not res["finite"]:
            ck.violation(f"C04/nonfinite-result/{brief['pt']}/order{cfg['qcd']}{cfg['qed']}", "operator contains non-finite entries", dict(cfg=cfg, res=res))
            continue
        bad = [k for k in res["zero_blocks"] if zero_violation(cfg, k)]
        if bad:
            for k in bad:
                ck.violation(f"C04/zero-filled/{k}", f"solve succeeded but {k} was identically zero on all {res['zero_blocks'][k]} calls (requested order {cfg['qcd']},{cfg['qed']}, {brief['pt']})", dict(cfg=cfg, res=res))
        else:
            ck.hit("finite_results")
            ck.ok()
    ck.note(outcomes=outcomes, exhaustive=False, exhaustive_low_order_subproduct=not ck.quick)


def run_case_outer(cfg):
    c = {k: v for k, v in cfg.items() if not k.startswith("_")}
    shape = c.pop("shape", None)
    if c["pt"] == "pol+tl":
        # both flags set: handled by cfg_cards via pt -> need both booleans
        from .. import workload

        th, op = workload.cfg_cards(dict(c, pt="pol"))
        op["configs"]["time_like"] = True
        return _run_raw(th, op, c)
    return run_case(c)


def _run_raw(th, op, cfg):
    # same monitors as run_case, with explicit raw cards
    orig = w.solve_cfg

    def solve_cfg(_cfg, **kw):
        return w.solve(th, op)

    w.solve_cfg = solve_cfg
    try:
        return run_case(cfg)
    finally:
        w.solve_cfg = orig
