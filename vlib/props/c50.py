"""C50: VFNS results depend on the matching scale only beyond the matching order."""

import importlib

import numpy as np

from .. import jobs, workload as w

META = dict(
    level="exploration",
    design_ref="DESIGN.md §5 C50",
    technique="captured-plumbing monitor in Mellin space: the real eko.solve pipeline (recipes, parts.evolve, parts.match, basis rotations, join) runs with the x-space integration replaced by the kernel value at a fixed complex N (carried as its real 2x2 representation), for pairs of cards differing in one matching ratio; slope of the difference versus a coupling scale factor lambda. Plus real x-space solves at low order.",
    level_text="For unpolarised, polarised and time-like evolution across one matching scale (upward and downward, exact and expanded inversion) the N-space flavour-basis operator produced by the runner's own plumbing is applied to random light-parton moments for two matching ratios; the difference must fall at least like lambda^n at order n with matching order n-1 (orders 1-3). Low orders are also checked end to end in x-space.",
    level_note="Complex kernel values are carried through the real pipeline as 2x2 real matrices [[a,-b],[b,a]] (a faithful representation, all runner operations are real-linear or products). Slope from the three smallest lambda above a 1e-13 floor; required n-0.3. Iterated methods use >=48 iterations (their discretisation error does not scale with a_s^n). x-space points are used only where the difference exceeds 5x the reported integration error.",
    rule="case = (configuration, N, output flavour group); distinct by configuration+N; non-trivial = two different matching ratios, path really crosses the varied matching scale, >=3 lambda points above the floor",
    min_nontrivial=15,
    required_hits=["slopes_fitted", "pipeline_runs"],
    max_inconclusive_frac=0.2,
)

PIDS = [22, -6, -5, -4, -3, -2, -1, 21, 1, 2, 3, 4, 5, 6]
NVALS = [complex(2.3, 1.1), complex(4.1, -2.7), complex(7.5, 3.0)]
LAMS = {1: [1 / 8, 1 / 16, 1 / 32, 1 / 64], 2: [1 / 8, 1 / 16, 1 / 32, 1 / 64], 3: [1 / 4, 1 / 8, 1 / 16, 1 / 32]}


def nspace_operator(cfg, N):
    """Run the real solve with integration replaced by K(N); return complex flavour operator {target: 14x14}."""
    import eko.evolution_operator as evop

    qk = importlib.import_module("eko.evolution_operator.quad_ker")
    orig_integrate = evop.Operator.integrate
    orig_qkb = qk.QuadKerBase
    state = {"phase": 1.0}

    class FakeBase:
        def __init__(self, u, is_log, logx, mode0):
            self.is_singlet = mode0 in [100, 21, 90]
            self.is_QEDsinglet = mode0 in [21, 22, 100, 101, 90]
            self.is_QEDvalence = mode0 in [10200, 10204]
            self.is_log, self.u, self.logx = is_log, u, logx

        @property
        def n(self):
            return N

        def integrand(self, areas):
            return state["phase"]

    def fake_integrate(self):
        for label in self.labels:
            part = self.quad_ker(label=label, logx=-1.0, areas=None)
            state["phase"] = 1.0
            re = part(0.7)
            state["phase"] = -1j
            im = part(0.7)
            self.op_members[label].value = np.array([[re, -im], [im, re]], dtype=float)
            self.op_members[label].error = np.zeros((2, 2))

    evop.Operator.integrate = fake_integrate
    qk.QuadKerBase = FakeBase
    try:
        res = w.solve_cfg(dict(cfg, xgrid=[0.1, 1.0], degree=1))
    finally:
        evop.Operator.integrate = orig_integrate
        qk.QuadKerBase = orig_qkb
    out = {}
    for k, (o, e) in res.items():
        # o[a, i, b, j] with 2x2 blocks [[re,-im],[im,re]]
        out[k] = o[:, 0, :, 0] + 1j * o[:, 1, :, 0]
    return out


def strip(cfg):
    return {k: v for k, v in cfg.items() if not k.startswith("_")}


def nspace_case(cfg):
    n = cfg["qcd"]
    lams = LAMS[n]
    rng = np.random.default_rng(cfg["_seed"])
    # random complex moments of the light partons
    f = rng.normal(size=14) + 1j * rng.normal(size=14)
    f[PIDS.index(22)] = 0.0
    for q in range(cfg["_hq"], 7):  # no intrinsic heavy-quark input (intrinsic matching is only known at NLO)
        f[PIDS.index(q)] = f[PIDS.index(-q)] = 0.0
    nruns = 0
    recs = []
    try:
        for N in NVALS[: cfg["_nN"]]:
            pts = []
            for lam in lams:
                outs = []
                fin = f
                if cfg["_direction"] == "down":
                    # physical input above the wall: light partons evolved upwards by the runner itself
                    # (heavy quark perturbatively generated), otherwise an arbitrary heavy-quark input is an
                    # intrinsic component, whose matching is only available at NLO (unpolarised) or not at all
                    cu = dict(strip(cfg), alphas=cfg["alphas"] * lam, ratios=cfg["_ratios_a"], init=cfg["targets"][0], targets=[cfg["init"]], inversion=None)
                    (ku, ou), = nspace_operator(cu, N).items()
                    nruns += 1
                    fin = ou @ f
                for ratios in (cfg["_ratios_a"], cfg["_ratios_b"]):
                    c = dict(strip(cfg), alphas=cfg["alphas"] * lam, ratios=ratios)
                    ops = nspace_operator(c, N)
                    nruns += 1
                    (key, o), = ops.items()
                    outs.append(o @ fin)
                d = np.abs(outs[0] - outs[1])
                scale = max(float(np.abs(outs[0]).max()), 1e-300)
                heavy = np.array([abs(p) >= cfg["_hq"] and abs(p) <= 6 for p in PIDS])
                pts.append((lam, float(d[~heavy].max() / scale), float(d[heavy].max() / scale)))
            recs.append(dict(N=[N.real, N.imag], group="light-out", pts=[(l, a) for l, a, b in pts]))
            # heavy-quark output: meaningful when going up, and when going down only where the
            # intrinsic matching entries exist (unpolarised)
            if cfg["_direction"] == "up" or cfg["pt"] == "unpol":
                recs.append(dict(N=[N.real, N.imag], group="heavy-out", pts=[(l, b) for l, a, b in pts]))
    except (NotImplementedError, ValueError) as e:
        return dict(status="refused", msg=f"{type(e).__name__}: {str(e)[:100]}")
    except Exception as e:
        import traceback

        return dict(status="crash", msg=f"{type(e).__name__}: {str(e)[:200]}", tb=traceback.format_exc()[-700:])
    return dict(status="ok", recs=recs, nruns=nruns)


def xspace_case(cfg):
    """Real solves: D(lambda) on evolved toy PDFs, decided only above the integration error."""
    from . import c05

    rng = np.random.default_rng(cfg["_seed"])
    f, _ = c05.toy(rng, cfg["init"][1] + (1 if cfg["_intrinsic"] else 0), cfg["pt"] == "pol", False)
    xs = np.array(cfg["xgrid"])
    fin = np.array([f(pid, xs) for pid in PIDS])
    fin[:, -1] = 0.0
    pts = []
    try:
        for lam in cfg["_lams"]:
            outs, errs = [], []
            for ratios in (cfg["_ratios_a"], cfg["_ratios_b"]):
                res = w.solve_cfg(dict(strip(cfg), alphas=cfg["alphas"] * lam, ratios=ratios))
                (key, (o, e)), = res.items()
                outs.append(np.einsum("ajbk,bk->aj", o, fin))
                errs.append(np.einsum("ajbk,bk->aj", np.abs(e), np.abs(fin)))
            d = float(np.abs(outs[0] - outs[1]).max())
            noise = float((errs[0] + errs[1]).max())
            scale = float(np.abs(outs[0]).max())
            pts.append((lam, d / scale, noise / scale))
    except (NotImplementedError, ValueError) as e:
        return dict(status="refused", msg=f"{type(e).__name__}: {str(e)[:100]}")
    except Exception as e:
        import traceback

        return dict(status="crash", msg=f"{type(e).__name__}: {str(e)[:200]}", tb=traceback.format_exc()[-700:])
    return dict(status="ok", pts=pts)


def job(j):
    kind, cfg = j
    return nspace_case(cfg) if kind == "nspace" else xspace_case(cfg)


def fit(pts, floor=1e-13):
    use = sorted((l, d) for l, d in pts if d > floor)[:3]
    if len(use) < 3:
        return None, len(use)
    return float(np.polyfit(np.log([u[0] for u in use]), np.log([u[1] for u in use]), 1)[0]), len(use)


def make_cfg(rng, qcd, pt, direction, method=None, inversion=None):
    masses = [1.51, 4.92, 172.5]
    hq = int(rng.choice([4, 5]))  # the quark whose matching ratio is varied
    m = masses[hq - 4]
    ka, kb = [float(x) for x in rng.choice([0.6, 0.8, 1.0, 1.3, 1.7, 2.0], size=2, replace=False)]
    lo_wall, hi_wall = m * min(ka, kb), m * max(ka, kb)
    below = max(lo_wall / float(rng.uniform(1.25, 1.8)), 1.3, (masses[hq - 5] * 1.05 if hq > 4 else 1.3))
    if below >= lo_wall * 0.97:
        below = lo_wall * 0.8
    above = min(hi_wall * float(rng.uniform(1.3, 3.0)), (masses[hq - 3] * 0.9))
    ra, rb = [1.0, 1.0, 1.0], [1.0, 1.0, 1.0]
    ra[hq - 4], rb[hq - 4] = ka, kb
    if direction == "up":
        init, target = [below, hq - 1], [above, hq]
    else:
        init, target = [above, hq], [below, hq - 1]
    meth = method or str(rng.choice(w.METHODS))
    iters = int(rng.integers(48, 72)) if meth.startswith(("iterate", "perturbative")) else 1
    return dict(
        qcd=qcd, qed=0, method=meth, pt=pt, init=init, targets=[target], masses=masses, ratios=ra,
        xgrid=[0.1, 1.0], degree=1, scvar=None, xif=1.0,
        inversion=(inversion or str(rng.choice(["exact", "expanded"]))) if direction == "down" else None,
        iters=iters, alphas=float(rng.uniform(0.112, 0.122)), alphaem=0.007496252, em_running=False, max_order=[10, 0], cores=1,
        n3lo_var=[0] * 7, fhmruvv=True, matching_order=None, scheme="POLE",
        _ratios_a=ra, _ratios_b=rb, _seed=int(rng.integers(1 << 30)), _nN=2, _direction=direction, _hq=hq,
    )


def make_jobs(ck):
    rng = ck.rng
    js = []
    plan = []
    reps = ck.n(1, 12)
    for qcd in (1, 2, 3):
        for pt in ("unpol", "pol", "tl"):
            if pt == "tl" and qcd == 3:
                continue  # documented exception: time-like matching beyond NLO is unknown
            for direction in ("up", "down"):
                for _ in range(reps if pt != "unpol" else reps + ck.n(1, 6)):
                    plan.append((qcd, pt, direction))
    for qcd, pt, direction in plan:
        js.append(("nspace", make_cfg(rng, qcd, pt, direction)))
    # x-space, low order
    # (beyond LO the x-space difference at asymptotically small couplings drops below the integration error)
    xp = [(1, "unpol", "up")] if ck.quick else [(1, "unpol", "up"), (1, "unpol", "up"), (1, "tl", "up"), (1, "pol", "up"), (1, "unpol", "up")]
    for qcd, pt, direction in xp:
        c = make_cfg(rng, qcd, pt, direction, method="truncated" if qcd > 1 else "iterate-exact", inversion="exact")
        c["xgrid"] = [float(x) for x in np.geomspace(1e-2, 1.0, 8)]
        c["degree"] = 2
        c["iters"] = 1
        c["cores"] = 4
        c["_lams"] = [0.5, 0.25, 0.125, 0.0625]
        c["_intrinsic"] = False
        js.append(("xspace", c))
    return js


def run(ck):
    js = make_jobs(ck)
    if ck.replay:
        wit = ck.replay["witness"]
        js = [(wit["kind"], wit["cfg"])]
    for (kind, cfg), st, res in jobs.pmap(job, js, timeout=ck.n(3000, 6 * 3600), item_timeout=ck.n(1500, 3600)):
        ckey = w.cfg_key(cfg)
        n = cfg["qcd"]
        if st != "ok":
            ck.case((kind, ckey), nontrivial=False)
            ck.inconclusive(f"job {st}: {str(res)[:120]}")
            continue
        if res["status"] == "refused":
            ck.case((kind, ckey), nontrivial=False)
            ck.hit("refused")
            continue
        if res["status"] == "crash":
            ck.case((kind, ckey), nontrivial=False)
            ck.inconclusive("pipeline crashed: " + res["msg"][:100])
            continue
        tag = f"{cfg['pt']}/order{n}/{cfg['_direction']}" + (f"/{cfg['inversion']}" if cfg["inversion"] else "")
        if kind == "nspace":
            ck.hit("pipeline_runs", res["nruns"])
            for rec in res["recs"]:
                sl, npts = fit(rec["pts"])
                key = (kind, ckey, tuple(rec["N"]), rec["group"])
                if sl is None:
                    ck.case(key, nontrivial=False)
                    if all(d == 0.0 for _, d in rec["pts"]):
                        ck.inconclusive("no dependence on the matching ratio at all (path does not cross the wall?)")
                    else:
                        ck.inconclusive(f"only {npts} points above the floor")
                    continue
                ck.hit("slopes_fitted")
                ck.case(key, nontrivial=True, sample=dict(space="N", order=n, pt=cfg["pt"], direction=cfg["_direction"], method=cfg["method"], hq=cfg["_hq"], ratios=[cfg["_ratios_a"][cfg["_hq"] - 4], cfg["_ratios_b"][cfg["_hq"] - 4]], N=rec["N"], group=rec["group"], slope=sl, pts=rec["pts"]))
                if sl < n - 0.3:
                    ck.violation(f"C50/nspace/{tag}/{rec['group']}", f"matching-scale dependence of the {rec['group']} channels scales like lambda^{sl:.2f} < a_s^{n} (N={rec['N']}, method {cfg['method']})", dict(kind=kind, cfg=cfg, rec=rec, slope=sl))
                else:
                    ck.ok()
        else:
            pts = sorted((l, d) for l, d, noise in res["pts"] if d > 5 * noise)[:3]
            key = (kind, ckey)
            if len(pts) < 3:
                ck.case(key, nontrivial=False)
                ck.inconclusive(f"x-space: only {len(pts)} points above 5x the integration error")
                continue
            sl = float(np.polyfit(np.log([p[0] for p in pts]), np.log([p[1] for p in pts]), 1)[0])
            ck.hit("xspace_slopes")
            ck.case(key, nontrivial=True, sample=dict(space="x", order=n, pt=cfg["pt"], direction=cfg["_direction"], slope=sl, pts=res["pts"]))
            if sl < n - 0.3:
                ck.violation(f"C50/xspace/{tag}", f"x-space matching-scale dependence scales like lambda^{sl:.2f} < a_s^{n}", dict(kind=kind, cfg=cfg, pts=res["pts"], slope=sl))
            else:
                ck.ok()
