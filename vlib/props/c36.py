"""C36: EKO archives round-trip all their content."""

import copy
import math
import pathlib
import shutil
import tempfile
import traceback

import numpy as np

from .. import jobs, scratch
from .. import workload as wl
from ..oracles import storemodel as sm

META = dict(
    level="exploration",
    design_ref="DESIGN.md §5 C36",
    technique="reference-model monitor on real archives: write through EKO.create/build/__setitem__, close, EKO.read, EKO.edit sessions; every re-read compared with an independent dict model (key set by float.hex, sha256 of array bytes, cards, metadata)",
    level_text="Randomised exploration of archive contents (0-6 evolution points, shapes up to 14x8x14x8, special float values incl. -0.0/inf/nan payloads, scales as Python float / NumPy float64 taken from the card's own grid / int / 1-ulp neighbours / equal scales with different nf, NumPy flavour numbers, with and without errors, F-ordered arrays, random cards) and of edit sessions. Each archive is really written to disk and read back by the real code.",
    level_note="Trusted base: numpy tobytes/sha256, the reference model in vlib/oracles/storemodel.py, my generators of valid runcards. Squared operator shapes only (EKO.load refuses others by design).",
    rule="case = one archive life (create, close, read, 0-2 edit sessions with re-read); distinct by the seed index; non-trivial = at least one operator stored and at least one special value, NumPy-typed key or edit session involved",
    min_nontrivial=60,
    required_hits=["archive_read_back", "arrays_compared", "cards_compared", "metadata_compared", "edit_sessions", "numpy_scalar_keys", "ulp_neighbours", "same_scale_other_nf", "special_values"],
    max_inconclusive_frac=0.05,
)

NAN_PAYLOADS = [0x7FF8000000000000, 0x7FF800000000BEEF, 0xFFF8000000000001, 0x7FF0000000000001]


def special_array(rng, shape, specials=True):
    a = rng.normal(size=shape) * 10.0 ** rng.uniform(-6, 6)
    flat = a.reshape(-1)
    nsp = 0
    if specials and flat.size:
        bits = flat.view(np.uint64)
        for _ in range(int(rng.integers(1, 8))):
            i = int(rng.integers(flat.size))
            c = int(rng.integers(8))
            if c == 0:
                flat[i] = -0.0
            elif c == 1:
                flat[i] = np.inf
            elif c == 2:
                flat[i] = -np.inf
            elif c == 3:
                bits[i] = np.uint64(NAN_PAYLOADS[int(rng.integers(len(NAN_PAYLOADS)))])
            elif c == 4:
                flat[i] = 5e-324
            elif c == 5:
                flat[i] = 1.7976931348623157e308
            elif c == 6:
                flat[i] = 0.0
            else:
                flat[i] = np.nextafter(1.0, 2.0)
            nsp += 1
    if rng.random() < 0.2 and a.ndim == 4:
        a = np.asfortranarray(a)
    return a, nsp


def random_cards(rng):
    order = [(1, 0), (2, 0), (3, 0), (4, 0), (1, 1), (2, 1), (3, 2)][int(rng.integers(7))]
    scheme = "POLE" if rng.random() < 0.7 else "MSBAR"
    masses = sorted(float(m) for m in (rng.uniform(1.2, 1.8), rng.uniform(4.0, 5.0), rng.uniform(160.0, 180.0)))
    th = wl.raw_theory(
        order=order,
        alphas=float(rng.uniform(0.1, 0.35)),
        alphaem=float(rng.uniform(0.007, 0.008)),
        ref=(float(rng.uniform(2.0, 100.0)), int(rng.integers(3, 6))),
        masses=masses,
        scheme=scheme,
        ratios=[float(r) for r in rng.uniform(0.5, 2.0, 3)],
        xif=float(rng.choice([0.5, 1.0, 2.0])),
        matching_order=[int(rng.integers(0, order[0])), 0],
        n3lo_ad_variation=[int(v) for v in rng.integers(0, 3, 7)],
        use_fhmruvv=bool(rng.integers(2)),
        em_running=bool(rng.integers(2)),
        mass_refs=masses if scheme == "MSBAR" else (math.nan, math.nan, math.nan),
    )
    nx = int(rng.integers(2, 9))
    xg = np.sort(np.exp(rng.uniform(math.log(1e-7), 0.0, nx - 1)))
    xg = np.unique(np.concatenate((xg, [1.0])))
    while len(xg) < nx:
        xg = np.unique(np.concatenate((xg, [float(rng.uniform(1e-3, 0.999))])))
    nmu = int(rng.integers(1, 6))
    mugrid = [(float(rng.uniform(1.0, 300.0)), int(rng.integers(3, 7))) for _ in range(nmu)]
    op = wl.raw_operator(
        init=(float(rng.uniform(1.0, 3.0)), int(rng.integers(3, 6))),
        mugrid=mugrid,
        xgrid=xg.tolist(),
        method=wl.METHODS[int(rng.integers(len(wl.METHODS)))],
        iterations=int(rng.integers(1, 30)),
        max_order=(int(rng.integers(1, 12)), 0),
        degree=int(rng.integers(1, len(xg))),
        is_log=bool(rng.integers(2)),
        scvar=[None, "exponentiated", "expanded"][int(rng.integers(3))],
        inversion=[None, "exact", "expanded"][int(rng.integers(3))],
        cores=int(rng.integers(1, 4)),
        polarized=bool(rng.integers(2)),
        time_like=bool(rng.integers(2)),
    )
    return th, op


def classify_exc(e, stage):
    name = type(e).__name__
    msg = str(e)
    if name == "ConstructorError" and "python/object" in msg:
        return "C36/header-yaml/numpy-scalar"
    if name == "RepresenterError":
        return "C36/header-yaml/representer"
    if "Too many items" in msg:
        return "C36/overwrite/two-array-files"
    return f"C36/{stage}/raises/{name}"


def _make_keys(rng, opc, nkeys):
    """Evolution points as the user might pass them: mixed python / numpy number types."""
    keys = []
    flags = dict(numpy=0, ulp=0, int=0, same_scale=0)
    mu2 = opc.mu2grid  # numpy array of the card's own squared scales
    evol = opc.evolgrid
    while len(keys) < nkeys:
        c = int(rng.integers(7))
        nf = int(rng.integers(3, 7))
        if c == 0:
            ep = (float(rng.uniform(1.0, 1e5)), nf)
        elif c == 1:
            i = int(rng.integers(len(mu2)))
            ep = (mu2[i], evol[i][1])  # np.float64 straight from the card
            flags["numpy"] += 1
        elif c == 2:
            ep = (int(rng.integers(2, 100000)), nf)
            flags["int"] += 1
        elif c == 3:
            ep = (float(rng.uniform(1.0, 1e5)), np.int64(nf))
            flags["numpy"] += 1
        elif c in (4, 6) and keys:
            base = keys[int(rng.integers(len(keys)))]
            s = float(base[0])
            if rng.random() < 0.5:
                ep = (float(np.nextafter(s, math.inf)), int(base[1]))
                flags["ulp"] += 1
            else:
                others = [f for f in (3, 4, 5, 6) if f != int(base[1])]
                ep = (base[0], others[int(rng.integers(3))])
                flags["same_scale"] += 1
        else:
            i = int(rng.integers(len(evol)))
            ep = (evol[i][0], evol[i][1])
        if sm.key(ep) in {sm.key(k) for k in keys}:
            continue
        keys.append(ep)
    return keys, flags


def _one(item):
    seed, idx, tier = item
    rng = np.random.default_rng([seed, 36, idx])
    rec = dict(idx=idx, hits={}, fails=[], incs=[], nontrivial=False, sample=None)
    work = scratch.mkdtemp()
    old_tmp = tempfile.tempdir
    tempfile.tempdir = work  # eko's own temporary folders end up (and die) here
    try:
        _life(rng, rec, pathlib.Path(work), seed, idx)
    except Exception as e:  # harness problem, not a verdict
        rec["incs"].append(f"harness error {type(e).__name__}: {e} {traceback.format_exc()[-400:]}")
    finally:
        tempfile.tempdir = old_tmp
        shutil.rmtree(work, ignore_errors=True)
    return rec


def _life(rng, rec, work, seed, idx):
    from eko import interpolation
    from eko.io.items import Operator
    from eko.io.struct import EKO

    def hit(name, k=1):
        rec["hits"][name] = rec["hits"].get(name, 0) + k

    def fail(key, what, **wit):
        if len(rec["fails"]) < 8:
            rec["fails"].append((key, what, dict(wit, seed=seed, idx=idx)))

    th_raw, op_raw = random_cards(rng)
    try:
        th, opc = wl.cards(th_raw, op_raw)
    except Exception as e:
        rec["incs"].append(f"generated runcard not accepted: {type(e).__name__}: {e}")
        return
    nkeys = int(rng.integers(0, 7))
    keys, flags = _make_keys(rng, opc, nkeys)
    p = int(rng.integers(1, 15))
    x = int(rng.integers(1, 9))
    shape = (p, x, p, x)
    model = sm.StoreModel()
    content = {}
    nspecial = 0
    path = work / "archive.tar"
    expected = dict(theory=copy.deepcopy(th.raw), operator=copy.deepcopy(opc.raw), origin=(float(op_raw["init"][0]) ** 2, int(op_raw["init"][1])),
                    xgrid=np.array(op_raw["xgrid"], dtype=float), xlog=bool(op_raw["configs"]["interpolation_is_log"]))
    desc = dict(shape=shape, keys=[(repr(k[0]), repr(k[1])) for k in keys], key_types=[(type(k[0]).__name__, type(k[1]).__name__) for k in keys])

    def new_operator():
        nonlocal nspecial
        a, ns = special_array(rng, shape)
        nspecial += ns
        if rng.random() < 0.5:
            e, ns2 = special_array(rng, shape)
            nspecial += ns2
        else:
            e = None
        return Operator(a, e) if e is not None else Operator(a)

    def written_meta(eko):
        # the metadata the writing session held in memory just before closing (round-trip reference)
        expected["origin"] = (float(eko.metadata.origin[0]), int(eko.metadata.origin[1]))
        expected["xgrid"] = np.array(eko.xgrid.raw, dtype=float).copy()
        expected["xlog"] = bool(eko.xgrid.log)

    # ---------------- create
    style = int(rng.integers(3))
    try:
        if style == 0:
            with EKO.create(path) as builder:
                eko = builder.load_cards(th, opc).build()
                for ep in keys:
                    o = new_operator()
                    eko[ep] = o
                    model.set(ep, o.operator, o.error)
                version = (eko.metadata.version, eko.metadata.data_version)
                written_meta(eko)
        else:
            eko = EKO.create(path).load_cards(th, opc).build()
            for ep in keys:
                o = new_operator()
                eko[ep] = o
                model.set(ep, o.operator, o.error)
                if style == 2 and rng.random() < 0.5:
                    del eko[ep]
            version = (eko.metadata.version, eko.metadata.data_version)
            written_meta(eko)
            eko.close()
        model.close()
    except Exception as e:
        fail(classify_exc(e, "create"), f"writing the archive raised {type(e).__name__}: {str(e)[:300]}", **desc)
        return
    hit("archives_written")
    if flags["numpy"]:
        hit("numpy_scalar_keys", flags["numpy"])
    if flags["ulp"]:
        hit("ulp_neighbours", flags["ulp"])
    if flags["int"]:
        hit("int_scale_keys", flags["int"])
    if flags["same_scale"]:
        hit("same_scale_other_nf", flags["same_scale"])

    def verify(stage, path=path):
        """Re-read the archive and compare everything with the model's persisted copy."""
        want = model.persisted
        try:
            with EKO.read(path) as e:
                hit("archive_read_back")
                got_keys = [sm.keyhex(ep) for ep in e]
                if len(set(got_keys)) != len(got_keys) or set(got_keys) != {sm.keyhex(k) for k in want}:
                    fail(f"C36/{stage}/key-set", f"evolution points after re-read {sorted(got_keys)} != written {sorted(sm.keyhex(k) for k in want)}", **desc)
                for k, dig in want.items():
                    try:
                        o = e[k]
                    except Exception as ex:
                        fail(classify_exc(ex, stage + "-get"), f"reading {k} raised {type(ex).__name__}: {str(ex)[:200]}", ep=k, **desc)
                        continue
                    hit("arrays_compared")
                    g = sm.vdigest(o.operator, o.error)
                    if (g[1] is None) != (dig[1] is None):
                        fail(f"C36/{stage}/error-presence", f"{k}: error array {'appeared' if dig[1] is None else 'vanished'}", ep=k, **desc)
                    elif g[0] != dig[0]:
                        fail(f"C36/{stage}/array/operator", f"{k}: operator bytes differ: {g[0]} vs written {dig[0]}", ep=k, **desc)
                    elif g[1] != dig[1]:
                        fail(f"C36/{stage}/array/error", f"{k}: error bytes differ: {g[1]} vs written {dig[1]}", ep=k, **desc)
                if rng.random() < 0.5:
                    seen = {}
                    for ep, o in e.items():
                        seen[sm.key(ep)] = sm.vdigest(o.operator, o.error)
                    hit("items_iterations")
                    if seen != want:
                        fail(f"C36/{stage}/items", "items() does not yield the written content", **desc)
                hit("cards_compared")
                if not sm.deep_equal(e.theory_card.raw, expected["theory"]):
                    fail(f"C36/{stage}/cards/theory", "theory card differs after re-read", got=e.theory_card.raw, want=expected["theory"])
                if not sm.deep_equal(e.operator_card.raw, expected["operator"]):
                    fail(f"C36/{stage}/cards/operator", "operator card differs after re-read", got=e.operator_card.raw, want=expected["operator"])
                hit("metadata_compared")
                md = e.metadata
                got_md = dict(origin=(float(md.origin[0]), int(md.origin[1])), xgrid=np.asarray(e.xgrid.raw, dtype=float).tolist(), xlog=bool(e.xgrid.log), version=(md.version, md.data_version))
                want_md = dict(origin=expected["origin"], xgrid=expected["xgrid"].tolist(), xlog=expected["xlog"], version=version)
                for field, sub in (("origin", "origin"), ("xgrid", "xgrid-values"), ("xlog", "xgrid-log-flag"), ("version", "version")):
                    if got_md[field] != want_md[field]:
                        fail(f"C36/metadata/{sub}", f"metadata.{field} after re-read ({stage}) is {got_md[field]!r}, the writing session held {want_md[field]!r}", got=got_md, want=want_md)
        except Exception as ex:
            fail(classify_exc(ex, stage), f"re-reading the archive raised {type(ex).__name__}: {str(ex)[:300]}", **desc)
            return False
        return True

    if not verify("read"):
        rec["nontrivial"] = bool(keys)
        rec["sample"] = dict(desc, stage="read failed")
        return

    # ---------------- a deep copy is another way of writing the same content
    if rng.random() < 0.25:
        copy_path = work / "copy.tar"
        try:
            with EKO.read(path) as e:
                if model.persisted and rng.random() < 0.5:
                    _ = e[list(model.persisted)[0]]
                e.deepcopy(copy_path)
            hit("deepcopies")
        except Exception as ex:
            fail(classify_exc(ex, "deepcopy"), f"deepcopy raised {type(ex).__name__}: {str(ex)[:300]}", **desc)
        else:
            verify("deepcopy", copy_path)
            verify("after-deepcopy")

    # ---------------- edit sessions
    nedit = int(rng.integers(0, 3))
    edits = []
    for _ in range(nedit):
        kind = ["noop", "add", "overwrite", "xgrid", "unload", "touch"][int(rng.integers(6))]
        if kind in ("overwrite", "unload", "touch") and not model.persisted:
            kind = "add"
        edits.append(kind)
        try:
            model.reopen(readonly=False)
            with EKO.edit(path) as e:
                if kind == "add":
                    ks, fl = _make_keys(rng, opc, 1)
                    if sm.key(ks[0]) not in model.work:
                        o = new_operator()
                        e[ks[0]] = o
                        model.set(ks[0], o.operator, o.error)
                elif kind == "overwrite":
                    k = list(model.work)[int(rng.integers(len(model.work)))]
                    had_err = model.work[k][1] is not None
                    a, _ = special_array(rng, shape)
                    o = Operator(a) if had_err or rng.random() < 0.5 else Operator(a, special_array(rng, shape)[0])
                    if rng.random() < 0.5:
                        _ = e[k]
                    e[k] = o
                    model.set(k, o.operator, o.error)
                    if rng.random() < 0.5:
                        del e[k]
                elif kind == "xgrid":
                    ng = np.unique(np.concatenate((np.exp(rng.uniform(math.log(1e-6), 0.0, int(rng.integers(1, 6)))), [1.0])))
                    lg = bool(rng.integers(2))
                    e.xgrid = interpolation.XGrid(ng, log=lg)
                    expected["xgrid"], expected["xlog"] = ng, lg
                elif kind == "unload":
                    for k in list(model.work):
                        if rng.random() < 0.6:
                            del e[k]
                elif kind == "touch":
                    for k in list(model.work):
                        if rng.random() < 0.6:
                            _ = e[k]
            model.close()
            hit("edit_sessions")
        except Exception as ex:
            fail(classify_exc(ex, f"edit-{kind}"), f"edit session ({kind}) raised {type(ex).__name__}: {str(ex)[:300]}", **desc)
            break
        if not verify(f"edit-{kind}"):
            break
    if nspecial:
        hit("special_values", nspecial)
    rec["nontrivial"] = bool(model.persisted) and bool(nspecial or flags["numpy"] or flags["ulp"] or nedit)
    rec["sample"] = dict(desc, edits=edits, special_values=nspecial, create_style=style)


def _register(ck, rec):
    ck.case(("archive", rec["idx"]), nontrivial=rec["nontrivial"], sample=rec["sample"])
    for k, v in rec["hits"].items():
        ck.hit(k, v)
    for why in rec["incs"]:
        ck.inconclusive(why)
    if rec["fails"]:
        for key, what, wit in rec["fails"]:
            ck.violation(key, what, wit)
    elif not rec["incs"]:
        ck.ok()


def run(ck):
    n = ck.n(150, 5000)
    items = [(ck.seed, i, ck.tier) for i in range(n)]
    for it, st, val in jobs.pmap(_one, items, timeout=ck.n(900, 7200)):
        if st != "ok":
            ck.case(("job", it[1]), nontrivial=False)
            ck.inconclusive(f"worker {st}: {str(val)[:200]}")
            continue
        _register(ck, val)


def replay(ck, rp):
    w = rp["witness"]
    rec = _one((int(w["seed"]), int(w["idx"]), rp.get("tier", "quick")))
    _register(ck, rec)
    ck.min_nontrivial = 0
    ck.meta = dict(ck.meta, required_hits=[])
