"""C40: runcards and DictLike structures round-trip through their raw form."""

import dataclasses
import enum
import json
import math
import os
import pathlib
import subprocess
import sys
import typing

import numpy as np
import yaml

from .. import jobs, scratch
from .. import workload as W

META = dict(
    level="exploration",
    design_ref="DESIGN.md §5 C40",
    technique="round-trip monitor obj -> .raw -> yaml.safe_dump -> yaml.safe_load -> from_dict with a field-by-field structural comparison written here; run-time generated DictLike classes; wrapper on InterpolatorDispatcher.__init__ in real tiny solves",
    level_text="Random theory/operator cards (all enum values, orders, mass schemes, log and linear grids, N3LO variations, NumPy scalars assigned at random leaves), Metadata, and randomly generated DictLike subclasses (array, tuple, enum, Optional, nested DictLike / plain dataclass, dict, XGrid, list fields; NumPy scalars of several dtypes at any depth) are round-tripped; and real LO solves with every (interpolation_is_log, degree) record the interpolator the computation builds. Sampling, not exhaustive.",
    level_note="Trusted base: PyYAML's safe dumper/loader and the comparison function in this file. Unions other than Optional, complex arrays and 0-d arrays are outside the supported field types and are not generated.",
    rule="case = one object (card with its mutation list / generated class signature with its values / solve configuration); distinct by the class signature + which leaves carry NumPy scalars; non-trivial = the object contains at least one of: NumPy scalar, array, tuple, enum, nested structure, linear grid (solve: non-default log flag or degree > 1)",
    min_nontrivial=150,
    required_hits=["raw_safe_dumped", "reloaded_compared", "interpolator_observed"],
    max_inconclusive_frac=0.05,
)
META["level_text"] += ' Generated classes contain Optional fields with a non-None default carrying explicit None values.'


# ---------------------------------------------------------------- comparison
def same(a, b, path="", allow_seq_mix=False):
    """Structural equality; returns None or the path+reason of the first difference.

    Arrays by array_equal (nan == nan), floats nan-aware, sequences element-wise
    (tuple vs list is a difference unless allow_seq_mix), XGrid by values and
    log flag, dataclasses field by field, enums by identity.
    """
    from eko.interpolation import XGrid

    if isinstance(a, XGrid) or isinstance(b, XGrid):
        if not (isinstance(a, XGrid) and isinstance(b, XGrid)):
            return f"{path}: XGrid vs {type(b).__name__}/{type(a).__name__}"
        if len(a.raw) != len(b.raw) or not np.array_equal(np.asarray(a.raw), np.asarray(b.raw)):
            return f"{path}: xgrid values differ"
        if bool(a.log) != bool(b.log):
            return f"{path}: xgrid log flag {a.log} -> {b.log}"
        return None
    if isinstance(a, np.ndarray) or isinstance(b, np.ndarray):
        if not (isinstance(a, np.ndarray) and isinstance(b, np.ndarray)):
            return f"{path}: array vs {type(b).__name__ if isinstance(a, np.ndarray) else type(a).__name__}"
        if a.shape != b.shape and not (a.size == 0 and b.size == 0):
            return f"{path}: shape {a.shape} -> {b.shape}"
        if not np.array_equal(a, b, equal_nan=(a.dtype.kind == "f" and b.dtype.kind == "f")):
            return f"{path}: array values differ"
        return None
    if isinstance(a, enum.Enum) or isinstance(b, enum.Enum):
        return None if a is b else f"{path}: enum {a!r} -> {b!r}"
    if dataclasses.is_dataclass(a) and not isinstance(a, type):
        if type(a) is not type(b):
            return f"{path}: {type(a).__name__} -> {type(b).__name__}"
        for f in dataclasses.fields(a):
            r = same(getattr(a, f.name), getattr(b, f.name), f"{path}.{f.name}", allow_seq_mix)
            if r:
                return r
        return None
    if isinstance(a, dict) or isinstance(b, dict):
        if not (isinstance(a, dict) and isinstance(b, dict)):
            return f"{path}: dict vs non-dict"
        if set(a) != set(b):
            return f"{path}: keys {sorted(map(str, a))} -> {sorted(map(str, b))}"
        for k in a:
            r = same(a[k], b[k], f"{path}[{k!r}]", allow_seq_mix=True)  # inside an untyped dict yaml turns tuples into lists
            if r:
                return r
        return None
    if isinstance(a, (list, tuple)) or isinstance(b, (list, tuple)):
        if not (isinstance(a, (list, tuple)) and isinstance(b, (list, tuple))):
            return f"{path}: sequence vs {type(b).__name__ if isinstance(a, (list, tuple)) else type(a).__name__}"
        if not allow_seq_mix and isinstance(a, tuple) != isinstance(b, tuple):
            return f"{path}: {type(a).__name__} -> {type(b).__name__}"
        if len(a) != len(b):
            return f"{path}: length {len(a)} -> {len(b)}"
        for i, (x, y) in enumerate(zip(a, b)):
            r = same(x, y, f"{path}[{i}]", allow_seq_mix)
            if r:
                return r
        return None
    if a is None or b is None:
        return None if a is b else f"{path}: {a!r} -> {b!r}"
    if isinstance(a, (bool, np.bool_)) or isinstance(b, (bool, np.bool_)):
        if not (isinstance(a, (bool, np.bool_)) and isinstance(b, (bool, np.bool_))):
            return f"{path}: bool vs {type(b).__name__}/{type(a).__name__}"
        return None if bool(a) == bool(b) else f"{path}: {a} -> {b}"
    if isinstance(a, (int, float, np.integer, np.floating)) and isinstance(b, (int, float, np.integer, np.floating)):
        fa, fb = float(a), float(b)
        if math.isnan(fa) and math.isnan(fb):
            return None
        return None if a == b else f"{path}: {a!r} -> {b!r}"
    if isinstance(a, str) and isinstance(b, str):
        return None if a == b else f"{path}: {a!r} -> {b!r}"
    return None if (type(a) is type(b) and a == b) else f"{path}: {a!r} ({type(a).__name__}) -> {b!r} ({type(b).__name__})"


def plain_violations(raw, path="raw"):
    """Leaves of a raw form that are not plain python data (bool/int/float/str/None/list/dict)."""
    bad = []
    if isinstance(raw, dict):
        for k, v in raw.items():
            if type(k) not in (str, int, float, bool):
                bad.append((f"{path}.key", type(k).__name__))
            bad += plain_violations(v, f"{path}.{k}")
    elif type(raw) is list:
        for i, v in enumerate(raw):
            bad += plain_violations(v, f"{path}[{i}]")
    elif raw is None or type(raw) in (bool, int, float, str):
        pass
    else:
        bad.append((path, type(raw).__name__))
    return bad


def leaf_class(tname):
    """Mechanism class of a non-plain leaf type."""
    if tname == "float64":
        return "numpy-float64"
    if tname.startswith(("float", "int", "uint", "bool", "longdouble", "str_")):
        return "numpy-scalar"  # only non-plain leaves get here, so "bool" is numpy's
    if tname in ("tuple", "ndarray"):
        return tname
    return "other"


def roundtrip(ck, cls, obj, mech_prefix, key, nontrivial, sample, container_of=None):
    """obj -> raw -> safe_dump -> safe_load -> cls.from_dict -> compare.

    ``container_of(path)`` maps the path of an offending raw leaf to the kind of
    container it sits in (for the mechanism key).
    """
    ck.case(key, nontrivial=nontrivial, sample=sample)
    witness = dict(sample or {}, seed=ck.seed)
    try:
        raw = obj.raw
    except Exception as e:
        ck.violation(f"{mech_prefix}/raw-raises/{type(e).__name__}", f"{cls.__name__}.raw raised {type(e).__name__}: {str(e)[:200]}", witness)
        return False
    bad = plain_violations(raw)
    try:
        text = yaml.safe_dump(raw)
        dumped = True
    except Exception as e:
        dumped = False
        text = None
        dump_exc = e
    ck.hit("raw_safe_dumped")
    if bad or not dumped:
        classes = sorted({(container_of(p) if container_of else "field") + ":" + leaf_class(t) for p, t in bad}) or ["other"]
        for c in classes:
            ck.violation(
                f"C40/raw_field/not-plain/{c}",
                f"{cls.__name__}.raw is not plain data: {bad[:4]}" + ("" if dumped else f"; yaml.safe_dump raises {type(dump_exc).__name__}: {str(dump_exc)[:120]}"),
                dict(witness, offending=bad[:10]),
            )
        return False
    if "!!python" in text or "!!binary" in text:
        ck.violation(f"{mech_prefix}/raw-python-tags", f"safe_dump text of {cls.__name__}.raw carries tags", dict(witness, text=text[:400]))
        return False
    try:
        back = yaml.safe_load(text)
        obj2 = cls.from_dict(back)
    except Exception as e:
        ck.violation(
            f"{mech_prefix}/reload-raises/{type(e).__name__}",
            f"{cls.__name__}.from_dict(safe_load(safe_dump(raw))) raised {type(e).__name__}: {str(e)[:200]}",
            dict(witness, text=text[:600]),
        )
        return False
    ck.hit("reloaded_compared")
    d = same(obj, obj2, cls.__name__)
    if d:
        where = d.split(":")[0]
        what = d.split(":", 1)[1].strip()
        if "log flag" in what:
            mk = "xgrid-log-flag"
        elif "enum" in what:
            mk = "enum"
        elif "array" in what or "shape" in what:
            mk = "array"
        elif "->" in what and ("tuple" in what or "list" in what):
            mk = "sequence-type"
        else:
            mk = "value"
        ck.violation(f"{mech_prefix}/reload-differs/{mk}", f"{cls.__name__} does not round-trip: {d}", dict(witness, difference=d, where=where, text=text[:600]))
        return False
    # second generation must be a fixed point of the raw form
    try:
        raw2 = obj2.raw
        if yaml.safe_dump(raw2) != text:
            ck.violation(f"{mech_prefix}/raw-not-idempotent", f"raw form of the reloaded {cls.__name__} differs from the raw form it was loaded from", dict(witness, first=text[:400], second=yaml.safe_dump(raw2)[:400]))
            return False
    except Exception as e:
        ck.violation(f"{mech_prefix}/raw-raises/{type(e).__name__}", f"reloaded {cls.__name__}.raw raised {e}", witness)
        return False
    ck.ok()
    return True


# --------------------------------------------------------------------- cards
NP_FLOAT = [np.float64, np.float32, np.float16]
NP_INT = [np.int64, np.int32, np.uint8, np.int16]


def npify(rng, v):
    """A NumPy scalar with exactly the value of the python scalar ``v`` (or None if impossible)."""
    if isinstance(v, bool):
        return np.bool_(v)
    if isinstance(v, int):
        t = NP_INT[int(rng.integers(len(NP_INT)))]
        try:
            if int(t(v)) == v:
                return t(v)
        except (OverflowError, ValueError):
            pass
        return np.int64(v)
    if isinstance(v, float):
        t = NP_FLOAT[int(rng.integers(len(NP_FLOAT)))]
        with np.errstate(over="ignore"):
            return t(v)  # the rounded value *is* the field value from now on
    return None


def gen_theory_raw(rng):
    order = [(1, 0), (2, 0), (3, 0), (4, 0), (1, 1), (2, 1), (3, 2), (4, 1)][int(rng.integers(8))]
    scheme = ["POLE", "MSBAR", "pole", "msbar"][int(rng.integers(4))]
    masses = sorted(float(x) for x in rng.uniform(1.0, 200.0, 3))
    refs = (math.nan,) * 3 if scheme.upper() == "POLE" and rng.random() < 0.7 else tuple(float(m * rng.uniform(0.8, 1.5)) for m in masses)
    if rng.random() < 0.1:
        masses = [0.0, math.inf, math.inf]
    th = W.raw_theory(
        order=order,
        alphas=float(rng.uniform(0.1, 0.35)),
        alphaem=float(rng.uniform(0.007, 0.008)),
        ref=(float(rng.uniform(1.0, 100.0)), int(rng.integers(3, 7))),
        masses=masses,
        scheme=scheme,
        ratios=tuple(float(x) for x in rng.uniform(0.5, 2.0, 3)),
        xif=float(rng.choice([0.5, 1.0, 2.0, rng.uniform(0.5, 2.0)])),
        matching_order=None if rng.random() < 0.3 else (int(rng.integers(0, 4)), 0),
        n3lo_ad_variation=tuple(int(x) for x in rng.integers(0, 4, 7)),
        use_fhmruvv=[True, False, None][int(rng.integers(3))],  # Optional[bool] with default True: an explicit None must survive
        em_running=bool(rng.random() < 0.5),
        mass_refs=refs,
    )
    if rng.random() < 0.3:
        del th["matching_order"]
    if rng.random() < 0.2:
        del th["use_fhmruvv"]
    return th


def gen_operator_raw(rng):
    n = int(rng.integers(2, 12))
    is_log = bool(rng.random() < 0.5)
    if rng.random() < 0.5:
        xg = np.geomspace(10 ** rng.uniform(-7, -1), 1.0, n)
    else:
        xg = np.linspace(rng.uniform(1e-3, 0.3), 1.0, n)
    nt = int(rng.integers(0, 5))
    op = W.raw_operator(
        init=(float(rng.uniform(1.0, 5.0)), int(rng.integers(3, 7))),
        mugrid=[(float(rng.uniform(1.0, 1000.0)), int(rng.integers(3, 7))) for _ in range(nt)],
        xgrid=[float(x) for x in xg],
        method=W.METHODS[int(rng.integers(len(W.METHODS)))],
        iterations=int(rng.integers(1, 40)),
        max_order=(int(rng.integers(1, 20)), int(rng.integers(0, 3))),
        degree=int(rng.integers(1, 6)),
        is_log=is_log,
        scvar=[None, "exponentiated", "expanded"][int(rng.integers(3))],
        inversion=[None, "exact", "expanded"][int(rng.integers(3))],
        cores=int(rng.integers(-2, 5)),
        polarized=bool(rng.random() < 0.3),
        time_like=bool(rng.random() < 0.3),
    )
    if rng.random() < 0.3:
        del op["configs"]["n_integration_cores"]
    if rng.random() < 0.3:
        op["eko_version"] = "0.%d.%d" % (rng.integers(10, 20), rng.integers(0, 9))
    return op


def leaves(obj, path=()):
    """Yield (path, container, key, value) for every scalar leaf reachable through fields/sequences."""
    if dataclasses.is_dataclass(obj) and not isinstance(obj, type):
        for f in dataclasses.fields(obj):
            v = getattr(obj, f.name)
            if isinstance(v, (bool, int, float)) and not isinstance(v, np.generic):
                yield path + (f.name,), obj, f.name, v
            else:
                yield from leaves(v, path + (f.name,))
    elif isinstance(obj, (list, tuple)):
        for i, v in enumerate(obj):
            if isinstance(v, (bool, int, float)) and not isinstance(v, np.generic):
                yield path + (i,), obj, i, v
            else:
                yield from leaves(v, path + (i,))
    elif isinstance(obj, dict):
        for k, v in obj.items():
            if isinstance(v, (bool, int, float)) and not isinstance(v, np.generic):
                yield path + (k,), obj, k, v
            else:
                yield from leaves(v, path + (k,))


def set_at(root, path, value):
    """Assign ``value`` at ``path`` inside nested dataclasses/lists/tuples/dicts (tuples are rebuilt)."""

    def rec(obj, p):
        k = p[0]
        if len(p) == 1:
            new = value
        else:
            child = getattr(obj, k) if dataclasses.is_dataclass(obj) else obj[k]
            new = rec(child, p[1:])
        if dataclasses.is_dataclass(obj):
            setattr(obj, k, new)
            return obj
        if isinstance(obj, tuple):
            return tuple(new if i == k else x for i, x in enumerate(obj))
        obj[k] = new
        return obj

    rec(root, list(path))


def container_kind(obj, path):
    """Kind of the innermost container holding the leaf at ``path`` ("field"/"tuple"/"list"/"dict"/"plain-dataclass")."""
    from eko.io.dictlike import DictLike

    cur = obj
    kind = "field"
    for k in path:
        if dataclasses.is_dataclass(cur) and not isinstance(cur, type):
            kind = "field" if isinstance(cur, DictLike) else "plain-dataclass"
            cur = getattr(cur, k)
        elif isinstance(cur, tuple):
            kind = "tuple"
            cur = cur[k]
        elif isinstance(cur, list):
            kind = "list" if type(cur) is list else "list-subclass"
            cur = cur[k]
        elif isinstance(cur, dict):
            kind = "dict"
            cur = cur[k]
    return kind


def mutate_with_numpy(rng, obj, pmut):
    """Replace random scalar leaves by NumPy scalars of equal value; return list of (path, dtype, container kind)."""
    done = []
    for path, _c, _k, v in list(leaves(obj)):
        if rng.random() < pmut:
            nv = npify(rng, v)
            if nv is None:
                continue
            kind = container_kind(obj, path)
            set_at(obj, path, nv)
            done.append((".".join(map(str, path)), type(nv).__name__, kind))
    return done


def raw_path_container(obj):
    """Build container_of(path) for roundtrip(): maps raw paths 'raw.a.b[0]' to the container kind in ``obj``."""
    import re

    def container_of(p):
        toks = [t for t in re.split(r"[.\[\]]", p)[1:] if t != ""]
        path = [int(t) if t.isdigit() else t for t in toks]
        if path and path[-1] == "key":
            return "dict-key"
        try:
            return container_kind(obj, path)
        except Exception:
            return "field"

    return container_of


def check_cards(ck, n):
    from eko.interpolation import XGrid
    from eko.io import runcards
    from eko.io.metadata import Metadata

    rng = ck.rng
    for i in range(n):
        which = i % 3
        pmut = [0.0, 0.15, 0.5][int(rng.integers(3))]
        try:
            if which == 0:
                raw = gen_theory_raw(rng)
                cls = runcards.TheoryCard
                obj = cls.from_dict(raw)
                extra = dict(scheme=raw["heavy"]["masses_scheme"], order=raw["order"])
            elif which == 1:
                raw = gen_operator_raw(rng)
                cls = runcards.OperatorCard
                obj = cls.from_dict(raw)
                extra = dict(is_log=raw["configs"]["interpolation_is_log"], method=raw["configs"]["evolution_method"], nx=len(raw["xgrid"]), nmu=len(raw["mugrid"]))
                if rng.random() < 0.5:
                    # a card built in python: the grid object carries the flag declared in the configs
                    obj.xgrid = XGrid(obj.xgrid.raw, log=obj.configs.interpolation_is_log)
                    extra["xgrid_log"] = bool(obj.xgrid.log)
            else:
                raw = gen_operator_raw(rng)
                cls = Metadata
                log = bool(rng.random() < 0.5)
                obj = Metadata(origin=(float(raw["init"][0]) ** 2, int(raw["init"][1])), xgrid=XGrid(raw["xgrid"], log=log))
                extra = dict(xgrid_log=log, nx=len(raw["xgrid"]))
        except Exception as e:
            ck.case(("card-build", i), nontrivial=False)
            ck.violation(f"C40/card/from_dict-raises/{type(e).__name__}", f"from_dict of a generated raw card raised {type(e).__name__}: {str(e)[:200]}", dict(raw=raw, seed=ck.seed))
            continue
        muts = mutate_with_numpy(rng, obj, pmut) if pmut else []
        lin = which in (1, 2) and not bool(obj.xgrid.log)
        key = (cls.__name__, tuple(sorted((m[0], m[1]) for m in muts)), json.dumps(extra, sort_keys=True, default=str))
        sample = dict(cls=cls.__name__, raw=raw, numpy_leaves=muts, **extra)
        roundtrip(ck, cls, obj, f"C40/{cls.__name__}", key, nontrivial=bool(muts) or lin or which == 0, sample=sample, container_of=raw_path_container(obj))


# ---------------------------------------------------------- generated classes
class Colour(enum.Enum):
    RED = "red"
    GREEN = "green-ish"
    BLUE = "b"


class Level(enum.Enum):
    LOW = 1
    MID = 5
    HIGH = 10


def _scalar(rng, kind):
    if kind == "int":
        return int(rng.integers(-1000, 1000))
    if kind == "float":
        return [float(rng.normal()), float(rng.uniform(0, 1e-8)), 1e300, -0.0, math.inf, math.nan, float(rng.integers(-5, 5))][int(rng.integers(7))]
    if kind == "bool":
        return bool(rng.random() < 0.5)
    if kind == "str":
        return ["", "s", "iterate-exact", "1.0", "yes", "null", "a: b", "ünï"][int(rng.integers(8))]
    raise KeyError(kind)


def make_field_specs():
    """Field kinds: name -> (type hint factory, value generator)."""
    import numpy.typing as npt

    from eko.interpolation import XGrid
    from eko.io.types import ReferenceRunning

    def arr(rng):
        shape = [(0,), (3,), (2, 3), (2, 2, 2), (1,)][int(rng.integers(5))]
        if rng.random() < 0.3:
            return rng.integers(-5, 5, size=shape)
        a = rng.normal(size=shape)
        if a.size and rng.random() < 0.2:
            a.flat[0] = math.nan
        return a

    def xg(rng):
        n = int(rng.integers(2, 7))
        return XGrid(np.sort(rng.uniform(1e-4, 1.0, n)), log=bool(rng.random() < 0.5))

    specs = {
        "int": (lambda: int, lambda r: _scalar(r, "int")),
        "float": (lambda: float, lambda r: _scalar(r, "float")),
        "bool": (lambda: bool, lambda r: _scalar(r, "bool")),
        "str": (lambda: str, lambda r: _scalar(r, "str")),
        "ndarray": (lambda: np.ndarray, arr),
        "NDArray": (lambda: npt.NDArray, arr),
        "NDArray_f": (lambda: npt.NDArray[np.float64], lambda r: r.normal(size=(int(r.integers(1, 4)),))),
        "tuple": (lambda: tuple, lambda r: tuple(_scalar(r, ["int", "float"][int(r.integers(2))]) for _ in range(int(r.integers(0, 4))))),
        "Tuple_ii": (lambda: typing.Tuple[int, int], lambda r: (_scalar(r, "int"), _scalar(r, "int"))),
        "Tuple_fi": (lambda: typing.Tuple[float, int], lambda r: (_scalar(r, "float"), _scalar(r, "int"))),
        "List_f": (lambda: typing.List[float], lambda r: [_scalar(r, "float") for _ in range(int(r.integers(0, 4)))]),
        "List_T": (lambda: typing.List[typing.Tuple[float, int]], lambda r: [(_scalar(r, "float"), _scalar(r, "int")) for _ in range(int(r.integers(0, 4)))]),
        "enum_s": (lambda: Colour, lambda r: list(Colour)[int(r.integers(3))]),
        "enum_i": (lambda: Level, lambda r: list(Level)[int(r.integers(3))]),
        "Opt_enum": (lambda: typing.Optional[Colour], lambda r: None if r.random() < 0.4 else list(Colour)[int(r.integers(3))]),
        "Opt_float": (lambda: typing.Optional[float], lambda r: None if r.random() < 0.4 else _scalar(r, "float")),
        "Opt_int": (lambda: typing.Optional[int], lambda r: None if r.random() < 0.4 else _scalar(r, "int")),
        "Opt_bool": (lambda: typing.Optional[bool], lambda r: None if r.random() < 0.4 else _scalar(r, "bool")),
        "dict": (lambda: dict, lambda r: {"k%d" % j: [_scalar(r, "int"), _scalar(r, "float"), _scalar(r, "str"), [_scalar(r, "int"), _scalar(r, "float")]][int(r.integers(4))] for j in range(int(r.integers(0, 4)))}),
        "XGrid": (lambda: XGrid, xg),
        "RefRun": (lambda: ReferenceRunning[float], lambda r: ReferenceRunning([_scalar(r, "float"), _scalar(r, "float")])),
        "List_Ref": (lambda: typing.List[ReferenceRunning[float]], lambda r: [ReferenceRunning([_scalar(r, "float"), _scalar(r, "float")]) for _ in range(int(r.integers(0, 3)))]),
    }
    return specs


@dataclasses.dataclass
class Plain:
    i: int
    f: float
    s: str


_class_counter = [0]


def gen_class(rng, specs, depth=0):
    """Generate a DictLike subclass and a factory for a random instance."""
    from eko.io.dictlike import DictLike

    kinds = list(specs)
    nf = int(rng.integers(1, 7))
    chosen = [kinds[int(rng.integers(len(kinds)))] for _ in range(nf)]
    fields, gens = [], {}
    for j, k in enumerate(chosen):
        name = f"f{j}_{k}"
        fields.append((name, specs[k][0]()))
        gens[name] = specs[k][1]
    sig = list(chosen)
    if depth < 2 and rng.random() < 0.5:
        sub, subgen, subsig = gen_class(rng, specs, depth + 1)
        fields.append(("nested", sub))
        gens["nested"] = subgen
        sig.append(("nested", tuple(subsig)))
    if rng.random() < 0.3:
        fields.append(("plain", Plain))
        gens["plain"] = lambda r: Plain(_scalar(r, "int"), _scalar(r, "float"), _scalar(r, "str"))
        sig.append("plain-dataclass")
    # fields with defaults go last
    if rng.random() < 0.4:
        fields.append(("dflt", int, dataclasses.field(default=7)))
        gens["dflt"] = lambda r: 7 if r.random() < 0.5 else _scalar(r, "int")
        sig.append("default")
    if rng.random() < 0.4:
        # Optional field whose default is not None: an explicit None is a value, not a missing key
        fields.append(("odflt", typing.Optional[bool], dataclasses.field(default=True)))
        gens["odflt"] = lambda r: [None, True, False][int(r.integers(3))]
        sig.append("optional-with-default")
    _class_counter[0] += 1
    cls = dataclasses.make_dataclass(f"Gen{_class_counter[0]}", fields, bases=(DictLike,))

    def instance(r):
        return cls(**{n: g(r) for n, g in gens.items()})

    return cls, instance, sig


def check_classes(ck, n):
    rng = ck.rng
    specs = make_field_specs()
    for i in range(n):
        cls, instance, sig = gen_class(rng, specs)
        obj = instance(rng)
        pmut = [0.0, 0.2, 0.6][int(rng.integers(3))]
        muts = mutate_with_numpy(rng, obj, pmut) if pmut else []
        flat = json.dumps(sig, default=str)
        nontrivial = bool(muts) or any(t in flat for t in ("ndarray", "NDArray", "uple", "enum", "nested", "XGrid", "plain", "Ref"))
        key = (flat, tuple(sorted((m[1], m[2]) for m in muts)))
        sample = dict(cls="generated DictLike", fields=sig, numpy_leaves=muts[:8], repr=repr(obj)[:300])
        # first the plain dict -> object direction: from_dict(raw-like dict of the python values)
        roundtrip(ck, cls, obj, "C40/DictLike", key, nontrivial, sample, container_of=raw_path_container(obj))


# ---------------------------------------------------- interpolator actually used
def _interp_job(spec):
    wd = pathlib.Path(spec["wd"])
    wd.mkdir(parents=True, exist_ok=True)
    (wd / "tmp").mkdir(exist_ok=True)
    sp = dict(theory=spec["theory"], operator=spec["operator"], out=str(wd / "out.tar"), record_interpolator=str(wd / "interp.json"))
    (wd / "spec.json").write_text(json.dumps(sp))
    env = dict(os.environ, TMPDIR=str(wd / "tmp"))
    try:
        p = subprocess.run([sys.executable, "-m", "vlib.drivers.solve_driver", str(wd / "spec.json")], env=env, cwd=str(wd), capture_output=True, text=True, timeout=900)
    except subprocess.TimeoutExpired:
        return dict(status="timeout")
    if p.returncode != 0 or not (wd / "interp.json").exists():
        err = (wd / "out.tar.err").read_text()[:600] if (wd / "out.tar.err").exists() else (p.stderr or "")[-600:]
        return dict(status="failed", err=err)
    out = dict(status="ok", seen=json.loads((wd / "interp.json").read_text()))
    # what the archive says about itself
    from ..oracles import archive_digest as ad

    ym = ad.yaml_members(wd / "out.tar")
    out["metadata"] = ym.get("metadata.yaml")
    out["opcard"] = ym.get("operator.yaml")
    try:
        import tempfile

        from eko.io.struct import EKO

        tempfile.tempdir = str(wd / "tmp")  # (forked worker) eko's temporary directory goes to scratch
        with EKO.read(wd / "out.tar") as e:
            out["read_xgrid_log"] = bool(e.xgrid.log)
            out["read_xgrid"] = [float(x) for x in e.xgrid.raw]
            out["read_card_is_log"] = bool(e.operator_card.configs.interpolation_is_log)
            out["read_card_xgrid_log"] = bool(e.operator_card.xgrid.log)
    except Exception as ex:
        out["read_exc"] = f"{type(ex).__name__}: {ex}"
    return out


def check_interpolator(ck, root):
    rng = ck.rng
    configs = [(lg, dg) for lg in (True, False) for dg in (1, 2, 3)]
    if ck.thorough:
        configs = configs + [(False, 1), (False, 2), (True, 3), (False, 3)]
    specs = []
    for j, (lg, dg) in enumerate(configs):
        n = int(rng.integers(dg + 2, 7))
        xg = [float(x) for x in (np.geomspace(1e-2, 1.0, n) if rng.random() < 0.5 else np.linspace(0.05, 1.0, n))]
        th = W.raw_theory(order=(1, 0))
        op = W.raw_operator(init=(1.65, 4), mugrid=((4.0, 4),) if j % 2 else ((10.0, 5),), xgrid=xg, degree=dg, is_log=lg)
        specs.append(dict(j=j, theory=th, operator=op, wd=str(root / f"interp{j}")))
    for spec, status, val in jobs.pmap(_interp_job, specs, timeout=3000):
        cfg = spec["operator"]["configs"]
        want = dict(log=cfg["interpolation_is_log"], degree=cfg["interpolation_polynomial_degree"], grid=spec["operator"]["xgrid"])
        key = ("interp", want["log"], want["degree"], len(want["grid"]))
        nontrivial = (not want["log"]) or want["degree"] > 1
        if status != "ok" or val.get("status") != "ok":
            ck.case(key, nontrivial=False)
            ck.inconclusive(f"interpolator solve {want['log']},{want['degree']}: {status} {str(val)[:300]}")
            continue
        seen = val["seen"]
        ck.case(key, nontrivial=nontrivial, sample=dict(declared=dict(want, grid=len(want["grid"])), observed=[dict(s, grid=len(s["grid"])) for s in seen[:2]], dispatchers=len(seen)))
        if not seen:
            ck.inconclusive("no InterpolatorDispatcher constructed during the solve (monitor not reached)")
            continue
        ck.hit("interpolator_observed", len(seen))
        wit = dict(theory=spec["theory"], operator=spec["operator"], observed=seen[:3], seed=ck.seed)
        bad = False
        for s in seen:
            if s["log"] != want["log"] or (s["basis_log"] and s["basis_log"][0] != want["log"]):
                ck.violation("C40/interpolator/is_log-ignored", f"card declares interpolation_is_log={want['log']} but the computation builds an interpolator with log={s['log']}", wit)
                bad = True
                break
            if s["degree"] != want["degree"]:
                ck.violation("C40/interpolator/degree", f"card declares degree {want['degree']}, computation uses {s['degree']}", wit)
                bad = True
                break
            if len(s["grid"]) != len(want["grid"]) or not np.array_equal(s["grid"], want["grid"]):
                ck.violation("C40/interpolator/grid", "computation interpolates on a grid different from the card's", wit)
                bad = True
                break
        # the archive must describe the grid that was used (metadata / card read back)
        if not bad and "read_exc" not in val:
            if val.get("read_card_is_log") != want["log"]:
                ck.violation("C40/interpolator/archived-card-is_log", f"archived operator card says is_log={val.get('read_card_is_log')}, declared {want['log']}", wit)
                bad = True
            elif val.get("read_xgrid_log") != want["log"]:
                ck.violation(
                    "C40/archive/xgrid-log-flag",
                    f"EKO computed with interpolation_is_log={want['log']} reads back with xgrid.log={val.get('read_xgrid_log')} (card xgrid.log={val.get('read_card_xgrid_log')})",
                    dict(wit, metadata=val.get("metadata")),
                )
                bad = True
        if not bad:
            ck.ok()


def run(ck):
    check_cards(ck, ck.n(450, 12000))
    check_classes(ck, ck.n(400, 12000))
    with scratch.tmpdir(prefix="c40-") as root:
        check_interpolator(ck, pathlib.Path(root))
