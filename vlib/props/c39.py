"""C39: read-only and closed EKOs never change on disk."""

import math
import pathlib
import shutil
import tempfile
import traceback

import numpy as np

from .. import jobs, scratch
from .. import workload as wl
from ..oracles import storemodel as sm

META = dict(
    level="exploration",
    design_ref="DESIGN.md §5 C39",
    technique="history monitor with file digests: random interleavings of reads and write attempts (operators, parts, new recipes, re-storing recipes already registered/read and cached, metadata, update, dump, close-again, with-blocks) on EKOs opened read-only or already closed; the outcome of every attempt (must raise an eko OutputError) and the sha256 of the archive bytes after every attempt are observed",
    level_text="Randomised exploration of sessions on real archives. Every write attempt through the EKO/Inventory API listed in DESIGN.md is exercised in three states (open read-only, closed after read-only use, closed after a writable session created by edit or by the builder) and decided individually; the archive digest is taken after each attempt, not only at the end.",
    level_note="Trusted base: sha256 of the archive file, python exception semantics. A second close()/leaving a with-block after close() may either raise or be a no-op; both are accepted as long as the archive is untouched. Direct manipulation of Metadata/AccessConfigs objects (bypassing EKO) is outside the property.",
    rule="case = one session (state, sequence of actions); distinct by seed index; non-trivial = the archive holds at least one operator and the session made at least 3 write attempts of at least 2 different kinds",
    min_nontrivial=100,
    required_hits=["write_attempts", "digest_checks", "state_readonly", "state_closed-readonly", "state_closed-writable", "close_again", "reads", "restore_cached_recipe"],
    max_inconclusive_frac=0.02,
)

SHAPE = (2, 3, 2, 3)
_cards = {}


def _get_cards():
    if "c" not in _cards:
        _cards["c"] = wl.cards(wl.raw_theory(), wl.raw_operator())
    return _cards["c"]


def _session(rng, work, seed, idx):
    from eko import interpolation
    from eko.io import exceptions
    from eko.io.items import Evolution, Matching, Operator, Target
    from eko.io.struct import EKO

    rec = dict(idx=idx, hits={}, fails=[], incs=[], nontrivial=False, sample=None)

    def hit(name, k=1):
        rec["hits"][name] = rec["hits"].get(name, 0) + k

    def fail(key, what, **wit):
        if len(rec["fails"]) < 6:
            rec["fails"].append((key, what, dict(wit, seed=seed, idx=idx)))

    def newop():
        a = rng.normal(size=SHAPE)
        return Operator(a, rng.normal(size=SHAPE)) if rng.random() < 0.5 else Operator(a)

    th, opc = _get_cards()
    path = pathlib.Path(work) / "a.tar"
    nops = int(rng.integers(0, 4))
    keys = [(float(rng.uniform(2.0, 1e4)), int(rng.integers(3, 7))) for _ in range(nops)]
    state = ["readonly", "closed-readonly", "closed-writable"][int(rng.integers(3))]
    how_closed = None
    # recipes that are legitimately registered in the archive (and, below, in the in-memory cache of the
    # session under test): storing them AGAIN on a read-only / closed EKO must raise like any other store
    evo_reg = Evolution(origin=2.0, target=float(rng.uniform(3.0, 50.0)), nf=int(rng.integers(3, 7)), cliff=bool(rng.integers(2)))
    mat_reg = Matching(scale=float(rng.uniform(3.0, 50.0)), hq=int(rng.integers(4, 7)), inverse=bool(rng.integers(2)))
    cached = dict(recipes=False)

    def read_recipes(e):
        """Legitimate read access that brings the registered recipes into the inventory cache."""
        if rng.random() < 0.5:
            e.recipes.sync()
            e.recipes_matching.sync()
        else:
            _ = e.recipes[evo_reg]
            _ = e.recipes_matching[mat_reg]
        cached["recipes"] = True

    # ---- prepare the archive (writable sessions are legitimate here)
    try:
        with EKO.create(path) as b:
            e0 = b.load_cards(th, opc).build()
            for k in keys:
                e0[k] = newop()
            e0.load_recipes([evo_reg, mat_reg])
        if state == "readonly":
            eko = EKO.read(path)
        elif state == "closed-readonly":
            eko = EKO.read(path)
            if keys and rng.random() < 0.5:
                _ = eko[keys[0]]
            if rng.random() < 0.8:
                read_recipes(eko)
            how_closed = "close" if rng.random() < 0.5 else "with"
            if how_closed == "close":
                eko.close()
            else:
                with eko:
                    pass
        else:
            r = int(rng.integers(3))
            if r == 0:
                how_closed = "edit+close"
                eko = EKO.edit(path)
                if rng.random() < 0.7:
                    k = (float(rng.uniform(2.0, 1e4)), 4)
                    eko[k] = newop()
                    keys.append(k)
                if rng.random() < 0.8:
                    if rng.random() < 0.5:
                        eko.load_recipes([evo_reg, mat_reg])  # registered while the EKO is open and writable
                        cached["recipes"] = True
                    else:
                        read_recipes(eko)
                eko.close()
            elif r == 1:
                how_closed = "edit+with"
                with EKO.edit(path) as eko:
                    if rng.random() < 0.7:
                        k = (float(rng.uniform(2.0, 1e4)), 4)
                        eko[k] = newop()
                        keys.append(k)
                    if rng.random() < 0.8:
                        if rng.random() < 0.5:
                            eko.load_recipes([evo_reg, mat_reg])
                            cached["recipes"] = True
                        else:
                            read_recipes(eko)
            else:
                how_closed = "builder"
                path = pathlib.Path(work) / "b.tar"
                with EKO.create(path) as b:
                    eko = b.load_cards(th, opc).build()
                    for k in keys:
                        eko[k] = newop()
                    eko.load_recipes([evo_reg, mat_reg])
                    cached["recipes"] = True
    except Exception as ex:
        rec["incs"].append(f"preparing the archive failed: {type(ex).__name__}: {str(ex)[:200]}")
        return rec
    hit(f"state_{state}")
    digest0 = sm.file_sha(path)
    closed = state != "readonly"
    new_ep = (float(rng.uniform(2.0, 1e4)), 5)
    evo = Evolution(origin=2.0, target=float(rng.uniform(3.0, 50.0)), nf=4, cliff=bool(rng.integers(2)))
    mat = Matching(scale=float(rng.uniform(3.0, 50.0)), hq=4, inverse=bool(rng.integers(2)))

    def w_setitem_new():
        eko[new_ep] = newop()

    def w_setitem_existing():
        eko[keys[int(rng.integers(len(keys)))] if keys else new_ep] = newop()

    def w_inventory_operators():
        eko.operators[Target.from_ep(new_ep)] = newop()

    def w_parts():
        eko.parts[evo] = newop()

    def w_parts_matching():
        eko.parts_matching[mat] = newop()

    def w_recipes():
        eko.recipes[evo] = None

    def w_recipes_matching():
        eko.recipes_matching[mat] = None

    def w_load_recipes():
        eko.load_recipes([evo, mat])

    def w_recipes_registered():
        eko.recipes[evo_reg] = None

    def w_recipes_matching_registered():
        eko.recipes_matching[mat_reg] = None

    def w_load_recipes_registered():
        eko.load_recipes([evo_reg, mat_reg] if rng.random() < 0.5 else [mat_reg, evo_reg])

    def w_xgrid():
        eko.xgrid = interpolation.XGrid([0.1, 0.5, 1.0])

    def w_update():
        eko.update()

    def w_dump():
        eko.dump()

    writes = dict(
        setitem_new=w_setitem_new, setitem_existing=w_setitem_existing, inventory_operators=w_inventory_operators,
        parts=w_parts, parts_matching=w_parts_matching, recipes=w_recipes, recipes_matching=w_recipes_matching,
        load_recipes=w_load_recipes, recipes_registered=w_recipes_registered,
        recipes_matching_registered=w_recipes_matching_registered, load_recipes_registered=w_load_recipes_registered, xgrid=w_xgrid, update=w_update, dump=w_dump,
    )

    def check_digest(after):
        hit("digest_checks")
        if not path.exists():
            fail(f"C39/{state}/{after}/archive-deleted", f"after {after} on a {state} EKO ({how_closed}) the archive no longer exists", actions=actions)
            return False
        if sm.file_sha(path) != digest0:
            fail(f"C39/{state}/{after}/archive-changed", f"after {after} on a {state} EKO ({how_closed}) the archive bytes changed", actions=actions)
            return False
        return True

    actions = []
    if state == "readonly" and rng.random() < 0.6:
        try:
            read_recipes(eko)
            actions.append("read-recipes")
        except Exception as ex:
            fail(f"C39/{state}/read/raises", f"reading the registered recipes on an open read-only EKO raised {type(ex).__name__}: {str(ex)[:200]}", actions=actions)
    kinds_done = set()
    nwrites = 0
    alive = True
    for _ in range(int(rng.integers(5, 16))):
        r = rng.random()
        if r < 0.6:
            name = list(writes)[int(rng.integers(len(writes)))]
            actions.append(name)
            hit("write_attempts")
            nwrites += 1
            kinds_done.add(name)
            if name.endswith("_registered"):
                hit("restore_cached_recipe" if cached["recipes"] else "restore_uncached_recipe")
            try:
                writes[name]()
            except exceptions.OutputError:
                pass
            except Exception as ex:
                fail(f"C39/{state}/{name}/wrong-exception", f"{name} on a {state} EKO raised {type(ex).__name__} (not an eko OutputError): {str(ex)[:200]}", actions=actions)
            else:
                fail(f"C39/{state}/{name}/accepted", f"{name} on a {state} EKO ({how_closed}) did not raise", actions=actions)
            alive = check_digest(name)
        elif r < 0.85 and not closed:
            # legitimate reads on the open read-only EKO
            actions.append("read")
            hit("reads")
            try:
                which = int(rng.integers(7))
                if which == 0 and keys:
                    _ = eko[keys[int(rng.integers(len(keys)))]]
                elif which == 1:
                    _ = list(eko), eko.mu2grid, eko.evolgrid
                elif which == 2:
                    for _ep, _o in eko.items():
                        pass
                elif which == 3:
                    _ = eko.approx((10.0, 4))
                elif which == 6:
                    read_recipes(eko)
                elif which == 4:
                    _ = eko.theory_card, eko.operator_card, eko.raw, eko.permissions
                else:
                    other = pathlib.Path(work) / f"copy{len(actions)}.tar"
                    eko.dump(other)  # explicit other target is allowed and must not touch the original
            except Exception as ex:
                fail(f"C39/{state}/read/raises", f"a read on an open read-only EKO raised {type(ex).__name__}: {str(ex)[:200]}", actions=actions)
            alive = check_digest("read")
        elif closed:
            # closing again / with-block on a closed EKO: raise or no-op, archive untouched
            how = "close-again" if rng.random() < 0.5 else "with-block-again"
            actions.append(how)
            hit("close_again")
            hit("reads")
            try:
                if how == "close-again":
                    eko.close()
                else:
                    with eko:
                        pass
            except Exception:
                pass
            alive = check_digest(how)
        if not alive:
            break
    # ---- end of session
    if not closed:
        try:
            if rng.random() < 0.5:
                eko.close()
            else:
                with eko:
                    pass
            actions.append("final-close")
        except Exception as ex:
            fail(f"C39/{state}/final-close/raises", f"closing the read-only EKO raised {type(ex).__name__}: {str(ex)[:200]}", actions=actions)
        if alive:
            check_digest("final-close")
    rec["nontrivial"] = bool(keys) and nwrites >= 3 and len(kinds_done) >= 2
    rec["sample"] = dict(state=state, how_closed=how_closed, actions=actions, operators=len(keys))
    return rec


def _one(item):
    seed, idx, tier = item
    rng = np.random.default_rng([seed, 39, idx])
    work = scratch.mkdtemp()
    old_tmp = tempfile.tempdir
    tempfile.tempdir = work
    try:
        return _session(rng, work, seed, idx)
    except Exception as e:
        return dict(idx=idx, hits={}, fails=[], incs=[f"harness error {type(e).__name__}: {e} {traceback.format_exc()[-300:]}"], nontrivial=False, sample=None)
    finally:
        tempfile.tempdir = old_tmp
        shutil.rmtree(work, ignore_errors=True)


def _register(ck, rec):
    ck.case(("session", rec["idx"]), nontrivial=rec["nontrivial"], sample=rec["sample"])
    for k, v in rec["hits"].items():
        ck.hit(k, v)
    for why in rec["incs"]:
        ck.inconclusive(why)
    if rec["fails"]:
        for key, what, wit in rec["fails"]:
            ck.violation(key, what, wit)
    elif not rec["incs"]:
        ck.ok()


def run(ck):
    n = ck.n(200, 5000)
    items = [(ck.seed, i, ck.tier) for i in range(n)]
    for it, st, val in jobs.pmap(_one, items, timeout=ck.n(900, 7200)):
        if st != "ok":
            ck.case(("job", it[1]), nontrivial=False)
            ck.inconclusive(f"worker {st}: {str(val)[:200]}")
            continue
        _register(ck, val)


def replay(ck, rp):
    w = rp["witness"]
    rec = _one((int(w["seed"]), int(w["idx"]), rp.get("tier", "quick")))
    _register(ck, rec)
    ck.min_nontrivial = 0
    ck.meta = dict(ck.meta, required_hits=[])
