"""C19: flavour-number paths through the matching scales are well formed."""

import itertools

import numpy as np

from .. import jobs
from ..oracles import atlas as ref

META = dict(
    level="exploration",
    design_ref="DESIGN.md §5 C19",
    technique="reference-model monitor: every Atlas.path / matched_path / nf_default execution is compared with a 30-line reference walker and with structural predicates (start, end, contiguity, unit steps, joints on the right wall, one matching per joint)",
    level_text="All 16 (nf0,nff) pairs x 4x4 scale regions with distinct named matching scales are enumerated completely (plus the unspecified-nf variants); on top a large random numeric workload with coincident, zero, infinite and unsorted matching scales and scales placed exactly on a wall. Held = held on the executions observed.",
    level_note="Trusted base: vlib/oracles/atlas.py (walker written from the property statement; convention: a matching scale counts as passed once it is reached, which is what the FFNS construction with walls at 0 relies on).",
    rule="case = (class of walls, nf0, nff, region of mu0, region of muf, on-wall flags); non-trivial = path has >= 2 segments or an unspecified nf had to be resolved by the default flow",
    min_nontrivial=200,
    required_hits=["path_vs_walker", "structural_predicates", "matched_path", "nf_default"],
    max_inconclusive_frac=0.0,
)
META["level_text"] += ' The origin of a live atlas is re-pointed and the same target queried again.'


class Named(float):
    """A float that carries a name: a 'symbolic' distinct matching scale.

    ``eko.matchings.Atlas`` formats its walls with ``:.2e`` on construction, so
    genuine sympy symbols cannot be used; a named float is accepted and is passed
    through the slicing untouched, so identity (not only value) can be tested.
    """

    def __new__(cls, v, name):
        o = float.__new__(cls, v)
        o.name = name
        return o

    def __repr__(self):
        return f"{self.name}"


def _num(x):
    if isinstance(x, str):
        return float(x)
    return x


def _region(mu, walls):
    return sum(1 for w in walls if w <= mu)


def _mk_atlas(case):
    from eko.matchings import Atlas
    from eko.quantities.heavy_quarks import MatchingScales

    if case.get("ffns") is not None:
        return Atlas.ffns(case["ffns"], case["origin"][0])
    return Atlas(MatchingScales(list(case["walls"])), tuple(case["origin"]))


def check_case(case):
    """Run the real code on one case; return (info, violations).

    case: dict(walls=[c,b,t], origin=(mu0,nf0|None), target=(muf,nff|None), ffns=None|nf, cls=str)
    violations: list of (key, what, observed)
    """
    from eko.matchings import Matching, Segment, nf_default

    walls = list(case["walls"])
    origin = tuple(case["origin"])
    target = tuple(case["target"])
    viol = []
    hits = dict(path_vs_walker=0, structural_predicates=0, matched_path=0, nf_default=0)
    sorted_walls = all(walls[i] <= walls[i + 1] for i in range(2))
    try:
        at = _mk_atlas(case)
    except Exception as e:
        return dict(hits=hits, nseg=0), [("C19/raises/Atlas", f"Atlas construction raised {type(e).__name__}: {e}", {})]
    # -- walls as held by the atlas must be the three given scales between 0 and inf
    if list(at.walls[1:-1]) != walls or at.walls[0] != 0 or at.walls[-1] != np.inf:
        viol.append(("C19/atlas/walls", "atlas walls differ from [0, mu_c, mu_b, mu_t, inf]", dict(walls=[float(w) for w in at.walls])))
    # -- default flow
    if sorted_walls:
        for mu in (origin[0], target[0]):
            try:
                got = nf_default(mu, at)
            except Exception as e:
                viol.append(("C19/raises/nf_default", f"nf_default raised {type(e).__name__}: {e}", dict(mu=float(mu))))
                continue
            hits["nf_default"] += 1
            want = ref.default_nf(mu, walls)
            if got != want or not isinstance(got, (int, np.integer)):
                onwall = any(mu == w for w in walls)
                viol.append(
                    (f"C19/nf_default/{'on-wall' if onwall else 'off-wall'}", f"nf_default({float(mu)}) = {got!r}, reference {want}", dict(mu=float(mu), got=repr(got), want=want))
                )
    nf0 = origin[1] if origin[1] is not None else ref.default_nf(origin[0], walls)
    nff = target[1] if target[1] is not None else ref.default_nf(target[0], walls)
    if at.origin[0] != origin[0] or at.origin[1] != nf0:
        viol.append(("C19/atlas/origin", f"normalised origin {at.origin!r}, expected ({float(origin[0])}, {nf0})", {}))
        return dict(hits=hits, nseg=0), viol
    # -- path
    try:
        path = at.path(target)
    except Exception as e:
        viol.append(("C19/raises/path", f"path raised {type(e).__name__}: {e}", {}))
        return dict(hits=hits, nseg=0), viol
    obs = [(s.origin, s.target, s.nf) for s in path]
    obs_f = [(float(a), float(b), int(n)) for a, b, n in obs]
    wsegs, wmats = ref.walk(walls, (origin[0], nf0), (target[0], nff))
    hits["path_vs_walker"] += 1
    if obs != wsegs or not all(isinstance(s, Segment) for s in path):
        d = "down" if nff < nf0 else ("up" if nff > nf0 else "flat")
        viol.append((f"C19/path/walker-mismatch/{d}", f"path {obs_f} differs from the reference walk {[(float(a), float(b), n) for a, b, n in wsegs]}", dict(observed=obs_f)))
    # -- structural predicates, independent of the walker
    hits["structural_predicates"] += 1
    step = (nff > nf0) - (nff < nf0)
    if len(path) == 0:
        viol.append(("C19/path/empty", "empty path", {}))
        return dict(hits=hits, nseg=0), viol
    if path[0].origin != origin[0] or path[0].nf != nf0:
        viol.append(("C19/path/start", f"path starts at ({float(path[0].origin)}, {path[0].nf}), not at the origin ({float(origin[0])}, {nf0})", dict(observed=obs_f)))
    if path[-1].target != target[0]:
        viol.append(("C19/path/end-scale", f"path ends at scale {float(path[-1].target)}, not {float(target[0])}", dict(observed=obs_f)))
    if path[-1].nf != nff:
        k = "default" if target[1] is None else "explicit"
        viol.append((f"C19/path/end-nf/{k}", f"path ends with nf={path[-1].nf}, target nf={nff}", dict(observed=obs_f)))
    if len(path) != abs(nff - nf0) + 1:
        viol.append(("C19/path/length", f"{len(path)} segments for |dnf|={abs(nff - nf0)}", dict(observed=obs_f)))
    for a, b in zip(path[:-1], path[1:]):
        if a.target != b.origin or (isinstance(a.target, Named) and a.target is not b.origin):
            viol.append(("C19/path/contiguity", f"segment ends at {float(a.target)} but the next starts at {float(b.origin)}", dict(observed=obs_f)))
        if b.nf - a.nf != step or step == 0:
            viol.append(("C19/path/unit-step", f"nf goes {a.nf} -> {b.nf} on a path from nf={nf0} to nf={nff}", dict(observed=obs_f)))
            continue
        hq = max(a.nf, b.nf)
        if not 4 <= hq <= 6:
            viol.append(("C19/path/nf-range", f"joint between nf={a.nf} and nf={b.nf}", dict(observed=obs_f)))
            continue
        w = walls[hq - 4]
        same = (a.target is w) if isinstance(w, Named) else (a.target == w)
        if not same:
            d = "down" if step < 0 else "up"
            viol.append((f"C19/path/joint-wall/{d}", f"joint {a.nf}->{b.nf} placed at {a.target!r}, matching scale of quark {hq} is {w!r}", dict(observed=obs_f, hq=hq)))
    # -- matched path
    try:
        mp = at.matched_path(target)
    except Exception as e:
        viol.append(("C19/raises/matched_path", f"matched_path raised {type(e).__name__}: {e}", {}))
        return dict(hits=hits, nseg=len(path)), viol
    hits["matched_path"] += 1
    segs = mp[0::2]
    mats = mp[1::2]
    okshape = len(mp) == 2 * len(path) - 1 and all(isinstance(s, Segment) for s in segs) and all(isinstance(m, Matching) for m in mats)
    if not okshape:
        viol.append(("C19/matched/shape", f"matched path is not segment, matching, segment, ...: {mp!r}"[:300], {}))
    else:
        if [(s.origin, s.target, s.nf) for s in segs] != obs:
            viol.append(("C19/matched/segments", "segments of the matched path differ from path()", dict(observed=obs_f)))
        for m, a, b, wm in zip(mats, segs[:-1], segs[1:], wmats):
            if m.hq != max(a.nf, b.nf):
                viol.append(("C19/matched/hq", f"matching between nf={a.nf} and nf={b.nf} names quark {m.hq}", dict(observed=obs_f)))
            if m.scale != a.target or m.scale != b.origin:
                viol.append(("C19/matched/scale", f"matching at {float(m.scale)} between segments joined at {float(a.target)}", dict(observed=obs_f)))
            if m.inverse is not (b.nf < a.nf) and m.inverse != (b.nf < a.nf):
                d = "down" if b.nf < a.nf else "up"
                viol.append((f"C19/matched/inverse/{d}", f"matching {a.nf}->{b.nf} flagged inverse={m.inverse}", dict(observed=obs_f)))
            if (m.scale, m.hq, bool(m.inverse)) != wm:
                viol.append(("C19/matched/walker-mismatch", f"matching {(float(m.scale), m.hq, m.inverse)} vs reference {(float(wm[0]), wm[1], wm[2])}", dict(observed=obs_f)))
    # -- the same atlas re-pointed to another initial point answers for the new origin (no state carried
    #    over from the earlier query): ask for the same target again from a new origin
    if not any(isinstance(x, Named) for x in list(walls) + [origin[0], target[0]]):
        try:
            new_origin = (float(origin[0]) * 2.0 + 1.0, nff if nff != nf0 else nf0)
            at.origin = new_origin
            back = at.path((target[0], nff))  # the SAME target as before, from the new origin
            hits["repointed_origin"] = hits.get("repointed_origin", 0) + 1
            wback, _ = ref.walk(walls, new_origin, (target[0], nff))
            if [(s.origin, s.target, s.nf) for s in back] != wback:
                viol.append(("C19/path/repointed-origin", "after re-pointing the atlas origin the path still answers for the earlier origin / differs from the reference walk", dict(observed=[(float(x.origin), float(x.target), int(x.nf)) for x in back])))
        except Exception as e:
            viol.append(("C19/raises/repointed-origin", f"path after re-pointing the origin raised {type(e).__name__}: {e}", {}))
    return dict(hits=hits, nseg=len(path)), viol


# ------------------------------------------------------------------ workloads
def symbolic_cases():
    """All (nf0,nff) x regions with distinct named walls; + unspecified-nf variants."""
    walls = [Named(2.0, "mu_c^2"), Named(20.0, "mu_b^2"), Named(3000.0, "mu_t^2")]
    reps = [0.5, 7.0, 300.0, 1e5]  # one scale per region
    for nf0, nff in itertools.product((3, 4, 5, 6), repeat=2):
        for r0, rf in itertools.product(range(4), repeat=2):
            yield dict(walls=walls, origin=(Named(reps[r0], "mu0^2"), nf0), target=(Named(reps[rf], "muf^2"), nff), ffns=None, cls="symbolic", sym=(nf0, nff, r0, rf))
    for nf0 in (3, 4, 5, 6, None):
        for r0, rf in itertools.product(range(4), repeat=2):
            yield dict(walls=walls, origin=(Named(reps[r0], "mu0^2"), nf0), target=(Named(reps[rf], "muf^2"), None), ffns=None, cls="symbolic-default", sym=(nf0, None, r0, rf))
    for nff in (3, 4, 5, 6):
        for r0, rf in itertools.product(range(4), repeat=2):
            yield dict(walls=walls, origin=(Named(reps[r0], "mu0^2"), None), target=(Named(reps[rf], "muf^2"), nff), ffns=None, cls="symbolic-default", sym=(None, nff, r0, rf))


CLASSES = ("sorted", "coincident2", "coincident3", "zero-inf", "ffns", "unsorted", "extreme")


def random_case(rng):
    cls = CLASSES[rng.integers(len(CLASSES))]
    ffns = None
    lo = lambda: float(10 ** rng.uniform(-2, 6))  # noqa: E731
    if cls == "sorted":
        walls = sorted(lo() for _ in range(3))
    elif cls == "coincident2":
        a, b = sorted((lo(), lo()))
        walls = [a, a, b] if rng.random() < 0.5 else [a, b, b]
    elif cls == "coincident3":
        a = lo()
        walls = [a, a, a]
    elif cls == "zero-inf":
        nz = int(rng.integers(0, 4))
        ni = int(rng.integers(0, 4 - nz))
        walls = [0.0] * nz + sorted(lo() for _ in range(3 - nz - ni)) + [np.inf] * ni
    elif cls == "ffns":
        ffns = int(rng.integers(3, 7))
        walls = [0.0] * (ffns - 3) + [np.inf] * (6 - ffns)
    elif cls == "unsorted":
        walls = [lo() for _ in range(3)]
    else:  # extreme magnitudes
        walls = sorted(float(10 ** rng.uniform(-300, 300)) for _ in range(3))

    def scale():
        u = rng.random()
        finite = [w for w in walls if 0 < w < np.inf]
        if u < 0.3 and finite:
            return finite[rng.integers(len(finite))]  # exactly on a wall
        if u < 0.4 and finite:
            w = finite[rng.integers(len(finite))]
            return float(np.nextafter(w, 0.0 if rng.random() < 0.5 else np.inf))  # one ulp off
        if cls == "extreme":
            return float(10 ** rng.uniform(-300, 300))
        return lo()

    mu0, muf = scale(), scale()
    if rng.random() < 0.1:
        muf = mu0
    allow_none = all(walls[i] <= walls[i + 1] for i in range(2))
    nf0 = int(rng.integers(3, 7))
    nff = int(rng.integers(3, 7))
    if ffns is not None:
        nf0 = ffns
    elif allow_none and rng.random() < 0.2:
        nf0 = None
    if allow_none and rng.random() < 0.3:
        nff = None
    return dict(walls=walls, origin=(mu0, nf0), target=(muf, nff), ffns=ffns, cls=cls)


def case_key(case):
    walls = case["walls"]
    (mu0, nf0), (muf, nff) = case["origin"], case["target"]
    return (
        case["cls"], nf0, nff, _region(mu0, walls), _region(muf, walls),
        any(mu0 == w for w in walls), any(muf == w for w in walls),
    )  # fmt: skip


def _witness(case):
    return dict(
        walls=[repr(float(w)) for w in case["walls"]],
        origin=[repr(float(case["origin"][0])), case["origin"][1]],
        target=[repr(float(case["target"][0])), case["target"][1]],
        ffns=case.get("ffns"),
        cls=case["cls"],
    )


def _from_witness(w):
    return dict(
        walls=[float(x) for x in w["walls"]],
        origin=(float(w["origin"][0]), w["origin"][1]),
        target=(float(w["target"][0]), w["target"][1]),
        ffns=w.get("ffns"),
        cls=w.get("cls", "replay"),
    )


def _batch(arg):
    """Worker: run n random cases, return aggregated observations."""
    seed, idx, n = arg
    rng = np.random.default_rng([seed, 19, idx])
    keys, hits, viols, nontrivial = set(), {}, [], set()
    held = 0
    sample = None
    for _ in range(n):
        case = random_case(rng)
        info, v = check_case(case)
        k = case_key(case)
        keys.add(k)
        if info["nseg"] >= 2 or case["target"][1] is None or case["origin"][1] is None:
            nontrivial.add(k)
        for h, c in info["hits"].items():
            hits[h] = hits.get(h, 0) + c
        if v:
            for key, what, obs in v[:3]:
                if len(viols) < 200:
                    viols.append((key, what, dict(_witness(case), **obs)))
        else:
            held += 1
        if sample is None and info["nseg"] >= 3:
            sample = dict(_witness(case), nseg=info["nseg"])
    return dict(n=n, held=held, hits=hits, viols=viols, nontrivial=sorted(nontrivial, key=repr), sample=sample)


def _record(ck, case, info, viol, key=None, force_sample=False):
    key = key or case_key(case)
    nontriv = info["nseg"] >= 2 or case["target"][1] is None or case["origin"][1] is None
    ck.case(key, nontrivial=nontriv, sample=dict(_witness(case), nseg=info["nseg"]) if info["nseg"] >= 3 or force_sample else None)
    for h, c in info["hits"].items():
        if c:
            ck.hit(h, c)
    if viol:
        for k, what, obs in viol:
            ck.violation(k, what, dict(_witness(case), seed=ck.seed, **obs))
    else:
        ck.ok()


def run(ck):
    # exhaustive "symbolic" part
    nsym = 0
    for case in symbolic_cases():
        info, viol = check_case(case)
        _record(ck, case, info, viol, key=("sym",) + tuple(case["sym"]))
        nsym += 1
    ck.note(exhaustive=True, symbolic_cases=nsym)
    # random numeric part
    total = ck.n(20000, 500000)
    chunk = 5000
    items = [(ck.seed, i, chunk) for i in range(total // chunk)]
    for it, st, val in jobs.pmap(_batch, items, timeout=ck.n(600, 3000)):
        if st != "ok":
            ck.inconclusive(f"random batch {it[1]} {st}: {str(val)[:200]}")
            ck.case(("batch", it[1]), nontrivial=False)
            continue
        ck.evaluations += val["n"]
        ck.held += val["held"]
        for k in val["nontrivial"]:
            ck.nontrivial_keys.add(tuple(k) if isinstance(k, list) else k)
        for h, c in val["hits"].items():
            ck.hit(h, c)
        if val["sample"] and len(ck.samples) < ck.max_samples:
            ck.samples.append(val["sample"])
        for key, what, wit in val["viols"]:
            ck.violation(key, what, dict(wit, seed=ck.seed))
    ck.note(random_cases=total)


def replay(ck, rep):
    """Re-run exactly the witness case (plus the cheap exhaustive part, so that a
    witness that now holds still yields a meaningful verdict)."""
    case = _from_witness(rep["witness"])
    info, viol = check_case(case)
    _record(ck, case, info, viol, force_sample=True)
    for case in symbolic_cases():
        info, viol = check_case(case)
        _record(ck, case, info, viol, key=("sym",) + tuple(case["sym"]))
