"""C28: the Python and the Rust implementation of ekore agree."""

import contextlib
import os
import subprocess

import numpy as np

from .. import scratch
from ..oracles import ekore_py as E
from ..oracles import rustbuild

META = dict(
    level="translation_validation",
    design_ref="DESIGN.md §5 C28",
    technique="differential execution of two implementations: crates/ekore (built offline from the current tree against a validated Complex<f64> shim) versus src/ekore (interpreter mode) on the same Mellin moments, entry by entry",
    level_text="Every tower function exported by the Rust crate (unpolarized space-like QCD as1..as4 with N3LO variations, QED aem1/aem2/as1aem1 grids for non-singlet/singlet/valence, polarized as1/as2, unpolarized OME as1/as2) and all 20 cached harmonic sums are evaluated by both builds on the same N (both Talbot contours, off-contour, integers), nf 3..6; agreement is demanded entry-wise at rounding level. Holds for the sampled N only.",
    level_note="Trusted base: rustc; the num shim (validated in the same run against mpmath on random operands, failure => inconclusive); the hex-float line protocol; for the entries that use g3(N+2) the adjudicating build is src/ekore with g3(N+2) taken from the exact recurrence g3(N+1)+g3(N)=(zeta2-S1/N)/N.",
    rule="case = (function, N, nf, order, variation, L); distinct by these values; non-trivial = both implementations returned and the compared block has a non-zero entry (zero-padded slots beyond the requested order are compared too but do not count)",
    min_nontrivial=1500,
    required_hits=["py_vs_rust_entries_compared", "shim_ops_validated"],
    max_inconclusive_frac=0.02,
)

TOL = 1e-11  # relative, entry-wise (floored at FLOOR x the largest entry of the same order block)
FLOOR = 1e-4
G3_TOL = 1e-4  # documented accuracy class of the g3 parametrisation, for Re N >= 0.5
ULP = 2.0**-52

NS_MODES = (10101, 10201, 10200)
NS_QED_MODES = (10102, 10103, 10202, 10203)
S_NAMES = (("qq", "qg"), ("gq", "gg"))
QED_S = ("g", "ph", "S", "Sdelta")
OME_S = ("g", "q", "H")


# ----------------------------------------------------------------- rust side
class Harness:
    def __init__(self, binary):
        self.binary = str(binary)

    def ask(self, lines, timeout=900):
        p = subprocess.run([self.binary], input="\n".join(lines) + "\n", capture_output=True, text=True, timeout=timeout)
        out = p.stdout.strip().split("\n") if p.stdout.strip() else []
        if p.returncode != 0 or len(out) != len(lines):
            raise RuntimeError(f"harness returned {len(out)} replies for {len(lines)} requests (rc={p.returncode}): {p.stderr[-300:]}")
        res = []
        for o in out:
            tok = o.split()
            if tok[0] == "OK":
                v = np.array([E.unhex(x) for x in tok[1:]])
                res.append(("ok", v[0::2] + 1j * v[1::2]))
            else:
                res.append((tok[0].lower(), " ".join(tok[1:])[:200]))
        return res


# ------------------------------------------------------------ shim validation
def validate_shim(ck, h, n_ops):
    """Complex<f64> shim versus mpmath (40 digits) on random operands. Returns list of failures."""
    import mpmath as mp

    mp.mp.dps = 40
    rng = ck.rng
    ops = ["add", "sub", "mul", "div", "neg", "addf", "subf", "mulf", "divf", "fadd", "fsub", "fmul", "fdiv", "powu", "powi", "powtrait", "numpow", "ln", "exp", "inv", "conj", "norm", "arg", "sqrt", "powf", "powc", "addassign", "mulassign", "fpow"]
    reqs, meta = [], []
    for i in range(n_ops):
        op = ops[i % len(ops)]
        mag = 10 ** rng.uniform(-2, 2)
        a = complex(rng.normal(), rng.normal()) * mag
        b = complex(rng.normal(), rng.normal()) * 10 ** rng.uniform(-2, 2)
        if i % 17 == 0:
            a = complex(a.real, 0.0)  # real axis (integer moments)
        k = int(rng.integers(0, 13)) if op != "powi" else int(rng.integers(-8, 9))
        if op in ("powf", "powc", "fpow"):
            b = complex(rng.uniform(-3, 3), rng.uniform(-1, 1))
        reqs.append(f"shim {op} {E.hexf(a.real)} {E.hexf(a.imag)} {E.hexf(b.real)} {E.hexf(b.imag)} {k}")
        meta.append((op, a, b, k))
    res = h.ask(reqs)
    fails = []
    for (op, a, b, k), (st, val) in zip(meta, res):
        if st != "ok":
            fails.append((op, f"{st} {val}"))
            continue
        z = val[0]
        A, B = mp.mpc(a.real, a.imag), mp.mpc(b.real, b.imag)
        br = mp.mpf(b.real)
        ulps = 3.0
        if op == "add":
            ref = A + B
        elif op == "sub":
            ref = A - B
        elif op == "mul":
            ref = A * B
        elif op == "div":
            ref, ulps = A / B, 6.0
        elif op == "neg":
            ref = -A
        elif op == "addf":
            ref = A + br
        elif op == "subf":
            ref = A - br
        elif op == "mulf":
            ref = A * br
        elif op == "divf":
            ref = A / br
        elif op == "fadd":
            ref = br + A
        elif op == "fsub":
            ref = br - A
        elif op == "fmul":
            ref = br * A
        elif op == "fdiv":
            ref, ulps = br / A, 6.0
        elif op in ("powu", "powtrait", "numpow"):
            ref, ulps = A**k, 4.0 + 3.0 * k
        elif op == "powi":
            ref, ulps = A**k, 8.0 + 3.0 * abs(k)
        elif op == "ln":
            ref = mp.log(A)
            ulps = 4.0 * max(1.0, 1.0 / float(abs(ref)))
        elif op == "exp":
            ref, ulps = mp.exp(A), 4.0 + 2.0 * abs(a)
        elif op == "inv":
            ref, ulps = 1 / A, 5.0
        elif op == "conj":
            ref = mp.conj(A)
        elif op == "norm":
            ref = mp.mpc(abs(A), A.real**2 + A.imag**2)
        elif op == "arg":
            ref = mp.mpc(mp.arg(A), 0)
        elif op == "sqrt":
            ref, ulps = mp.sqrt(A), 6.0
        elif op == "powf":
            ref = A**br
            ulps = 8.0 + 4.0 * abs(float(br)) * (abs(float(mp.log(abs(A)))) + 4.0)
        elif op == "powc":
            ref = A**B
            ulps = 16.0 + 8.0 * abs(b) * (abs(float(mp.log(abs(A)))) + 4.0)
        elif op == "addassign":
            ref, ulps = A + B - br, 6.0
        elif op == "mulassign":
            ref, ulps = A * B / br, 8.0
        elif op == "fpow":
            ref = mp.mpc(mp.mpf(a.real) ** k, abs(mp.mpf(a.real)) ** br)
            ulps = 8.0 + 2.0 * k + 8.0 * abs(float(br)) * (abs(float(mp.log(abs(mp.mpf(a.real))))) + 1.0)
        else:
            continue
        ck.hit("shim_ops_validated")
        if op in ("norm", "fpow"):
            # two independent real results packed in one complex: check each component
            errs = [abs(mp.mpf(z.real) - ref.real) / max(abs(ref.real), mp.mpf(10) ** -300), abs(mp.mpf(z.imag) - ref.imag) / max(abs(ref.imag), mp.mpf(10) ** -300)]
            err = float(max(errs))
        else:
            den = abs(ref)
            if op in ("add", "sub", "addf", "subf", "fadd", "fsub", "addassign"):
                den = max(den, abs(A), abs(B))  # sums are exact to an ulp of the operands, not of a cancelled result
            err = float(abs(mp.mpc(z.real, z.imag) - ref) / max(den, mp.mpf(10) ** -300))
        if not (err <= ulps * ULP):
            fails.append((op, f"a={a} b={b} k={k}: shim {z} vs {complex(ref)} rel err {err:.2e} > {ulps:.0f} ulp"))
    return fails


# ----------------------------------------------------------------- workloads
def sample_points(ck, n):
    from eko import mellin

    rng = ck.rng
    pts = []
    for i in range(n):
        kind = ("talbot-singlet", "talbot-ns", "off-contour", "talbot-singlet", "talbot-ns", "integer", "off-contour-far")[i % 7]
        if i % 28 == 27:
            kind = "near-one"  # zeros of the non-singlet sector / pole of the singlet one: worst conditioning
        if kind.startswith("talbot"):
            o = 1.0 if kind.endswith("singlet") else 0.0
            logx = float(np.log(10 ** rng.uniform(-7, -0.02)))
            t = float(rng.uniform(0.5, 0.99))  # the integration runs over t in [0.5, 1-eps]
            r = 0.4 * 16.0 / (0.1 - logx)
            N = complex(mellin.Talbot_path(t, r, o))
        elif kind == "integer":
            N = complex(float(rng.integers(2, 30)), 0.0)
        elif kind == "near-one" and (i // 28) % 2:
            # edge of the removable-singularity patch of gamma_nsv^(2) (|N-1| < 1e-5, |Im N| < 1e-5)
            # half of the probes between the disc and its bounding square, half well inside the disc
            if (i // 56) % 2:
                x, y = rng.uniform(0.75, 0.99), rng.uniform(0.70, 0.99)
            else:
                x, y = rng.uniform(0.1, 0.6), rng.uniform(0.1, 0.6)
            N = 1.0 + 1e-5 * complex(x if rng.integers(0, 2) else -x, y if rng.integers(0, 2) else -y)
        elif kind == "near-one":
            N = 1.0 + complex(rng.normal(), rng.normal()) * 10 ** rng.uniform(-6, -1)
        elif kind == "off-contour":
            N = complex(rng.uniform(1.1, 10.0), rng.uniform(-10.0, 10.0))
        else:
            N = complex(rng.uniform(0.3, 60.0), rng.uniform(-60.0, 60.0))
        pts.append((kind, N))
    return pts


def build_requests(ck, pts):
    """-> list of dict(line, py, fn, args, g3)   (py: callable returning the Rust-shaped array)"""
    rng = ck.rng
    H = E.hexf
    reqs = []

    def add(fn, line, py, args, g3=False):
        # py takes N as its (defaulted) first argument, so the same closure serves the sensitivity probe
        reqs.append(dict(fn=fn, line=line, py=py, pyN=lambda n, py=py: py(N=n), args=args, g3=g3))

    for i, (kind, N) in enumerate(pts):
        nh = f"{H(N.real)} {H(N.imag)}"
        nf = int(3 + (i + i // 7) % 4)
        L = 0.0 if i % 11 == 0 else float(rng.uniform(-3.0, 3.0))
        base = dict(kind=kind, N=[N.real, N.imag], nf=nf)
        add("harm", f"harm {nh}", lambda N=N: E.py_harm(N), dict(base))
        add("harmshared", f"harmshared {nh}", lambda N=N: E.py_harm_shared(N), dict(base))
        vns = tuple(int(x) for x in rng.integers(0, 3, size=3))
        vs = tuple(int(x) for x in rng.integers(0, 3, size=4))
        if i % 3 == 0:
            vns, vs = (0, 0, 0), (0, 0, 0, 0)
        # a lower order once in a while: checks the fill/zero-padding logic of the towers
        k = 4 if i % 5 else int(rng.integers(1, 4))
        for mode in NS_MODES:
            add("ns", f"ns {k} {mode} {nh} {nf} {vns[0]} {vns[1]} {vns[2]}", lambda N=N, nf=nf, mode=mode, k=k, vns=vns: E.py_ns(k, mode, N, nf, vns), dict(base, order=k, mode=mode, var=vns))
            kp = 2 if i % 4 else 1
            add("polns", f"polns {kp} {mode} {nh} {nf}", lambda N=N, nf=nf, mode=mode, kp=kp: E.py_polns(kp, mode, N, nf), dict(base, order=kp, mode=mode))
        add("s", f"s {k} {nh} {nf} {vs[0]} {vs[1]} {vs[2]} {vs[3]}", lambda N=N, nf=nf, k=k, vs=vs: E.py_s(k, N, nf, vs), dict(base, order=k, var=vs))
        kp = 2 if i % 4 else 1
        add("pols", f"pols {kp} {nh} {nf}", lambda N=N, nf=nf, kp=kp: E.py_pols(kp, N, nf), dict(base, order=kp))
        oq, oe = int(1 + (i // 2) % 4), int(1 + i % 2)
        for mode in NS_QED_MODES:
            add("nsqed", f"nsqed {oq} {oe} {mode} {nh} {nf} {vns[0]} {vns[1]} {vns[2]}", lambda N=N, nf=nf, mode=mode, oq=oq, oe=oe, vns=vns: E.py_nsqed(oq, oe, mode, N, nf, vns), dict(base, order=[oq, oe], mode=mode, var=vns), g3=True)
        v7 = vs + vns
        add("sqed", f"sqed {oq} {oe} {nh} {nf} " + " ".join(str(x) for x in v7), lambda N=N, nf=nf, oq=oq, oe=oe, v7=v7: E.py_sqed(oq, oe, N, nf, v7), dict(base, order=[oq, oe], var=v7), g3=True)
        add("vqed", f"vqed {oq} {oe} {nh} {nf} {vns[0]} {vns[1]} {vns[2]}", lambda N=N, nf=nf, oq=oq, oe=oe, vns=vns: E.py_vqed(oq, oe, N, nf, vns), dict(base, order=[oq, oe], var=vns), g3=True)
        ko = 2 if i % 3 else 1
        add("omes", f"omes {ko} {nh} {nf} {H(L)}", lambda N=N, nf=nf, ko=ko, L=L: E.py_omes(ko, N, nf, L), dict(base, order=ko, L=L))
        add("omens", f"omens {ko} {nh} {nf} {H(L)}", lambda N=N, nf=nf, ko=ko, L=L: E.py_omens(ko, N, nf, L), dict(base, order=ko, L=L))
    return reqs


def slot_name(fn, idx):
    """Mechanism name of one entry of a tower."""
    if fn in ("harm", "harmshared"):
        return E.HARM[idx[0]][0]
    if fn in ("ns", "polns"):
        return f"as{idx[0] + 1}"
    if fn in ("s", "pols"):
        return f"as{idx[0] + 1}/{S_NAMES[idx[1]][idx[2]]}"
    if fn == "nsqed":
        return f"as{idx[0]}aem{idx[1]}"
    if fn == "sqed":
        return f"as{idx[0]}aem{idx[1]}/{QED_S[idx[2]]}{QED_S[idx[3]]}"
    if fn == "vqed":
        return f"as{idx[0]}aem{idx[1]}/{idx[2]}{idx[3]}"
    if fn == "omes":
        return f"as{idx[0] + 1}/{OME_S[idx[1]]}{OME_S[idx[2]]}"
    if fn == "omens":
        return f"as{idx[0] + 1}/{idx[1]}{idx[2]}"
    return str(idx)


def block_scale(fn, py):
    """Largest |entry| of the same order block, broadcast to the entry shape."""
    a = np.abs(py)
    if fn in ("harm", "harmshared", "ns", "polns"):
        return a  # scalars per slot: purely relative
    if fn == "nsqed":
        return a
    if fn in ("s", "pols", "omes", "omens"):
        m = a.reshape(a.shape[0], -1).max(axis=1)
        return np.broadcast_to(m[:, None, None], a.shape)
    m = a.reshape(a.shape[0], a.shape[1], -1).max(axis=2)  # sqed, vqed
    return np.broadcast_to(m[:, :, None, None], a.shape)


def is_g3_slot(fn, idx):
    """Entries whose Python value contains the parametrised g3 at the shifted argument N+2."""
    return fn in ("nsqed", "sqed", "vqed") and (idx[0], idx[1]) in ((1, 1), (0, 2))


def sigma_delta_variation_mismatch(r, rust_value):
    """True iff the as^4 Sigma_Delta entry of the singlet-QED grid differs *only* because Python takes the
    qq variation (n3lo_ad_variation[3]) and Rust the ns+ one ([4]): the variations differ and the Rust value
    equals, at rounding level, the Python non-singlet-plus anomalous dimension with the ns+ variation."""
    var = r["args"].get("var")
    if not var or len(var) != 7 or var[3] == var[4]:
        return False
    N = complex(*r["args"]["N"])
    try:
        ref = E.py_ns(4, 10101, N, r["args"]["nf"], tuple(var[4:7]))[3]
    except Exception:
        return False
    return abs(ref - rust_value) <= TOL * max(abs(ref), abs(rust_value))


SENS_FACTOR = 8.0
SENS_ULPS = 32.0  # perturbations must move intermediates like 1+(N-1)/2 by several ulps, or cancellations stay invisible


def rounding_sensitivity(r, exact_g3):
    """max |f(N') - f(N)| over four N' within SENS_ULPS ulp of N, per entry (python build)."""
    line = r["line"].split()
    fn = r["fn"]
    pos = {"harm": 1, "harmshared": 1, "ns": 3, "polns": 3, "s": 2, "pols": 2, "nsqed": 4, "sqed": 3, "vqed": 3, "omes": 2, "omens": 2}[fn]
    N = complex(E.unhex(line[pos]), E.unhex(line[pos + 1]))
    rng = np.random.default_rng(7)
    ctx = E.exact_g3_shift() if exact_g3 else contextlib.nullcontext()
    try:
        with ctx:
            base = r["pyN"](N)
            out = np.zeros(base.shape)
            for _ in range(4):
                Np = complex(N.real * (1 + SENS_ULPS * ULP * rng.choice([-1, 1]) * rng.uniform(0.5, 1)), N.imag * (1 + SENS_ULPS * ULP * rng.choice([-1, 1]) * rng.uniform(0.5, 1)))
                out = np.maximum(out, np.abs(r["pyN"](Np) - base))
        return out
    except Exception:
        return None


def run(ck):
    if not rustbuild.cargo_available():
        ck.inconclusive("cargo/rustc not installed: the Rust side cannot be executed")
        return
    npts = ck.n(200, 5000)
    with scratch.tmpdir("eko-verif-c28-") as tmp:
        try:
            binary, _log = rustbuild.build_ekore_harness(tmp, jobs=int(os.environ.get("VERIF_COMPILE_WORKERS", 8)))
        except rustbuild.BuildFailed as e:
            # the crate must build from the current sources; a shim gap and a source error look alike here,
            # so this is reported as inconclusive together with the compiler output
            ck.inconclusive(f"cargo build of crates/ekore failed: {e}: {e.log[-600:]}")
            return
        h = Harness(binary)
        fails = validate_shim(ck, h, ck.n(3000, 12000))
        if fails:
            ck.inconclusive(f"num shim disagrees with mpmath ({len(fails)} operations), e.g. {fails[0]}")
            return
        pts = sample_points(ck, npts)
        reqs = build_requests(ck, pts)
        replies = h.ask([r["line"] for r in reqs])
    # ---- Python side: as shipped, and (QED grids only) with the exact g3 recurrence
    n_dis = 0
    fn_seen = set()
    worst = {}
    g3_obs = []
    reported = set()
    for r, (rst, rval) in zip(reqs, replies):
        fn = r["fn"]
        key = (fn, tuple(r["args"]["N"]), r["args"]["nf"], str(r["args"].get("order")), str(r["args"].get("mode")), str(r["args"].get("var")), r["args"].get("L"))
        try:
            py = r["py"]()
            pst = "ok"
        except (NotImplementedError, ValueError, ZeroDivisionError) as e:
            py, pst = None, type(e).__name__
        wit = dict(function=fn, request=r["line"], args=r["args"], seed=ck.seed, tier=ck.tier)
        if rst != "ok" or pst != "ok":
            ck.case(key, nontrivial=False)
            if rst != "ok" and pst != "ok":
                ck.hit("both_refuse")  # e.g. N3LO singlet at nf=6: implemented in neither
                ck.ok()
            else:
                n_dis += 1
                k = f"C28/{fn}/domain-differs"
                if k not in reported:
                    reported.add(k)
                    ck.violation(k, f"{fn}: python {pst} vs rust {rst} {rval if rst != 'ok' else ''}", dict(wit, python=pst, rust=rst))
            continue
        rs = rval.reshape(py.shape)
        fn_seen.add(fn)
        nz = bool(np.any(py != 0) or np.any(rs != 0))
        sample = None
        if len(ck.samples) < ck.max_samples and ck.evaluations % 997 == 3:
            sample = dict(wit, python=py.ravel()[:4], rust=rs.ravel()[:4])
        ck.case(key, nontrivial=nz, sample=sample)
        d = np.abs(py - rs)
        sc = np.maximum(np.maximum(np.abs(py), np.abs(rs)), FLOOR * block_scale(fn, py))
        bad = d > TOL * sc
        ck.hit("py_vs_rust_entries_compared", int(py.size))
        with np.errstate(divide="ignore", invalid="ignore"):
            rel = np.where(sc > 0, d / np.where(sc > 0, sc, 1.0), 0.0)
        good = ~bad
        if good.any():
            worst[fn] = max(worst.get(fn, 0.0), float(rel[good].max()))
        if not bad.any():
            ck.ok()
            continue
        # ---- adjudicate the strict-level disagreements
        pyx = None
        if r["g3"]:
            with E.exact_g3_shift():
                pyx = r["py"]()
        case_ok = True
        sens = None
        for idx in zip(*np.nonzero(bad)):
            n_dis += 1
            slot = slot_name(fn, idx)
            if pyx is not None and is_g3_slot(fn, idx):
                # documented approximation: python evaluates the g3 parametrisation at N+2, rust shifts g3(N) exactly
                dx = abs(pyx[idx] - rs[idx])
                ck.hit("g3_shift_entries_adjudicated")
                if dx <= TOL * sc[idx]:
                    reN = r["args"]["N"][0]
                    # accuracy of the parametrisation is absolute (|delta g3| ~ 1e-6 times a coefficient of
                    # O(32 CF)), so near a zero of the entry it is referred to the natural size 1
                    relg = float(d[idx] / max(sc[idx], 1.0))
                    g3_obs.append((reN, relg))
                    if reN >= 0.5 and relg > G3_TOL:
                        case_ok = False
                        k = f"C28/{fn}/{slot}/g3-approximation-accuracy"
                        if k not in reported:
                            reported.add(k)
                            ck.violation(k, f"{fn}[{slot}]: python (g3 parametrised at N+2) and rust (exact shift) differ by {relg:.2e} (relative to max(|entry|,1)) at Re N >= 0.5, beyond the parametrisation accuracy {G3_TOL}", dict(wit, entry=slot, python=py[idx], rust=rs[idx], python_exact_shift=pyx[idx]))
                    continue
                d_use, p_use = dx, pyx[idx]
            else:
                d_use, p_use = d[idx], py[idx]
            # rounding-level conditioning of this very evaluation (zeros of the non-singlet sector at N=1,
            # poles): response of the Python value to 32-ulp perturbations of N
            if sens is None:
                sens = rounding_sensitivity(r, pyx is not None)
            if sens is not None and d_use <= TOL * sc[idx] + SENS_FACTOR * sens[idx]:
                ck.hit("ill_conditioned_entries_adjudicated")
                continue
            case_ok = False
            k = f"C28/{fn}/{slot}"
            if fn == "sqed" and tuple(idx) == (4, 0, 3, 3) and sigma_delta_variation_mismatch(r, rs[idx]):
                # narrow known mechanism: which n3lo_ad_variation entry drives the Sigma_Delta element
                k += "/qq-vs-nsp-variation"
            if k not in reported:
                reported.add(k)
                ck.violation(
                    k,
                    f"{fn}[{slot}]: python {p_use} vs rust {rs[idx]} (|diff| {d_use:.3e}, rel {d_use / sc[idx]:.2e})",
                    dict(wit, entry=slot, index=list(idx), python=p_use, rust=rs[idx], rel=float(d_use / sc[idx])),
                )
        if case_ok:
            ck.ok()
    g3_right = [g for re_, g in g3_obs if re_ >= 0.5]
    ck.note(
        programs=2 * len(fn_seen),
        disagreements_checked=n_dis,
        functions_compared=sorted(fn_seen),
        points=len(pts),
        worst_relative_difference={k: float(f"{v:.2e}") for k, v in sorted(worst.items())},
        g3_shift_entries=dict(adjudicated=len(g3_obs), max_rel_ReN_ge_0p5=float(max(g3_right, default=0.0)), max_rel_any=float(max([g for _, g in g3_obs], default=0.0))),
        tolerance=TOL,
    )
