"""C44: products of EKOs compose in evolution order, with the solver's first-order error rule."""

import pathlib
import shutil
import warnings

import numpy as np

from .. import jobs, scratch
from .. import workload as wl
from ..oracles import synth_f

META = dict(
    level="exploration",
    design_ref="DESIGN.md §5 C44",
    technique="reference-model monitor on ekobox.utils.ekos_product: two synthetic archives with random non-commuting operators and signed errors are multiplied by the real function (to a new path and in place) and every resulting tensor is compared with the harness' einsum fin·ini and |fin|·|ini_err|+|fin_err|·|ini|",
    level_text="Randomised exploration: 1-3 targets per archive, junction point exact / within / outside the tolerance (default and user-given rtol), nf mismatch, missing errors on either side, read-only and writable operands, results re-read from disk. Holds on the executions observed only.",
    level_note="Trusted base: numpy einsum in the harness; the error rule is the one documented in eko.runner.operators._dotop (both errors present, else None). Targets of the second archive that already exist in the first are built consistently (ini[t] = fin[t]·ini[junction]) so that keeping or recomputing them both satisfy the property; their errors are not judged.",
    rule="case = (path mode, junction variant, error pattern, n targets, nx, index); non-trivial = the two operators do not commute (relative commutator > 0.1) and the product has at least one new target",
    min_nontrivial=40,
    required_hits=["product_operator", "product_error", "inplace_vs_copy", "junction_within", "junction_outside", "persisted", "operands_untouched"],
    max_inconclusive_frac=0.05,
)
META["level_text"] += " Error patterns include 'every other target of the second archive'; targets at the scale of a point of the first archive with another nf are included."

TOL = 1e-12


def _read_all(path):
    from eko.io.struct import EKO

    out = {}
    with EKO.read(pathlib.Path(path)) as e:
        mu20 = float(e.mu20)
        for ep, o in e.items():
            out[(float(ep[0]), int(ep[1]))] = (np.array(o.operator), None if o.error is None else np.array(o.error))
    return mu20, out


def _snapshot(eko):
    out = {}
    for ep, o in eko.items():
        out[(float(ep[0]), int(ep[1]))] = (np.array(o.operator), None if o.error is None else np.array(o.error))
    return out


def _same(a, b):
    if set(a) != set(b):
        return False
    for k in a:
        if not np.array_equal(a[k][0], b[k][0]):
            return False
        if (a[k][1] is None) != (b[k][1] is None):
            return False
        if a[k][1] is not None and not np.array_equal(a[k][1], b[k][1]):
            return False
    return True


def _case(arg):
    seed, i = arg
    rng = np.random.default_rng([seed, 44, i])
    from eko.io.struct import EKO
    from ekobox import utils

    out = dict(hits={}, viol=[], inc=[], ok=0)
    junction = ["exact", "within", "outside", "exact", "within-user-rtol", "nf-mismatch", "exact", "outside-user-rtol"][i % 8]
    errpat = ["both", "fin-mixed", "none", "ini-only", "fin-only", "both", "fin-mixed"][(i // 8) % 7]  # independent of the junction variant
    nx = int(rng.integers(2, 6))
    xg = synth_f.make_xgrid(rng, nx, True)
    mu0 = float(rng.uniform(1.0, 2.0))
    mu1 = float(rng.uniform(3.0, 30.0))
    nf1 = int(rng.integers(3, 7))
    # initial archive: junction + 0..2 other targets (other scales well separated from the junction)
    n_ini_extra = int(rng.integers(0, 3))
    ini_mugrid = [(mu1, nf1)] + [(float(mu1 * rng.uniform(1.3, 3.0) ** (k + 1)), int(rng.integers(3, 7))) for k in range(n_ini_extra)]
    rng.shuffle(ini_mugrid)
    n_fin = int(rng.integers(1, 4))
    fin_mugrid = [(float(mu1 * rng.uniform(3.5, 6.0) * (k + 1) ** 2), int(rng.integers(3, 7))) for k in range(n_fin)]
    overlap = None
    if n_ini_extra > 0 and rng.random() < 0.4:  # a target of the second that already exists in the first
        overlap = [ep for ep in ini_mugrid if ep != (mu1, nf1)][0]
        fin_mugrid.append(overlap)
    twin = None
    if n_ini_extra > 0 and rng.random() < 0.35:
        # a target of the second at the *scale* of a point the first already holds, but with another nf: a new target
        base = [ep for ep in ini_mugrid if ep != (mu1, nf1)][-1]
        twin = (base[0], base[1] + 1 if base[1] < 6 else base[1] - 1)
        if twin not in ini_mugrid and twin not in fin_mugrid:
            fin_mugrid.append(twin)
        else:
            twin = None
    rng.shuffle(fin_mugrid)
    delta = 0.0
    kwargs = {}
    expect_error = False
    nf_init = nf1
    if junction == "within":
        delta = float(rng.choice([-1, 1]) * np.exp(rng.uniform(np.log(1e-8), np.log(9e-7))))
    elif junction == "outside":
        delta = float(rng.choice([-1, 1]) * np.exp(rng.uniform(np.log(1.2e-6), np.log(1e-3))))
        expect_error = True
    elif junction == "within-user-rtol":
        kwargs = dict(rtol=1e-3)
        delta = float(rng.choice([-1, 1]) * np.exp(rng.uniform(np.log(2e-6), np.log(9e-4))))
    elif junction == "outside-user-rtol":
        kwargs = dict(rtol=1e-9, atol=0.0)
        delta = float(rng.choice([-1, 1]) * rng.uniform(1e-8, 4e-7))
        expect_error = True
    elif junction == "nf-mismatch":
        nf_init = nf1 + 1 if nf1 < 6 else nf1 - 1
        expect_error = True
    mu1_fin = float(mu1 * np.sqrt(1.0 + delta))
    th_raw = wl.raw_theory()
    ini_op_raw = wl.raw_operator(init=(mu0, 4), mugrid=ini_mugrid, xgrid=xg.tolist(), degree=1)
    fin_op_raw = wl.raw_operator(init=(mu1_fin, nf_init), mugrid=fin_mugrid, xgrid=xg.tolist(), degree=1)
    ini_eg = [(m**2, nf) for m, nf in ini_mugrid]  # as OperatorCard.evolgrid does
    fin_eg = [(m**2, nf) for m, nf in fin_mugrid]
    J = (mu1**2, nf1)
    ini_t = synth_f.random_tensors(rng, ini_eg, nx, with_err=errpat in ("both", "ini-only", "fin-mixed"), err_scale=1e-2)
    fin_t = synth_f.random_tensors(rng, fin_eg, nx, with_err=errpat in ("both", "fin-only", "fin-mixed"), err_scale=1e-2)
    if errpat == "fin-mixed":
        # errors on every other target of the second archive (in its own order), starting with or without one
        start = int(rng.integers(2))
        for j, ep_ in enumerate(fin_eg):
            if (j + start) % 2:
                kk = (float(ep_[0]), int(ep_[1]))
                fin_t[kk] = (fin_t[kk][0], None)
    # signed errors, so that the absolute values of the rule are observable
    for t in (ini_t, fin_t):
        for k, (o, e) in list(t.items()):
            if e is not None:
                t[k] = (o, e * rng.choice([-1.0, 1.0], size=e.shape))
    if overlap is not None:
        ok_ = (overlap[0] ** 2, overlap[1])
        cons = np.einsum("ajbk,bkcl->ajcl", fin_t[ok_][0], ini_t[J][0])
        ini_t[ok_] = (cons, ini_t[ok_][1])
    key = (junction, errpat, nx, len(ini_mugrid), len(fin_mugrid), overlap is not None, i)
    out["key"] = key
    wit = dict(index=i, junction=junction, errpat=errpat, nx=nx, mu0=mu0, mu1=mu1, nf1=nf1, delta=delta, kwargs=kwargs,
               ini_mugrid=ini_mugrid, fin_mugrid=fin_mugrid, overlap=overlap, same_scale_other_nf=twin)

    # ----------------------------------------------------------- oracle side
    A = ini_t[J][0]
    want = {}
    comm = 0.0
    new_targets = [ep for ep in fin_eg if ep not in ini_t]
    for ep in new_targets:
        B, Berr = fin_t[ep]
        prod = np.einsum("ajbk,bkcl->ajcl", B, A)  # later · earlier
        other = np.einsum("ajbk,bkcl->ajcl", A, B)
        comm = max(comm, float(np.abs(prod - other).max() / np.abs(prod).max()))
        Aerr = ini_t[J][1]
        if Aerr is not None and Berr is not None:
            err = np.einsum("ajbk,bkcl->ajcl", np.abs(B), np.abs(Aerr)) + np.einsum("ajbk,bkcl->ajcl", np.abs(Berr), np.abs(A))
        else:
            err = None
        want[ep] = (prod, err)
    out["nontrivial"] = (comm > 0.1 and len(new_targets) > 0 and not expect_error) or expect_error

    def judge(res, tag):
        """res: {ep: (op, err)} of the product archive."""
        nb = 0
        exp_keys = set(ini_t) | set(fin_eg)
        if set(res) != exp_keys:
            out["viol"].append((f"C44/{tag}/keys", f"{tag}: product holds {sorted(res)}, expected {sorted(exp_keys)}", wit))
            return 1
        for ep in ini_t:  # operators of the first archive stay (overlap: consistent by construction)
            sc = max(1.0, float(np.abs(ini_t[ep][0]).max()))
            if not float(np.abs(res[ep][0] - ini_t[ep][0]).max()) / sc <= TOL:
                out["viol"].append((f"C44/{tag}/initial-operators-changed", f"{tag}: operator of the first archive at {ep} changed", dict(wit, ep=list(ep))))
                nb += 1
        for ep, (p, e) in want.items():
            got, gerr = res[ep]
            out["hits"]["product_operator"] = out["hits"].get("product_operator", 0) + 1
            sc = max(1.0, float(np.einsum("ajbk,bkcl->ajcl", np.abs(fin_t[ep][0]), np.abs(A)).max()))
            d = float(np.abs(got - p).max()) / sc if got.shape == p.shape else np.inf
            if not d <= TOL:
                other = np.einsum("ajbk,bkcl->ajcl", A, fin_t[ep][0])
                swapped = got.shape == other.shape and float(np.abs(got - other).max()) / sc <= TOL
                cls = "operand-order" if swapped else "other"
                out["viol"].append(
                    (
                        f"C44/{tag}/operator/{cls}",
                        f"{tag}: product operator at {ep} differs from fin·ini by {d:.3e} (rel)" + ("; it equals ini·fin (operands swapped)" if swapped else ""),
                        dict(wit, ep=list(ep), rel_diff=d, commutator=comm),
                    )
                )
                nb += 1
            if e is None:
                out["hits"]["product_error_none"] = out["hits"].get("product_error_none", 0) + 1
                if gerr is not None:
                    out["viol"].append((f"C44/{tag}/error/invented", f"{tag}: error present although one operand has none", dict(wit, ep=list(ep))))
                    nb += 1
            else:
                out["hits"]["product_error"] = out["hits"].get("product_error", 0) + 1
                if gerr is None:
                    out["viol"].append((f"C44/{tag}/error/lost", f"{tag}: error dropped although both operands carry one", dict(wit, ep=list(ep))))
                    nb += 1
                else:
                    sce = max(1e-300, float(np.abs(e).max()))
                    de = float(np.abs(gerr - e).max()) / sce if gerr.shape == e.shape else np.inf
                    if not de <= 1e-11:
                        # classify
                        lin_right = np.einsum("ajbk,bkcl->ajcl", fin_t[ep][0], ini_t[J][1]) + np.einsum("ajbk,bkcl->ajcl", fin_t[ep][1], A)
                        lin_wrong = np.einsum("ajbk,bkcl->ajcl", A, fin_t[ep][1]) + np.einsum("ajbk,bkcl->ajcl", ini_t[J][1], fin_t[ep][0])
                        abs_wrong = np.einsum("ajbk,bkcl->ajcl", np.abs(A), np.abs(fin_t[ep][1])) + np.einsum("ajbk,bkcl->ajcl", np.abs(ini_t[J][1]), np.abs(fin_t[ep][0]))
                        cls = "other"
                        for name, cand in (("no-abs", lin_right), ("no-abs-operand-order", lin_wrong), ("operand-order", abs_wrong)):
                            if float(np.abs(gerr - cand).max()) / sce <= 1e-11:
                                cls = name
                        out["viol"].append(
                            (
                                f"C44/{tag}/error/{cls}",
                                f"{tag}: product error at {ep} differs from |fin|·|ini_err|+|fin_err|·|ini| by {de:.3e} (rel) [{cls}]",
                                dict(wit, ep=list(ep), rel_diff=de),
                            )
                        )
                        nb += 1
        return nb

    d = scratch.mkdtemp()
    try:
        dd = pathlib.Path(d)
        with warnings.catch_warnings():
            warnings.simplefilter("ignore")
            pi = synth_f.build_eko(dd / "ini.tar", th_raw, ini_op_raw, ini_t)
            pf = synth_f.build_eko(dd / "fin.tar", th_raw, fin_op_raw, fin_t)
            shutil.copy(pi, dd / "ini_backup.tar")
            nbad = 0
            # ---- 1. product to a new path (first operand read-only or writable)
            ro = bool(rng.random() < 0.5)
            res_path = dd / "res.tar"
            raised = None
            with EKO.read(pi, readonly=ro) as eini, EKO.read(pf) as efin:
                try:
                    utils.ekos_product(eini, efin, path=res_path, **kwargs)
                except ValueError as e:
                    raised = e
                ini_after = _snapshot(eini)
                fin_after = _snapshot(efin)
            if expect_error:
                out["hits"]["junction_outside"] = 1
                if raised is None:
                    out["viol"].append((f"C44/junction/{junction}/accepted", f"junction {junction} (delta={delta:.2e}, nf {nf1}->{nf_init}) accepted instead of ValueError", wit))
                    nbad += 1
                elif res_path.exists():
                    out["viol"].append((f"C44/junction/{junction}/leftover", "refused product left an archive at the new path", wit))
                    nbad += 1
            else:
                if junction.startswith("within"):
                    out["hits"]["junction_within"] = 1
                if raised is not None:
                    out["viol"].append((f"C44/junction/{junction}/refused", f"junction {junction} (delta={delta:.2e}) refused: {raised}", wit))
                    nbad += 1
                else:
                    mu20_res, res = _read_all(res_path)
                    out["hits"]["persisted"] = 1
                    nbad += judge(res, "copy")
                    if abs(mu20_res - mu0 * mu0) > 1e-12 * mu0 * mu0:
                        out["viol"].append(("C44/copy/origin", f"product starts at mu0^2={mu20_res}, first archive at {mu0 * mu0}", wit))
                        nbad += 1
            # operands untouched by a product written elsewhere (in memory and on disk)
            out["hits"]["operands_untouched"] = 1
            if not _same(ini_after, ini_t) or not _same(_read_all(pi)[1], ini_t):
                out["viol"].append(("C44/copy/first-operand-modified", "product to a new path modified the first archive", wit))
                nbad += 1
            if not _same(fin_after, fin_t) or not _same(_read_all(pf)[1], fin_t):
                out["viol"].append(("C44/copy/second-operand-modified", "product modified the second archive", wit))
                nbad += 1
            # ---- 2. in place
            if not expect_error and raised is None:
                with EKO.edit(pi) as eini, EKO.read(pf) as efin:
                    utils.ekos_product(eini, efin, **kwargs)
                    mem = _snapshot(eini)
                nbad += judge(mem, "inplace")
                mu20_ip, disk = _read_all(pi)
                out["hits"]["inplace_vs_copy"] = 1
                if not _same(mem, disk):
                    out["viol"].append(("C44/inplace/not-persisted", "in-place product in memory differs from what is on disk after closing", wit))
                    nbad += 1
                if not _same(disk, res):
                    out["viol"].append(("C44/inplace-vs-copy", "in-place product and product written to a new path differ", wit))
                    nbad += 1
                if not _same(_read_all(pf)[1], fin_t):
                    out["viol"].append(("C44/inplace/second-operand-modified", "in-place product modified the second archive", wit))
                    nbad += 1
            out["sample"] = dict(junction=junction, errpat=errpat, nx=nx, ini_targets=len(ini_mugrid), fin_targets=len(fin_mugrid), overlap=overlap is not None, commutator=comm, mismatches=nbad)
            if nbad == 0:
                out["ok"] = 1
    except Exception as e:
        import traceback

        out["viol"].append(("C44/raises", f"ekos_product workflow raised {type(e).__name__}: {e}", dict(wit, tb=traceback.format_exc()[-800:])))
    finally:
        shutil.rmtree(d, ignore_errors=True)
    return out


def _safe(a):
    try:
        return _case(a)
    except Exception as e:  # a harness failure is never a verdict
        import traceback

        return dict(key=("harness-error", a[1]), nontrivial=False, hits={}, viol=[], ok=0,
                    inc=[f"harness error {type(e).__name__}: {e} {traceback.format_exc()[-300:]}"])


def _chunk(args):
    return [_safe(a) for a in args]


def _merge(ck, rec):
    ck.case(rec["key"], nontrivial=rec.get("nontrivial", False), sample=rec.get("sample"))
    for k, v in rec["hits"].items():
        ck.hit(k, v)
    for key, what, wit in rec["viol"]:
        ck.violation(key, what, dict(wit, seed=ck.seed))
    for why in rec["inc"]:
        ck.inconclusive(why)
    if rec["ok"] and not rec["viol"]:
        ck.ok()


def run(ck):
    n = ck.n(120, 3000)
    items = [(ck.seed, i) for i in range(n)]
    size = 10 if ck.quick else 60
    chunks = [items[k : k + size] for k in range(0, len(items), size)]
    for chunk, st, val in jobs.pmap(_chunk, chunks, timeout=ck.n(900, 3000)):
        if st != "ok":
            for _ in chunk:
                ck.case(None, nontrivial=False)
                ck.inconclusive(f"worker {st}: {str(val)[:200]}")
            continue
        for rec in val:
            _merge(ck, rec)


def replay(ck, rep):
    w = rep["witness"]
    _merge(ck, _case((w.get("seed", rep.get("seed", 0)), w["index"])))
    ck.min_nontrivial = 0
    ck.meta = dict(ck.meta, required_hits=[])
