"""C29: matching elements (OMEs) obey sum rules and the L-dependence required by RG invariance.

Monitors (all on the real tower functions ``A_singlet`` / ``A_non_singlet`` of
``ekore.operator_matrix_elements.{unpolarized.space_like, polarized.space_like,
unpolarized.time_like}``):

* ``rg``      : dA_k/dL, taken by finite differences in L (5-point stencil,
  exact for the polynomial L-dependence RG invariance demands), against
  R_k(gamma', gamma, A_<k, beta', decoupling) derived symbolically in
  ``vlib/oracles/rginv_ome.py``; compared per power of L.
* ``momentum``: column sums over (g, Sigma_l, h+) at N -> 2 (mean over a circle
  in the complex plane: exact limit at removable singularities), per power of L.
* ``number``  : A_ns(N -> 1) entries, per power of L.
* ``msbar``   : A_2(MSbar) - A_2(pole) = -2*(4 CF) dA_1/dL  (m_pole = m(m)(1 + 4 CF a)).
"""

from __future__ import annotations

import math
import warnings

import numpy as np

from .. import jobs
from ..oracles import rginv_ome as rg

META = dict(
    level="exploration",
    design_ref="DESIGN.md §5 C29",
    technique="reference-relation monitor: finite differences in L of the real OME towers vs. the sympy-derived order-by-order RG relation dA/dlnmu2 = -Gamma'(a')A + A Gamma(a) (non-commuting), plus momentum/number sum rules at N->2/N->1 approached on circles in the complex plane",
    level_text="Randomised exploration of (kind, sector, nf, N, L): every tower evaluation is observed by an oracle that does not use the OME expressions (RG relation built from ekore's anomalous dimensions, literature beta and decoupling constants; conservation laws).  Held means: no violation on the sampled points.",
    level_note="Trusted base: sympy derivation in oracles/rginv_ome.py; ekore anomalous dimensions (pinned by C25/C27/C28) as inputs of R_k; beta_0, beta_1 and the decoupling constants -14/3 (pole), from the literature.  Non-logarithmic terms of the OMEs are only constrained through the sum rules.  Heavy-quark-initiated column only at O(a_s) (not implemented beyond, documented).",
    rule="case = (kind in us/usm/ps/ut, sector S/NS, nf 3-5, complex N, L0, h) for the RG monitor, (nf, radius, phase, L0, h) for sum rules; distinct by rounded parameters; non-trivial when the highest-order R_k is non-zero (|R_k| > 1e-6) resp. when the individual entries of the summed column are non-zero",
    min_nontrivial=30,
    required_hits=["rg_us_S_as1", "rg_us_S_as2", "rg_us_S_as3", "rg_us_NS_as3", "rg_usm_S_as2", "rg_ps_S_as2", "rg_ps_NS_as2", "rg_ut_S_as1", "momentum_as3", "number_as3", "msbar_shift"],
    max_inconclusive_frac=0.05,
)

CF = 4.0 / 3.0
X = np.array([-2.0, -1.0, 0.0, 1.0, 2.0])
VINV = np.linalg.inv(np.vander(X, 5, increasing=True))
N3 = (0, 0, 0, 0, 0, 0, 0)

KINDS = {
    # name: (max order, has heavy-quark initiated column at O(as))
    "us": (3, True),
    "usm": (2, True),  # unpolarized with MSbar-mass terms (only O(as^2) implemented)
    "ps": (2, False),
    "ut": (1, False),
}
S_NAMES = ("g", "q", "H")
NS_NAMES = ("q", "H")


# ------------------------------------------------------------------ code calls
def _towers(kind, N, nf, L, which="both"):
    """(A_singlet, A_non_singlet) towers of the code under test (None for a sector not asked for)."""
    S, NS = which in ("both", "S"), which in ("both", "NS")
    if kind in ("us", "usm"):
        import ekore.operator_matrix_elements.unpolarized.space_like as m

        K = KINDS[kind][0]
        return (
            m.A_singlet((K, 0), N, nf, L, kind == "usm") if S else None,
            m.A_non_singlet((K, 0), N, nf, L) if NS else None,
        )
    if kind == "ps":
        import ekore.operator_matrix_elements.polarized.space_like as m

        return (m.A_singlet((2, 0), N, nf, L) if S else None, m.A_non_singlet((2, 0), N, L) if NS else None)
    if kind == "ut":
        import ekore.operator_matrix_elements.unpolarized.time_like as m

        return (m.A_singlet((1, 0), N, L) if S else None, m.A_non_singlet((1, 0), N, L) if NS else None)
    raise KeyError(kind)


def _ads(kind, K, N, nf):
    """ekore anomalous dimensions: singlet tower in (g,q) order, ns+, ns-, nsv towers."""
    if kind in ("us", "usm"):
        import ekore.anomalous_dimensions.unpolarized.space_like as ad

        gs = ad.gamma_singlet((K, 0), N, nf, N3)
        ns = {m: ad.gamma_ns((K, 0), m, N, nf, N3) for m in (10101, 10201, 10200)}
    elif kind == "ps":
        import ekore.anomalous_dimensions.polarized.space_like as ad

        gs = ad.gamma_singlet((K, 0), N, nf)
        ns = {m: ad.gamma_ns((K, 0), m, N, nf) for m in (10101, 10201, 10200)}
    else:
        import ekore.anomalous_dimensions.unpolarized.time_like as ad

        gs = ad.gamma_singlet((K, 0), N, nf)
        ns = {m: ad.gamma_ns((K, 0), m, N, nf) for m in (10101, 10201, 10200)}
    return [rg.to_gq(g) for g in gs], ns


# ----------------------------------------------------------------- polynomials
def _to_L(cx, L0, h):
    """coefficients in x=(L-L0)/h (axis 0) -> coefficients in L (axis 0)."""
    n = cx.shape[0]
    T = np.zeros((n, n))
    # x^j = sum_p C(j,p) (1/h)^j (-L0)^(j-p) L^p
    for j in range(n):
        for p in range(j + 1):
            T[p, j] = math.comb(j, p) * (-L0) ** (j - p) / h**j
    return np.tensordot(T, cx, axes=(1, 0))


def _fit(vals):
    """values at the 5 nodes (axis 0) -> coefficients in x (axis 0)."""
    return np.tensordot(VINV, vals, axes=(1, 0))


# ------------------------------------------------------------------ rg worker
def _rg_case(item):
    """Evaluate one RG case; returns per-(sector,k,power) residual tables."""
    kind, N, nf, L0, h = item
    N = complex(*N)
    K, heavy = KINDS[kind]
    warnings.filterwarnings("ignore")
    nodes = L0 + h * X
    tow = [_towers(kind, N, nf, float(L)) for L in nodes]
    AS = np.array([t[0] for t in tow])  # (5, K', 3, 3)
    ANS = np.array([t[1] for t in tow])  # (5, K', 2, 2)
    scheme = "msbar" if kind == "usm" else "pole"
    gl, nsl = _ads(kind, K, N, nf)
    gh, nsh = _ads(kind, K, N, nf + 1)
    out = dict(kind=kind, N=[N.real, N.imag], nf=nf, L0=L0, h=h, res=[])
    if not (np.all(np.isfinite(AS)) and np.all(np.isfinite(ANS))):
        out["nonfinite"] = True
        return out
    sect = {
        "S": (
            AS,
            [rg.embed_singlet_light(g) for g in gl],
            [rg.embed_singlet_heavy(g, p, nf) for g, p in zip(gh, nsh[10101])],
        ),
        "NS": (
            ANS,
            [rg.embed_valence_light(v) for v in nsl[10200]],
            [rg.embed_valence_heavy(v, m, nf) for v, m in zip(nsh[10200], nsh[10201])],
        ),
    }
    for sname, (A, Gam, Gamp) in sect.items():
        dim = A.shape[-1]
        if A.shape[1] < K:
            out.setdefault("shape", []).append((sname, list(A.shape)))
            continue
        cA = _fit(A)  # (5, K, dim, dim) in x
        for k in range(1, K + 1):
            Rn = np.array(
                [rg.rhs(k, Gam[:k], Gamp[:k], [A[i, j] for j in range(k - 1)], nf, float(nodes[i]), scheme) for i in range(5)]
            )
            cR = _fit(Rn)
            dx = np.zeros_like(cR)
            for j in range(4):
                dx[j] = (j + 1) * cA[j + 1, k - 1] / h
            DL = _to_L(dx, L0, h)
            RL = _to_L(cR, L0, h)
            # rounding floor: fitted coefficients inherit eps * |function values| * |VINV| row sums,
            # then the change of basis x -> L
            wrow = np.abs(VINV).sum(axis=1)
            fA = np.abs(A[:, k - 1]).max()
            fR = np.abs(Rn).max()
            fx = np.array([fR * wrow[j] + ((j + 1) / h * fA * wrow[j + 1] if j < 4 else 0.0) for j in range(5)])
            floor = np.zeros(5)
            for p in range(5):
                floor[p] = sum(math.comb(j, p) * abs(L0) ** (j - p) / h**j * fx[j] for j in range(p, 5))
            rec = dict(
                sector=sname,
                k=k,
                D=DL,
                R=RL,
                floor=floor,
                dG2=(np.abs(Gamp[2] - Gam[2]).max() if k == 3 else 0.0),
                Rmax=float(np.abs(Rn).max()),
                # the part of R_3[h-,V] that the documented matrix structure cannot absorb
                hm=(complex(RL[0][1, 0]) if (sname == "NS" and k == 3) else 0.0),
            )
            out["res"].append(rec)
    # MSbar shift: A_2(msbar) - A_2(pole) = -8 CF dA_1/dL
    if kind == "usm":
        import ekore.operator_matrix_elements.unpolarized.space_like as m

        pole = np.array([m.A_singlet((2, 0), N, nf, float(L), False) for L in nodes])
        shift = AS[:, 1] - pole[:, 1]  # (5,3,3)
        dA1 = _to_L(np.array([(j + 1) * cAj / h for j, cAj in enumerate(_fit(AS[:, 0])[1:])] + [np.zeros((3, 3))]), L0, h)
        out["msbar"] = dict(shift=shift, dA1=dA1[0], dA1_higher=float(np.abs(dA1[1:]).max()))
    return out


# tolerance classes ---------------------------------------------------------
def _rg_tol(kind, k, p, rec):
    """Allowed |D - R| for derivative power p (i.e. the L^(p+1) coefficient of A_k)."""
    scale = max(np.abs(rec["R"][p]).max(), np.abs(rec["D"][p]).max())
    floor = 1e-12 * rec["floor"][p]  # accumulated rounding of the (long) OME expressions
    if k <= 2:
        # closed rational / S1..S3 expressions: rounding level (DESIGN: 1e-9)
        return 1e-9 * scale + floor
    # k == 3
    if p >= 2:
        return 1e-9 * scale + floor
    if p == 1:
        # weight>=3 alternating harmonic sums are approximated in ekore (g-functions, ~1e-6)
        return 2e-5 * scale + floor
    # p == 0 contains gamma^(2)(nf) - gamma^(2)(nf+1): ekore uses the MVV parametrisations
    # (documented accuracy: one per mille of each function)
    return 2e-3 * rec["dG2"] + 2e-5 * scale + floor


def _entry_name(sector, i, j):
    n = S_NAMES if sector == "S" else NS_NAMES
    return f"A_{n[i]}{n[j]}"


def _margin(ck, label, ratio):
    """keep the largest observed residual/tolerance per monitor class (reported in the evidence)"""
    m = ck.extra.setdefault("max_residual_over_tolerance", {})
    if ratio > m.get(label, 0.0):
        m[label] = round(ratio, 6)


def _judge_rg(ck, out):
    kind, nf = out["kind"], out["nf"]
    K, heavy = KINDS[kind]
    N = complex(*out["N"])
    ckey = (kind, nf, round(N.real, 6), round(N.imag, 6), round(out["L0"], 6))
    base = dict(kind=kind, N=out["N"], nf=nf, L0=out["L0"], h=out["h"], seed=ck.seed)
    if out.get("nonfinite") or out.get("shape"):
        ck.case(ckey, nontrivial=False)
        ck.violation(f"C29/{kind}/other/nonfinite-or-shape", "tower not finite / wrong shape", dict(base, shape=out.get("shape")))
        return
    nontriv = False
    bad = False
    for rec in out["res"]:
        s, k = rec["sector"], rec["k"]
        ck.hit(f"rg_{kind}_{s}_as{k}")
        dim = 3 if s == "S" else 2
        mask = np.zeros((dim, dim), bool)
        mask[:, : dim - 1] = True  # light-initiated columns
        if k == 1 and heavy:
            mask[:, dim - 1] = True  # heavy-quark initiated column exists at O(as) only
        if s == "NS" and k == 3:
            mask[1, 0] = False  # see notes: gamma_ns,s-induced h- log is not part of the documented structure
            ck.note(ns_as3_hminus_log_required_max=max(float(abs(rec["hm"])), float(ck.extra.get("ns_as3_hminus_log_required_max", 0.0))))
        if k == K and rec["Rmax"] > 1e-6:
            nontriv = True
        for p in range(5):
            tol = _rg_tol(kind, k, p, rec)
            diff = np.abs(rec["D"][p] - rec["R"][p])
            if tol > 0 and np.any(mask) and not (kind in ("ps", "ut")):
                _margin(ck, f"rg/as{k}/L^{p + 1}" if p + 1 <= k else f"rg/as{k}/degree", float(diff[mask].max() / tol))
            for i in range(dim):
                for j in range(dim):
                    if not mask[i, j]:
                        continue
                    if not diff[i, j] <= tol:
                        bad = True
                        what = "degree" if p + 1 > k else f"L^{p + 1}"
                        ck.violation(
                            f"C29/{kind}/{s}/as{k}/{_entry_name(s, i, j)}/{what}",
                            f"{kind} {s} O(as^{k}) {_entry_name(s, i, j)}: (p+1)*[L^{p + 1} coefficient] = {rec['D'][p][i, j]:.10g} but RG invariance requires {rec['R'][p][i, j]:.10g} (|diff| {diff[i, j]:.3g} > tol {tol:.3g})",
                            dict(base, sector=s, order=k, entry=[i, j], power_of_L_in_A=p + 1, observed=rec["D"][p][i, j], expected=rec["R"][p][i, j], tol=tol),
                        )
    if "msbar" in out:
        ck.hit("msbar_shift")
        m = out["msbar"]
        exp = -2.0 * 4.0 * CF * m["dA1"]
        tol = 1e-10 * max(1.0, np.abs(exp).max())
        for i in range(3):
            for j in range(2):
                d = np.abs(m["shift"][:, i, j] - exp[i, j]).max()
                if not d <= tol:
                    bad = True
                    ck.violation(
                        f"C29/usm/S/as2/{_entry_name('S', i, j)}/msbar-shift",
                        f"MSbar-pole difference of A^(2)_{S_NAMES[i]}{S_NAMES[j]} is {m['shift'][2, i, j]:.10g}, expected -8 CF dA1/dL = {exp[i, j]:.10g}",
                        dict(base, entry=[i, j], observed=m["shift"][2, i, j], expected=exp[i, j]),
                    )
    ck.case(ckey, nontrivial=nontriv, sample=dict(base, monitor="rg", max_R=[r["Rmax"] for r in out["res"]]))
    if not bad:
        ck.ok()


# ------------------------------------------------------------- sum-rule worker
def _sum_case(item):
    """Momentum (N->2) and number (N->1) sums on circles, per power of L; unpolarized only."""
    kind, nf, r, phi, L0, h, M = item
    warnings.filterwarnings("ignore")
    nodes = L0 + h * X
    K = KINDS[kind][0]
    res = {}
    for name, centre in (("momentum", 2.0), ("number", 1.0)):
        est = []
        for rad in (r, r / 2):
            acc = 0.0
            ent = 0.0
            for m in range(M):
                N = centre + rad * np.exp(1j * (phi + 2 * np.pi * m / M))
                tow = [_towers(kind, N, nf, float(L), "S" if name == "momentum" else "NS") for L in nodes]
                if name == "momentum":
                    A = np.array([t[0] for t in tow])  # (5,K,3,3)
                    val = A.sum(axis=2)  # column sums (5,K,3)
                    mag = np.abs(A).max(axis=2)
                else:
                    A = np.array([t[1] for t in tow])  # (5,K,2,2)
                    val = np.stack([A[:, :, 0, 0], A[:, :, 1, 1]], axis=-1)
                    mag = np.abs(val)
                acc = acc + val / M
                ent = ent + mag / M
            est.append((_to_L(_fit(acc), L0, h), np.abs(ent).max(axis=0)))
        res[name] = dict(c=est[1][0], c_big=est[0][0], mag=est[1][1])
    return dict(kind=kind, nf=nf, r=r, phi=phi, L0=L0, h=h, M=M, res=res)


# absolute tolerances [k][power] for the column sums; entries are O(1)..O(1e3)
def _sum_tol(name, kind, k, col, p):
    if k == 1:
        return 1e-10
    if k == 2:
        if name == "momentum" and col == 0 and p == 0:
            return 4e-6  # a_hg^(2) constant uses approximated S_{-2,1}; repo test accepts 2e-6
        return 1e-9
    # k == 3 (parametrised / approximated pieces, tolerances follow tests/ekore/.../test_as3.py)
    if p >= 3:
        return 1e-9
    if name == "momentum":
        if p == 0:
            return 5e-4 if col == 0 else 1e-4
        return 2e-4 if p == 1 else 2e-5
    if p == 0:
        return 1.5e-4
    return 5e-5 if p == 1 else 1e-5


def _judge_sum(ck, out):
    kind, nf = out["kind"], out["nf"]
    K, heavy = KINDS[kind]
    base = {k: out[k] for k in ("kind", "nf", "r", "phi", "L0", "h", "M")}
    base["seed"] = ck.seed
    bad = False
    nontriv = False
    for name, rec in out["res"].items():
        c, cb, mag = rec["c"], rec["c_big"], rec["mag"]  # (5 powers, K, ncol)
        ncol = c.shape[2]
        for k in range(1, K + 1):
            ck.hit(f"{name}_as{k}")
            for col in range(ncol):
                if name == "momentum":
                    if col == 2 and not (heavy and k == 1):
                        continue
                    label = f"col-{S_NAMES[col]}"
                else:
                    if col == 1 and not (heavy and k == 1):
                        continue
                    label = "A_qq" if col == 0 else "A_HH"
                if mag[k - 1, col] > 1e-3:
                    nontriv = True
                for p in range(5):
                    tol = _sum_tol(name, kind, k, col, p)
                    v = abs(c[p, k - 1, col])
                    if np.isfinite(v):
                        _margin(ck, f"{name}/as{k}/L^{p}", float(v / tol))
                    err = abs(c[p, k - 1, col] - cb[p, k - 1, col])
                    if not np.isfinite(v):
                        bad = True
                        ck.violation(f"C29/{kind}/{name}/as{k}/{label}/nonfinite", "sum not finite on the circle", dict(base, order=k, power=p))
                    elif v > tol:
                        if err > 0.5 * v:
                            ck.inconclusive(f"{name} as{k} {label} L^{p}: radii disagree ({err:.2g}) at the level of the sum ({v:.2g})")
                            continue
                        bad = True
                        ck.violation(
                            f"C29/{kind}/{name}/as{k}/{label}/L^{p}",
                            f"{kind} O(as^{k}) {name} sum rule, {label}, coefficient of L^{p}: {c[p, k - 1, col]:.6g} (tol {tol:.2g}, entries up to {mag[k - 1, col]:.3g})",
                            dict(base, order=k, column=col, power_of_L=p, observed=c[p, k - 1, col], tol=tol, other_radius=cb[p, k - 1, col]),
                        )
    ck.case(("sum", kind, nf, round(out["r"], 6), round(out["phi"], 6), round(out["L0"], 6)), nontrivial=nontriv, sample=dict(base, monitor="sumrules"))
    if not bad:
        ck.ok()


# ------------------------------------------------------------------ generators
def _gen_N(rng, kind):
    u = rng.uniform()
    if u < 0.2:  # real axis, incl. near-integers
        N = complex(rng.uniform(1.15, 30.0), 0.0)
        if rng.uniform() < 0.3:
            N = complex(float(rng.integers(3, 25)), 0.0)
    elif u < 0.55:  # generic complex
        N = complex(rng.uniform(1.15, 9.0), rng.uniform(-6.0, 6.0))
    elif u < 0.75:  # Talbot-like contour around 1
        t = rng.uniform(0.15, 0.95) * np.pi * (1 if rng.uniform() < 0.5 else -1)
        rr = rng.uniform(1.0, 12.0)
        N = 1.0 + rr * t * (1.0 / np.tan(t) + 1j) + 0.5
        N = complex(max(N.real, 1.1), N.imag)
    elif u < 0.9:  # close to the sum-rule points
        c = 2.0 if rng.uniform() < 0.6 else 1.0
        rad = 10 ** rng.uniform(-3 if c == 2.0 else -2, -0.5)
        ph = rng.uniform(-np.pi / 2, np.pi / 2) if c == 1.0 else rng.uniform(0, 2 * np.pi)
        N = c + rad * np.exp(1j * ph)
        if c == 1.0:
            N = complex(max(N.real, 1.0 + 1e-3), N.imag if abs(N.imag) > 0 else 1e-3)
    else:  # large imaginary part
        N = complex(rng.uniform(1.2, 4.0), rng.uniform(-60.0, 60.0))
    return complex(N)


def _gen_rg(rng, n):
    items = []
    kinds = ["us"] * 4 + ["usm", "ps", "ps", "ut"]
    for i in range(n):
        kind = kinds[i % len(kinds)]
        nf = int(rng.integers(3, 6))
        N = _gen_N(rng, kind)
        h = float(rng.uniform(0.3, 0.75))
        L0 = float(rng.uniform(-3 + 2 * h, 3 - 2 * h))
        items.append((kind, (N.real, N.imag), nf, L0, h))
    return items


def _gen_sum(rng, n):
    items = []
    for i in range(n):
        kind = "usm" if i % 4 == 3 else "us"
        nf = 3 + i % 3
        r = float(rng.uniform(0.15, 0.3))
        phi = float(rng.uniform(0, 2 * np.pi))
        h = float(rng.uniform(0.3, 0.75))
        L0 = float(rng.uniform(-3 + 2 * h, 3 - 2 * h))
        items.append((kind, nf, r, phi, L0, h, 16))
    return items


def _oracle_selfcheck(ck):
    """compiled term lists == generic tree evaluation on random non-commuting matrices."""
    r = np.random.default_rng(7)
    for dim in (2, 3):
        G = [r.normal(size=(dim, dim)) + 1j * r.normal(size=(dim, dim)) for _ in range(3)]
        Gp = [r.normal(size=(dim, dim)) + 1j * r.normal(size=(dim, dim)) for _ in range(3)]
        A = [r.normal(size=(dim, dim)) + 1j * r.normal(size=(dim, dim)) for _ in range(2)]
        for k in (1, 2, 3):
            a = rg.rhs(k, G[:k], Gp[:k], A[: k - 1], 4, 0.37)
            b = rg.rhs_symbolic_eval(k, G[:k], Gp[:k], A[: k - 1], 4, 0.37)
            if not np.allclose(a, b, rtol=1e-12, atol=1e-12):
                return f"compiled R_{k} disagrees with the tree evaluation"
    p1, p2 = rg.decoupling(4, "pole")
    # literature (Chetyrkin-Kniehl-Steinhauser, a = alpha_s/4pi, L = ln(mu^2/m^2), on-shell mass):
    # a^(nf) = a'(1 - 2/3 L a' + (4/9 L^2 - 38/3 L - 14/3) a'^2)
    want1, want2 = (0.0, -2.0 / 3.0), (-14.0 / 3.0, -38.0 / 3.0, 4.0 / 9.0)
    if not (np.allclose(p1, want1, atol=1e-12) and np.allclose(p2, want2, atol=1e-12)):
        return f"RG-derived decoupling {p1},{p2} differs from the literature {want1},{want2}"
    return None


def _run_items(ck, fn, items, judge, label):
    for it, st, val in jobs.pmap(fn, items, timeout=ck.n(900, 3000)):
        if st == "ok":
            judge(ck, val)
        elif st == "error":
            ck.case((label, "error", str(it)[:80]), nontrivial=False)
            ck.violation(f"C29/{it[0]}/other/raises", f"{label} case raised: {val[:300]}", dict(item=list(it), seed=ck.seed))
        else:
            ck.case((label, st, str(it)[:80]), nontrivial=False)
            ck.inconclusive(f"{label} job {st}")


def run(ck):
    bad = _oracle_selfcheck(ck)
    if bad:
        ck.inconclusive(f"oracle self-check failed: {bad}")
        return
    rng = ck.rng
    _run_items(ck, _rg_case, _gen_rg(rng, ck.n(240, 12000)), _judge_rg, "rg")
    _run_items(ck, _sum_case, _gen_sum(rng, ck.n(12, 240)), _judge_sum, "sum")
    ck.note(
        reached="RG relation in full for k=1,2 (all powers of L) and k=3 (L^3, L^2 exact; L^1 limited by ekore's approximated harmonic sums; L^0 limited by the MVV parametrisation of gamma^(2))",
        not_reached="non-logarithmic terms beyond the sum rules; heavy-quark-initiated column beyond O(as); MSbar-mass terms at O(as^3); polarized O(as^3); time-like beyond O(as)",
    )


def replay(ck, rep):
    """Re-run the witness case (and the same case at a shifted L0 as a second, distinct case)."""
    w = rep["witness"]
    for shift in (0.0, 0.37):
        if "r" in w:
            _judge_sum(ck, _sum_case((w["kind"], w["nf"], w["r"], w["phi"], w["L0"] + shift, w["h"], w.get("M", 16))))
        elif "item" in w:
            it = [tuple(x) if isinstance(x, list) else x for x in w["item"]]
            if len(it) == 7:
                it[4] += shift
                _judge_sum(ck, _sum_case(tuple(it)))
            else:
                it[3] += shift
                _judge_rg(ck, _rg_case(tuple(it)))
        else:
            _judge_rg(ck, _rg_case((w["kind"], tuple(w["N"]), w["nf"], w["L0"] + shift, w["h"])))
    ck.min_nontrivial = 0
    ck.meta = dict(ck.meta, required_hits=[])
