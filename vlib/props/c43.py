"""C43: applying an EKO to a PDF is the operator contraction (+ optional rotation / target grid)."""

import pathlib
import warnings

import numpy as np

from .. import jobs, scratch
from .. import workload as wl
from ..oracles import flavor_f, interp_f, synth_f

META = dict(
    level="exploration",
    design_ref="DESIGN.md §5 C43",
    technique="reference-model monitor on ekobox.apply (apply_pdf, apply_pdf_flavor, apply_grids, rotate_result): harness einsum of the tensors the harness itself stored, own rotation matrices and own mpmath Lagrange re-interpolation",
    level_text="Randomised exploration over synthetic EKOs written through the real store (random dense operators and errors, 1-3 targets, QCD and QED orders, log/linear grids) and PDF-like objects with missing flavours and scale dependence; every returned number is compared with the harness' contraction. Holds on the executions observed only.",
    level_note="Trusted base: numpy einsum, mpmath, my transcription of the evolution/unified bases and of the interpolation rule from the docs. The error output is required to be the same contraction applied to the stored error tensor (as documented in apply_pdf).",
    rule="case = (call form, qed, rotate, target-grid variant, nx, degree, n_targets, index); non-trivial = dense random operator, PDF with >= 3 non-zero flavours and (when requested) a target grid that differs from the operator grid",
    min_nontrivial=60,
    required_hits=["grid_log", "grid_linear", "contraction", "rotation_evol", "rotation_unified", "targetgrid", "targetgrid_smallx", "errors", "apply_grids", "custom_rotation"],
    max_inconclusive_frac=0.05,
)

TOL = 1e-12
TOL_X = 1e-9


def _case(arg):
    seed, i = arg
    rng = np.random.default_rng([seed, 43, i])
    from eko.io.struct import EKO
    from ekobox import apply

    out = dict(hits={}, viol=[], inc=[], ok=0)
    form = ["apply_pdf", "apply_pdf", "apply_grids+rotate_result", "apply_pdf_flavor"][i % 4]
    qed = bool((i // 4) % 2)
    rotate = bool((i // 8) % 2)
    tvar = ["none", "random", "smallx", "subset", "none", "random"][(i // 16 + i) % 6]
    log = bool(rng.random() < 0.75) or tvar == "smallx"
    nx = int(rng.integers(3, 8))
    deg = int(rng.integers(1, min(3, nx - 1) + 1))
    if tvar == "smallx":
        nx = max(nx, 5)
        xg = synth_f.make_xgrid(rng, nx, True, lo=float(10 ** rng.uniform(-9, -8.3)))
    else:
        xg = synth_f.make_xgrid(rng, nx, log)
    ntg = int(rng.integers(1, 4))
    mus = sorted(set(float(np.round(m, 6)) for m in 10 ** rng.uniform(0.2, 2.5, size=ntg)))
    mugrid = [(m, int(rng.integers(3, 7))) for m in mus]
    rng.shuffle(mugrid)
    mu0 = float(rng.uniform(1.0, 3.0))
    order = (int(rng.integers(1, 4)), int(rng.integers(1, 3)) if qed else 0)
    th_raw = wl.raw_theory(order=order)
    op_raw = wl.raw_operator(init=(mu0, 4), mugrid=mugrid, xgrid=xg.tolist(), degree=deg, is_log=log)
    evolgrid = [(m**2, nf) for m, nf in mugrid]  # as OperatorCard.evolgrid does
    with_err = bool(rng.random() < 0.6)
    tens = synth_f.random_tensors(rng, evolgrid, nx, with_err=with_err)
    if with_err and len(tens) > 1 and rng.random() < 0.3:  # mixed: one operator without error
        k0 = list(tens)[0]
        tens[k0] = (tens[k0][0], None)
    nmiss = int(rng.integers(0, 9))
    missing = [int(p) for p in rng.choice(synth_f.FLAVOR_PIDS, size=nmiss, replace=False)]
    pdf = synth_f.ToyPDF(rng, missing=missing, degree=deg, log=log)
    # target grid
    tg = None
    if tvar == "random":
        m = int(rng.integers(1, nx + 3))
        lo, hi = (np.log(xg[0]), 0.0) if log else (xg[0], 1.0)
        pts = rng.uniform(lo, hi, size=m)
        tg = np.sort(np.exp(pts) if log else pts)
        if rng.random() < 0.5:
            tg = np.unique(np.concatenate([tg, rng.choice(xg, size=2)]))
    elif tvar == "subset":
        tg = np.sort(rng.choice(xg, size=int(rng.integers(1, nx)), replace=False))
    elif tvar == "smallx":
        tg = xg.copy()
        j = 0
        hi = min(xg[1] * 0.9, xg[0] + 0.9e-8)
        tg[0] = float(np.exp(rng.uniform(np.log(xg[0] * 1.5), np.log(max(hi, xg[0] * 1.6)))))
        if not (tg[0] < tg[1] and abs(tg[0] - xg[0]) < 1e-8):
            tg[0] = xg[0] * 1.5
    key = (form, qed, rotate, tvar, nx, deg, len(mugrid), with_err, i)
    out["key"] = key
    nonzero_flavs = 14 - nmiss
    tg_changed = tg is not None and not (len(tg) == nx and np.array_equal(tg, xg))
    out["nontrivial"] = nonzero_flavs >= 3 and (tvar == "none" or tg_changed)
    wit = dict(index=i, form=form, mode=["disk", "memory"][int(np.random.default_rng([seed, 43, i, 1]).integers(2))], qed=qed, order=list(order), rotate=rotate, tvar=tvar, log=log, degree=deg,
               xgrid=xg.tolist(), targetgrid=None if tg is None else tg.tolist(), mugrid=mugrid, mu0=mu0, missing=missing, with_err=with_err)

    # ------------------------------------------------------------ oracle side
    mu20 = mu0**2
    F = pdf.grid(xg, mu20)  # (b,k) = xf/x on the grid at the *initial* scale
    if qed:
        rot, labels_rot = flavor_f.uni_matrix(), flavor_f.UNI_LABELS
    else:
        rot, labels_rot = flavor_f.evol_matrix(), flavor_f.EVOL_LABELS
    mode = ["disk", "memory"][int(np.random.default_rng([seed, 43, i, 1]).integers(2))]  # independent of the call form
    st = dict(Rx=None)

    def expect(T, frot, inputs):
        """T:(a,j,b,k), inputs:(r,b,k) -> (r,a,j') after optional rotation/interpolation, plus a scale."""
        res = np.einsum("ajbk,rbk->raj", T, inputs)
        sc = np.einsum("ajbk,rbk->raj", np.abs(T), np.abs(inputs))
        if frot is not None:
            res = np.einsum("ca,raj->rcj", frot, res)
            sc = np.einsum("ca,raj->rcj", np.abs(frot), sc)
        if st["Rx"] is not None:
            res = np.einsum("ij,raj->rai", st["Rx"], res)
            sc = np.einsum("ij,raj->rai", np.abs(st["Rx"]), sc)
        return res, max(1.0, float(sc.max()))

    tol = TOL if tg is None else TOL_X

    def compare(got_by_ep, kind, which_tensor, frot, labels, inputs, rep_axis):
        """got_by_ep: {ep: {label: array}}; returns number of mismatching entries."""
        bad = 0
        eps_expected = {ep for ep, (o, e) in tens.items() if (which_tensor == 0 or e is not None)}
        if set(got_by_ep) != eps_expected:
            out["viol"].append((f"C43/{form}/{kind}/keys", f"{kind}: evolution points {sorted(got_by_ep)} != {sorted(eps_expected)}", wit))
            return 1
        for ep in eps_expected:
            want, sc = expect(tens[ep][which_tensor], frot, inputs)
            got = got_by_ep[ep]
            if list(got.keys()) != list(labels):
                out["viol"].append((f"C43/{form}/{kind}/labels", f"{kind}: labels {list(got.keys())} != {list(labels)}", wit))
                return 1
            for a, lab in enumerate(labels):
                g = np.asarray(got[lab], dtype=float)
                w = want[:, a, :] if rep_axis else want[0, a, :]
                if g.shape != w.shape:
                    out["viol"].append((f"C43/{form}/{kind}/shape", f"{kind}: label {lab} has shape {g.shape}, expected {w.shape}", wit))
                    return 1
                d = float(np.abs(g - w).max()) / sc
                if not d <= tol:
                    bad += 1
                    cls = "smallx-grid" if tvar == "smallx" else ("targetgrid" if tg is not None else "plain")
                    rcls = ("unified" if qed else "evol") if (frot is not None and form.startswith("apply_pdf") and form != "apply_pdf_flavor") else ("custom-rot" if frot is not None else "norot")
                    out["viol"].append(
                        (
                            f"C43/{form}/{kind}/{rcls}/{cls}",
                            f"{form} {kind}: label {lab} at ep {ep} differs from the harness contraction by {d:.3e} (rel)",
                            dict(wit, ep=list(ep), label=int(lab), got=g, want=w, rel_diff=d),
                        )
                    )
                    return bad
        return bad

    d = scratch.mkdtemp()
    try:
        with warnings.catch_warnings():
            warnings.simplefilter("ignore")
            with synth_f.open_eko(pathlib.Path(d) / "e.tar", th_raw, op_raw, tens, log=log, mode=mode) as eko:
                # the interpolation basis is the one the EKO object declares for its grid
                log_eff = bool(eko.xgrid.log)
                out["hits"]["grid_log" if log_eff else "grid_linear"] = 1
                if not np.array_equal(np.asarray(eko.xgrid.raw), xg):
                    out["viol"].append((f"C43/{form}/xgrid-changed", "eko.xgrid differs from the grid of the card", wit))
                if tg is not None:
                    st["Rx"] = interp_f.matrix_float(tg, xg, deg, log_eff)
                tg_arg = None if tg is None else (tg.tolist() if rng.random() < 0.5 else np.array(tg))
                nbad = 0
                if form == "apply_pdf":
                    pdfs, errs = apply.apply_pdf(eko, pdf, targetgrid=tg_arg, rotate_to_evolution_basis=rotate)
                    frot = rot if rotate else None
                    labels = labels_rot if rotate else synth_f.FLAVOR_PIDS
                    nbad += compare(pdfs, "pdf", 0, frot, labels, F[None], False)
                    out["hits"]["contraction"] = 1
                    nbad += compare(errs, "error", 1, frot, labels, F[None], False)
                    if any(e is not None for _, e in tens.values()):
                        out["hits"]["errors"] = 1
                    if rotate:
                        out["hits"]["rotation_unified" if qed else "rotation_evol"] = 1
                    # the PDF must be asked at the initial scale only, on the grid only, never for a missing flavour
                    q2s = {c[2] for c in pdf.calls}
                    if any(abs(q - mu20) > 1e-12 * mu20 for q in q2s):
                        out["viol"].append((f"C43/{form}/scale", f"input PDF evaluated at Q2={sorted(q2s)[:3]} instead of mu0^2={mu20}", wit))
                        nbad += 1
                elif form == "apply_pdf_flavor":
                    # custom labels and custom rotation (possibly non-square: fewer output combinations)
                    nrow = int(rng.integers(1, 15))
                    crot = rng.normal(size=(nrow, 14)) if rotate else None
                    labels = [int(v) for v in rng.choice(np.arange(300, 400), size=nrow if rotate else 14, replace=False)]
                    pdfs, errs = apply.apply_pdf_flavor(eko, pdf, labels, targetgrid=tg_arg, flavor_rotation=crot)
                    nbad += compare(pdfs, "pdf", 0, crot, labels, F[None], False)
                    nbad += compare(errs, "error", 1, crot, labels, F[None], False)
                    out["hits"]["contraction"] = 1
                    if rotate:
                        out["hits"]["custom_rotation"] = 1
                else:
                    nrep = int(rng.integers(1, 4))
                    G = rng.normal(size=(nrep, 14, nx))
                    G0 = G.copy()
                    grids, gerrs = apply.apply_grids(eko, G)
                    out["hits"]["apply_grids"] = 1
                    # raw results first
                    for which, res in ((0, grids), (1, gerrs)):
                        exp_eps = {ep for ep, t in tens.items() if which == 0 or t[1] is not None}
                        if set(res) != exp_eps:
                            out["viol"].append((f"C43/apply_grids/keys", f"apply_grids keys {sorted(res)} != {sorted(exp_eps)}", wit))
                            nbad += 1
                            continue
                        for ep in exp_eps:
                            want = np.einsum("ajbk,rbk->raj", tens[ep][which], G0)
                            sc = max(1.0, float(np.einsum("ajbk,rbk->raj", np.abs(tens[ep][which]), np.abs(G0)).max()))
                            got = np.asarray(res[ep])
                            dd = float(np.abs(got - want).max()) / sc if got.shape == want.shape else np.inf
                            if not dd <= TOL:
                                out["viol"].append((f"C43/apply_grids/{'pdf' if which == 0 else 'error'}", f"apply_grids differs from the contraction by {dd:.3e}", dict(wit, ep=list(ep), rel_diff=dd)))
                                nbad += 1
                                break
                    if not np.array_equal(G, G0):
                        out["viol"].append(("C43/apply_grids/input-mutated", "input grids modified in place", wit))
                        nbad += 1
                    nrow = int(rng.integers(1, 15))
                    crot = rng.normal(size=(nrow, 14)) if rotate else None
                    labels = [int(v) for v in rng.choice(np.arange(300, 400), size=nrow if rotate else 14, replace=False)]
                    rr = apply.rotate_result(eko, grids, labels, tg_arg, crot)
                    nbad += compare(rr, "pdf", 0, crot, labels, G0, True)
                    if rotate:
                        out["hits"]["custom_rotation"] = 1
                    # wrong shapes must be refused
                    try:
                        apply.apply_grids(eko, rng.normal(size=(14, nx)))
                        out["viol"].append(("C43/apply_grids/shape-accepted", "2D input accepted", wit))
                        nbad += 1
                    except ValueError:
                        pass
                if tg is not None:
                    out["hits"]["targetgrid"] = 1
                    if tvar == "smallx" and tg_changed:
                        out["hits"]["targetgrid_smallx"] = 1
                out["sample"] = dict(form=form, qed=qed, rotate=rotate, tvar=tvar, nx=nx, degree=deg, targets=len(mugrid), missing=nmiss, mismatches=nbad)
                if nbad == 0:
                    out["ok"] = 1
    except Exception as e:  # applying a valid EKO to a valid PDF must not raise
        import traceback

        out["viol"].append((f"C43/{form}/raises", f"{form} raised {type(e).__name__}: {e}", dict(wit, tb=traceback.format_exc()[-600:])))
    finally:
        import shutil

        shutil.rmtree(d, ignore_errors=True)
    return out


def _safe(a):
    try:
        return _case(a)
    except Exception as e:  # a harness failure is never a verdict
        import traceback

        return dict(key=("harness-error", a[1]), nontrivial=False, hits={}, viol=[], ok=0,
                    inc=[f"harness error {type(e).__name__}: {e} {traceback.format_exc()[-300:]}"])


def _chunk(args):
    return [_safe(a) for a in args]


def _merge(ck, rec):
    ck.case(rec["key"], nontrivial=rec.get("nontrivial", False), sample=rec.get("sample"))
    for k, v in rec["hits"].items():
        ck.hit(k, v)
    for key, what, wit in rec["viol"]:
        ck.violation(key, what, dict(wit, seed=ck.seed))
    for why in rec["inc"]:
        ck.inconclusive(why)
    if rec["ok"] and not rec["viol"]:
        ck.ok()


def run(ck):
    n = ck.n(240, 5000)
    items = [(ck.seed, i) for i in range(n)]
    size = 20 if ck.quick else 100
    chunks = [items[k : k + size] for k in range(0, len(items), size)]
    for chunk, st, val in jobs.pmap(_chunk, chunks, timeout=ck.n(900, 3000)):
        if st != "ok":
            for _ in chunk:
                ck.case(None, nontrivial=False)
                ck.inconclusive(f"worker {st}: {str(val)[:200]}")
            continue
        for rec in val:
            _merge(ck, rec)


def replay(ck, rep):
    w = rep["witness"]
    _merge(ck, _case((w.get("seed", rep.get("seed", 0)), w["index"])))
    ck.min_nontrivial = 0
    ck.meta = dict(ck.meta, required_hits=[])
