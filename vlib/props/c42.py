"""C42: reshaping an operator (flavour rotation, x-grid re-interpolation) commutes with applying it."""

import warnings

import numpy as np

from .. import jobs
from ..oracles import flavor_f, interp_f

META = dict(
    level="exploration",
    design_ref="DESIGN.md §5 C42",
    technique="reference-model monitor on manipulate.flavor_reshape/to_evol/to_uni_evol/xgrid_reshape: harness einsum with own rotation matrices (FlavorSpace.rst) and own mpmath Lagrange interpolation (Interpolation.rst); polynomial-exactness oracle",
    level_text="Randomised exploration: every call of the real reshaping functions on random non-commuting operators is compared (a) through its action on a full random basis of inputs with R_out·(O f) and (b) for x-grids against exact evaluation of polynomials of degree <= interpolation degree and against an independent 30-digit Lagrange matrix. Holds on the executions observed only.",
    level_note="Trusted base: numpy einsum/linalg in the harness, mpmath, my transcription of the basis definitions and of the block-selection rule from the docs. Error tensors are required to transform with the same linear map as the operator (library-wide convention, cf. ekobox.apply).",
    rule="case = (kind, sides, grid size, degree, log, variant, index); non-trivial = rotation differs from identity by > 0.1 (flavour) or new grid differs from the operator grid in at least one node (x-grid) and the operator is a dense random tensor",
    min_nontrivial=60,
    required_hits=["flavor_action", "xgrid_poly_exact", "xgrid_matrix", "xgrid_smallx"],
    max_inconclusive_frac=0.05,
)
META["level_text"] += ' One-sided rotations pass an explicit identity for the untouched side in half of the cases; new grids are listed in descending order in a fifth of the cases.'

TOL_FLAV = 1e-11
TOL_POLY = 1e-9
TOL_MAT = 1e-8


def _rand_invertible(rng, n=14):
    kind = rng.integers(4)
    for _ in range(50):
        if kind == 0:
            m = rng.normal(size=(n, n))
        elif kind == 1:  # sparse small-integer matrix, like the physical ones
            m = rng.integers(-3, 4, size=(n, n)).astype(float) * (rng.random((n, n)) < 0.35)
            m += np.diag(rng.integers(1, 4, size=n))
        elif kind == 2:  # permutation times scaling
            m = np.eye(n)[rng.permutation(n)] * rng.uniform(0.5, 2.0, size=n)
        else:  # block: rotate a random subset only
            m = np.eye(n)
            idx = rng.choice(n, size=int(rng.integers(2, 6)), replace=False)
            m[np.ix_(idx, idx)] = rng.normal(size=(len(idx), len(idx)))
        if np.linalg.matrix_rank(m) == n and np.linalg.cond(m) < 100:
            return m
    return np.eye(n) + 0.3 * rng.normal(size=(n, n)) / np.sqrt(n)


def _flavor_case(i, rng):
    from eko.io import manipulate
    from eko.io.struct import Operator

    out = dict(hits={}, viol=[], inc=[], ok=0)
    mode = ["generic", "to_evol", "to_uni_evol"][i % 3]
    sides = ["in", "out", "both"][(i // 3) % 3]
    nx = int(rng.integers(2, 6))
    O = rng.normal(size=(14, nx, 14, nx))
    with_err = bool(rng.random() < 0.5)
    E = np.abs(rng.normal(size=O.shape)) * 1e-3 if with_err else None
    O0 = O.copy()
    E0 = None if E is None else E.copy()
    elem = Operator(operator=O, error=E)
    r_in = r_out = None
    with warnings.catch_warnings():
        warnings.simplefilter("ignore")
        if mode == "generic":
            if sides in ("in", "both"):
                r_in = _rand_invertible(rng)
            if sides in ("out", "both"):
                r_out = _rand_invertible(rng)
            # a caller that always passes both matrices hands over an explicit identity for the untouched side
            explicit_id = bool(rng.random() < 0.5)
            r_in_arg = (np.eye(14) if explicit_id else None) if r_in is None else r_in.copy()
            r_out_arg = (np.eye(14) if explicit_id else None) if r_out is None else r_out.copy()
            if explicit_id and sides != "both":
                out["hits"]["explicit_identity_side"] = 1
            res = manipulate.flavor_reshape(elem, targetpids=r_out_arg, inputpids=r_in_arg)
        else:
            mat = flavor_f.evol_matrix() if mode == "to_evol" else flavor_f.uni_matrix()
            fn = manipulate.to_evol if mode == "to_evol" else manipulate.to_uni_evol
            if sides in ("in", "both"):
                r_in = mat
            if sides in ("out", "both"):
                r_out = mat
            res = fn(elem, source=sides in ("in", "both"), target=sides in ("out", "both"))
    dist = max(0.0 if r is None else float(np.abs(r - np.eye(14)).max()) for r in (r_in, r_out))
    key = ("flavor", mode, sides, nx, with_err, i)
    out["key"] = key
    out["nontrivial"] = dist > 0.1
    wit = dict(kind="flavor", mode=mode, sides=sides, nx=nx, with_err=with_err, index=i)

    # --- oracle: action on a complete random basis of inputs
    K = 14 * nx
    V = rng.normal(size=(14, nx, K))

    def check(T, Tnew, what):
        ref = np.einsum("ajbk,bkr->ajr", T, V)
        rhs = ref if r_out is None else np.einsum("ca,ajr->cjr", r_out, ref)
        Vin = V if r_in is None else np.einsum("bc,ckr->bkr", r_in, V)
        lhs = np.einsum("ajbk,bkr->ajr", Tnew, Vin)
        scale = max(1.0, float(np.abs(rhs).max()), float(np.abs(lhs).max()))
        return float(np.abs(lhs - rhs).max()) / scale

    out["hits"]["flavor_action"] = 1
    if res.operator.shape != (14, nx, 14, nx):
        out["viol"].append((f"C42/flavor/{mode}/shape", f"reshaped operator has shape {res.operator.shape}", wit))
        return out
    d = check(O0, res.operator, "operator")
    out["sample"] = dict(wit, rel_diff=d, rot_dist=dist)
    if not d <= TOL_FLAV:
        out["viol"].append(
            (
                f"C42/flavor/{mode}/{sides}",
                f"{mode}({sides}): reshape(O)·(R_in f) differs from R_out·(O f) by {d:.3e} (rel)",
                dict(wit, rel_diff=d),
            )
        )
    else:
        out["ok"] += 1
    # error tensor: present iff present, same linear map
    if with_err:
        out["hits"]["flavor_error"] = 1
        if res.error is None:
            out["viol"].append((f"C42/flavor/{mode}/error-lost", "error tensor dropped by the rotation", wit))
        else:
            de = check(E0, res.error, "error")
            if not de <= TOL_FLAV:
                out["viol"].append(
                    (f"C42/flavor/{mode}/error", f"error tensor not transformed like the operator: {de:.3e}", dict(wit, rel_diff=de))
                )
    elif res.error is not None:
        out["viol"].append((f"C42/flavor/{mode}/error-invented", "error appeared from None", wit))
    # input must not be modified, result must not alias it
    out["hits"]["no_alias"] = 1
    if not np.array_equal(O, O0) or (with_err and not np.array_equal(E, E0)):
        out["viol"].append((f"C42/flavor/{mode}/input-mutated", "the input operator was modified in place", wit))
    if np.shares_memory(res.operator, O):
        out["viol"].append((f"C42/flavor/{mode}/alias", "result shares memory with the input", wit))
    return out


def _make_grid(rng, n, log, lo):
    if log:
        u = np.linspace(np.log(lo), 0.0, n)
        h = u[1] - u[0]
        u[1:-1] += rng.uniform(-0.3, 0.3, size=n - 2) * h
        g = np.exp(u)
    else:
        g = np.linspace(lo, 1.0, n)
        h = g[1] - g[0]
        g[1:-1] += rng.uniform(-0.3, 0.3, size=n - 2) * h
    g[-1] = 1.0
    return g


def _new_grid(rng, g, log, variant, side):
    """A new grid inside (target) / covering (input) the range of g."""
    n = len(g)
    if variant == "same":
        return g.copy()
    if variant == "subset" and n > 4:
        keep = np.sort(rng.choice(np.arange(1, n - 1), size=int(rng.integers(2, n - 2)), replace=False))
        return np.concatenate([[g[0]], g[keep], [g[-1]]])
    if variant == "superset":
        mids = np.sqrt(g[:-1] * g[1:]) if log else 0.5 * (g[:-1] + g[1:])
        take = mids[rng.random(n - 1) < 0.6]
        return np.unique(np.concatenate([g, take]))
    if variant == "smallx":
        new = g.copy()
        small = np.where(g < 1e-7)[0]
        # move the small nodes by an O(1) factor but by less than 1e-8 in absolute terms
        for j in small:
            lo = g[j - 1] * 1.05 if j > 0 else g[0] * (1.0 if side == "target" else 0.1)
            hi = min(g[j + 1] * 0.95, 1e-7, g[j] + 0.9e-8)
            lo = max(lo, g[j] - 0.9e-8, 1e-12)
            if j == 0 and side == "target":
                lo = g[0]
            if j == 0 and side == "input":
                hi = g[0]
            for _ in range(20):
                cand = float(np.exp(rng.uniform(np.log(lo), np.log(hi)))) if hi > lo else g[j]
                if abs(np.log(cand / g[j])) > 0.3:
                    new[j] = cand
                    break
        if side == "target":
            new[0] = max(new[0], g[0])
        # keep the new grid strictly increasing
        if np.all(np.diff(new) > 0):
            return new
        return g.copy()
    # random
    m = int(rng.integers(2, n + 4))
    lo = g[0] if side == "target" else g[0] * float(rng.choice([1.0, 0.5, 0.1]))
    new = _make_grid(rng, max(m, 2), log, lo)
    if side == "target" and rng.random() < 0.5 and m > 2:
        # share some nodes with the old grid and do not necessarily reach 1
        new[1] = g[1]
        new = np.unique(new)
        if rng.random() < 0.5:
            new = new[:-1] if len(new) > 2 else new
    return new


def _xgrid_case(i, rng):
    from eko import interpolation
    from eko.io import manipulate
    from eko.io.struct import Operator

    out = dict(hits={}, viol=[], inc=[], ok=0)
    log = bool(rng.random() < 0.7)
    n = int(rng.integers(4, 11))
    deg = int(rng.integers(1, min(4, n - 1) + 1))
    which = ["target", "input", "both"][i % 3]
    variant = ["random", "smallx", "subset", "superset", "random", "smallx", "same", "random"][(i // 3) % 8]
    if variant == "smallx":
        log = True
        lo = float(10 ** rng.uniform(-9.0, -8.2))
        n = max(n, 6)
    else:
        lo = float(10 ** rng.uniform(-7, -1.5)) if log else float(rng.uniform(1e-3, 0.3))
    g = _make_grid(rng, n, log, lo)
    if variant == "smallx":
        # make sure two nodes sit below 1e-7
        g[1] = min(g[1], float(10 ** rng.uniform(-7.9, -7.3)))
        g = np.unique(g)
        n = len(g)
        deg = min(deg, n - 1)
    tg = _new_grid(rng, g, log, variant, "target") if which in ("target", "both") else None
    ig = _new_grid(rng, g, log, variant, "input") if which in ("input", "both") else None
    # the new grids must support the degree (input grid builds its own basis)
    if ig is not None and len(ig) <= deg:
        deg = len(ig) - 1
    if deg < 1:
        out["key"] = ("xgrid", "degenerate", i)
        out["nontrivial"] = False
        return out
    na = int(rng.choice([1, 2, 3, 14]))
    xg = interpolation.XGrid(g, log=log)
    u = np.log(g) if log else g.copy()
    # operator whose output is a polynomial of degree <= deg in u (per input index)
    C = rng.normal(size=(na, deg + 1, na, n))
    us = max(1.0, float(np.abs(u).max()))
    C /= us ** np.arange(deg + 1)[None, :, None, None]  # keep the terms O(1)
    Opoly = np.einsum("ambk,jm->ajbk", C, u[:, None] ** np.arange(deg + 1)[None, :])
    Ornd = rng.normal(size=(na, n, na, n))
    with_err = bool(rng.random() < 0.4)
    Ernd = np.abs(rng.normal(size=Ornd.shape)) * 1e-3 if with_err else None
    # polynomial inputs f_b
    Fc = rng.normal(size=(na, deg + 1)) / us ** np.arange(deg + 1)[None, :]

    # the new grids are sets of nodes: a caller may list them in descending order (e.g. np.geomspace(1, xmin, n))
    desc = bool(rng.random() < 0.2)
    if desc:
        out["hits"]["new_grid_listed_descending"] = 1
    tgx = None if tg is None else interpolation.XGrid(np.asarray(tg)[::-1].copy() if desc else tg, log=log)
    igx = None if ig is None else interpolation.XGrid(np.asarray(ig)[::-1].copy() if desc else ig, log=log)
    changed = any(x is not None and (len(x) != n or not np.array_equal(x, g)) for x in (tg, ig))
    key = ("xgrid", which, variant, n, deg, log, na, i)
    out["key"] = key
    out["nontrivial"] = bool(changed)
    wit = dict(
        kind="xgrid", which=which, variant=variant, degree=deg, log=log, index=i,
        xgrid=g.tolist(), targetgrid=None if tg is None else tg.tolist(), inputgrid=None if ig is None else ig.tolist(),
    )
    O0 = Opoly.copy()
    with warnings.catch_warnings():
        warnings.simplefilter("ignore")
        try:
            rp = manipulate.xgrid_reshape(Operator(Opoly), xg, deg, targetgrid=tgx, inputgrid=igx)
            rr = manipulate.xgrid_reshape(Operator(Ornd.copy(), None if Ernd is None else Ernd.copy()), xg, deg, targetgrid=tgx, inputgrid=igx)
        except Exception as e:  # reshaping a valid operator to a valid grid must not raise
            out["viol"].append((f"C42/xgrid/{which}/raises", f"xgrid_reshape raised {type(e).__name__}: {e}", wit))
            return out
    n_out = n if tg is None else len(tg)
    n_in = n if ig is None else len(ig)
    if rp.operator.shape != (na, n_out, na, n_in):
        out["viol"].append((f"C42/xgrid/{which}/shape", f"shape {rp.operator.shape} != {(na, n_out, na, n_in)}", wit))
        return out
    sfx = "allclose-small-x" if variant == "smallx" else variant
    if variant == "smallx" and changed:
        out["hits"]["xgrid_smallx"] = 1

    # --- oracle 1: polynomials of degree <= deg are reproduced exactly
    out_nodes = g if tg is None else tg
    in_nodes = g if ig is None else ig
    F_old = np.array([interp_f.poly_values(Fc[b], g, log) for b in range(na)])  # (b,k)
    F_new = np.array([interp_f.poly_values(Fc[b], in_nodes, log) for b in range(na)])  # (b,l)
    coef_out = np.einsum("ambk,bk->am", C, F_old)  # output polynomial coefficients per a
    want = np.array([interp_f.poly_values(coef_out[a], out_nodes, log) for a in range(na)])  # (a,i)
    got = np.einsum("aibl,bl->ai", rp.operator, F_new)
    uo = np.log(out_nodes) if log else np.asarray(out_nodes)
    scale = max(1.0, float(np.einsum("am,im->ai", np.abs(coef_out), np.abs(uo[:, None]) ** np.arange(deg + 1)[None, :]).max()))
    scale = max(scale, float(np.abs(rp.operator).sum(axis=(2, 3)).max() * np.abs(F_new).max()))
    d1 = float(np.abs(got - want).max()) / scale
    out["hits"]["xgrid_poly_exact"] = 1
    out["sample"] = dict(which=which, variant=variant, n=n, degree=deg, log=log, rel_diff_poly=d1)
    if not d1 <= TOL_POLY:
        out["viol"].append(
            (
                f"C42/xgrid/{which}/{sfx}/poly",
                f"xgrid_reshape({which}, {variant}): evolved polynomial at the new nodes differs from direct evaluation by {d1:.3e} (rel)",
                dict(wit, rel_diff=d1, got=got, want=want),
            )
        )
    else:
        out["ok"] += 1

    # --- oracle 2: the documented interpolation matrices
    Rt = None if tg is None else interp_f.matrix_float(tg, g, deg, log)  # (i,j)
    Ri = None if ig is None else interp_f.matrix_float(g, ig, deg, log)  # (k,l)

    def ref(T):
        if Rt is not None:
            T = np.einsum("ij,ajbk->aibk", Rt, T)
        if Ri is not None:
            T = np.einsum("ajbk,kl->ajbl", T, Ri)
        return T

    want2 = ref(Ornd)
    sc2 = max(1.0, float(np.abs(want2).max()), float(np.abs(rr.operator).max()))
    d2 = float(np.abs(rr.operator - want2).max()) / sc2
    out["hits"]["xgrid_matrix"] = 1
    if not d2 <= TOL_MAT:
        out["viol"].append(
            (
                f"C42/xgrid/{which}/{sfx}/matrix",
                f"xgrid_reshape({which}, {variant}) differs from the documented Lagrange re-interpolation by {d2:.3e} (rel)",
                dict(wit, rel_diff=d2),
            )
        )
    else:
        out["ok"] += 1
    if with_err:
        out["hits"]["xgrid_error"] = 1
        if rr.error is None:
            out["viol"].append((f"C42/xgrid/{which}/error-lost", "error tensor dropped", wit))
        else:
            w3 = ref(Ernd)
            d3 = float(np.abs(rr.error - w3).max()) / max(1.0, float(np.abs(w3).max()))
            if not d3 <= TOL_MAT:
                out["viol"].append((f"C42/xgrid/{which}/{sfx}/error", f"error tensor not re-interpolated like the operator: {d3:.3e}", dict(wit, rel_diff=d3)))
    elif rr.error is not None:
        out["viol"].append((f"C42/xgrid/{which}/error-invented", "error appeared from None", wit))
    out["hits"]["no_alias"] = 1
    if not np.array_equal(Opoly, O0):
        out["viol"].append((f"C42/xgrid/{which}/input-mutated", "the input operator was modified in place", wit))
    if np.shares_memory(rp.operator, Opoly):
        out["viol"].append((f"C42/xgrid/{which}/alias", "result shares memory with the input", wit))
    return out


def _one(arg):
    seed, kind, i = arg
    rng = np.random.default_rng([seed, 42, 0 if kind == "flavor" else 1, i])
    return _flavor_case(i, rng) if kind == "flavor" else _xgrid_case(i, rng)


def _chunk(args):
    return [_one(a) for a in args]


def _merge(ck, rec):
    if "key" not in rec:
        return
    ck.case(rec["key"], nontrivial=rec.get("nontrivial", False), sample=rec.get("sample"))
    for k, v in rec["hits"].items():
        ck.hit(k, v)
    for key, what, wit in rec["viol"]:
        ck.violation(key, what, dict(wit, seed=ck.seed))
    for why in rec["inc"]:
        ck.inconclusive(why)
    if rec["ok"] and not rec["viol"]:
        ck.ok()


def run(ck):
    nfl = ck.n(150, 4000)
    nxg = ck.n(240, 6000)
    items = [(ck.seed, "flavor", i) for i in range(nfl)] + [(ck.seed, "xgrid", i) for i in range(nxg)]
    size = 30 if ck.quick else 200
    chunks = [items[k : k + size] for k in range(0, len(items), size)]
    for chunk, st, val in jobs.pmap(_chunk, chunks, timeout=ck.n(900, 3000)):
        if st != "ok":
            for _ in chunk:
                ck.case(None, nontrivial=False)
                ck.inconclusive(f"worker {st}: {str(val)[:200]}")
            continue
        for rec in val:
            _merge(ck, rec)


def replay(ck, rep):
    w = rep["witness"]
    rec = _one((w.get("seed", rep.get("seed", 0)), w["kind"], w["index"]))
    _merge(ck, rec)
    ck.min_nontrivial = 0
    ck.meta = dict(ck.meta, required_hits=[])
