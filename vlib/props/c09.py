"""C09: singlet solutions reduce to the non-singlet ones for diagonal (commuting) towers."""

import math

import numpy as np

from .. import jobs
from ..oracles import pathord as po

META = dict(
    level="exploration",
    design_ref="DESIGN.md §5 C09",
    technique="differential monitor: singlet dispatcher on diagonal towers vs the non-singlet dispatcher entry by entry, all eight methods; rounding-level equality, iteration-convergence ratio, truncation decrease, working-order slope",
    level_text="Randomised exploration over diagonal complex towers with distinct eigenvalues, orders 2-4, nf 3-6, both coupling orderings, all eight methods. The two code paths (2x2 projector algebra vs scalar formulas) are independent implementations of the same documented solution, so a wrong coefficient/argument in either shows as a disagreement. Nothing is claimed for inputs not generated.",
    level_note="Reference side = the repository's own non-singlet kernels (second implementation; separately monitored against quadrature by C07/C08). The only outside ingredient is the noise-floor/slope logic of vlib/oracles/pathord.py.",
    rule="case = (method, order, nf, diagonal tower, coupling pair); distinct by construction; non-trivial = both diagonal entries of every gamma_k differ by >5% of the norm, |a1/a0-1|>5%, complex entries",
    min_nontrivial=150,
    required_hits=["offdiag_zero", "diag_equals_ns_rounding", "iterate_ratio", "perturbative_decrease", "ordered_truncated_slope"],
    max_inconclusive_frac=0.05,
)

LAMS = [2.0**-k for k in range(11)]
SLACK = 0.25
TOL_ROUND = 1e-12
ROUNDING_METHODS = {"DECOMPOSE_EXACT": "DECOMPOSE_EXACT", "DECOMPOSE_EXPANDED": "DECOMPOSE_EXPANDED", "TRUNCATED": "TRUNCATED", "ORDERED_TRUNCATED": "TRUNCATED"}


def _rel(k, r):
    return abs(k - r) / (abs(r) * (1.0 + abs(np.log(r))))


def _chunk(arg):
    seed, cid, nbase = arg
    from eko.kernels import EvoMethods as EM
    from eko.kernels import non_singlet as ns
    from eko.kernels import singlet as s

    rng = np.random.default_rng([seed, 9, cid])
    out = []

    def S(method, n, nf, gam, a0, a1, it=1, M=10):
        return s.dispatcher((n, 0), EM[method], gam.copy(), a1, a0, nf, it, (M, 0))

    def NS(method, n, nf, g, a0, a1):
        return ns.dispatcher((n, 0), EM[method], g.copy(), a1, a0, nf)

    for _ in range(nbase):
        n = int(rng.integers(2, 5))
        nf = int(rng.integers(3, 7))
        a0 = float(rng.uniform(0.002, 0.05))
        r = float(rng.uniform(1.2, 4.0))
        a1 = a0 * r if (rng.random() < 0.5 and a0 * r < 0.055) else a0 / r
        gam = po.tower(rng, n, diagonal=True)
        sep = min(abs(g[0, 0] - g[1, 1]) / np.linalg.norm(g) for g in gam)
        nontriv = bool(sep > 0.05 and abs(a1 / a0 - 1) > 0.05)
        base = dict(n=n, nf=nf, a0=a0, a1=a1, gam=gam, nontrivial=nontriv, cid=cid)
        gd = [gam[:, j, j].copy() for j in range(2)]

        # ---- methods that must agree with NS to rounding (+ ordered-truncated vs NS truncated)
        for m, nsm in ROUNDING_METHODS.items():
            k = S(m, n, nf, gam, a0, a1)
            refs = [NS(nsm, n, nf, gd[j], a0, a1) for j in range(2)]
            dev = max(_rel(k[j, j], refs[j]) for j in range(2))
            off = max(abs(k[0, 1]), abs(k[1, 0])) / np.linalg.norm(k)
            out.append(dict(base, kind="rounding", method=m, ns_method=nsm, dev=float(dev), off=float(off), K=k, refs=refs))

        # ---- ordered-truncated vs NS ordered-truncated: working order only
        ds, fl = [], []
        j = int(rng.integers(2))
        for lam in LAMS:
            k = S("ORDERED_TRUNCATED", n, nf, gam, lam * a0, lam * a1)[j, j]
            ref = NS("ORDERED_TRUNCATED", n, nf, gd[j], lam * a0, lam * a1)
            ds.append(float(abs(k - ref)))
            fl.append(100.0 * 2e-15 * abs(ref) * (1 + abs(np.log(ref))))
        out.append(dict(base, kind="otslope", method="ORDERED_TRUNCATED", deltas=ds, floors=fl, entry=j))

        # ---- iterate-*: discretised path ordering converging to the exact NS kernel like 1/iter^2
        for m in ("ITERATE_EXACT", "ITERATE_EXPANDED"):
            refs = [NS("ITERATE_EXACT", n, nf, gd[j], a0, a1) for j in range(2)]
            errs, off = [], 0.0
            for it in (20, 80):
                k = S(m, n, nf, gam, a0, a1, it=it)
                errs.append(float(max(_rel(k[j, j], refs[j]) for j in range(2))))
                off = max(off, max(abs(k[0, 1]), abs(k[1, 0])) / np.linalg.norm(k))
            out.append(dict(base, kind="iterate", method=m, errs=errs, off=float(off)))

        # ---- perturbative-*: truncation of U at max_order, converging to NS exact / expanded
        for m, nsm in (("PERTURBATIVE_EXACT", "PERTURBATIVE_EXACT"), ("PERTURBATIVE_EXPANDED", "PERTURBATIVE_EXPANDED")):
            refs = [NS(nsm, n, nf, gd[j], a0, a1) for j in range(2)]
            errs, off = [], 0.0
            for M in (3, 6, 10):
                k = S(m, n, nf, gam, a0, a1, it=10, M=M)
                errs.append(float(max(_rel(k[j, j], refs[j]) for j in range(2))))
                off = max(off, max(abs(k[0, 1]), abs(k[1, 0])) / np.linalg.norm(k))
            out.append(dict(base, kind="perturbative", method=m, errs=errs, off=float(off)))
    return out


def _wit(r, **kw):
    w = dict(method=r["method"], order=[r["n"], 0], nf=r["nf"], a0=r["a0"], a1=r["a1"], gamma_diag=[r["gam"][:, 0, 0], r["gam"][:, 1, 1]])
    w.update(kw)
    return w


def _register(ck, r):
    m, n = r["method"], r["n"]
    mk = m.lower().replace("_", "-")
    ident = (r["kind"], m, n, r["nf"], r["cid"], round(r["a0"], 12), round(r["a1"], 12))
    amax = max(r["a0"], r["a1"])
    eps = np.finfo(float).eps
    if r["kind"] == "rounding":
        ck.case(ident, nontrivial=r["nontrivial"], sample=dict(method=m, order=n, nf=r["nf"], a0=r["a0"], a1=r["a1"], rel_dev_vs_ns=r["dev"], offdiag=r["off"]))
        ck.hit("offdiag_zero")
        ck.hit("diag_equals_ns_rounding")
        bad = False
        if r["off"] > 4 * eps:
            bad = True
            ck.violation(f"C09/{mk}/order{n}/offdiag", f"singlet {m} order {n} on a diagonal tower has off-diagonal entries {r['off']:.2e}", _wit(r, K=r["K"]))
        if not (r["dev"] <= TOL_ROUND):
            bad = True
            ck.violation(
                f"C09/{mk}/order{n}",
                f"singlet {m} order {n}: diagonal entries differ from non-singlet {r['ns_method']} by {r['dev']:.2e} (rounding-level agreement expected)",
                _wit(r, ns_method=r["ns_method"], K_diag=[r["K"][0, 0], r["K"][1, 1]], ns=r["refs"], rel_dev=r["dev"], tol=TOL_ROUND),
            )
        if not bad:
            ck.ok()
    elif r["kind"] == "otslope":
        ck.case(ident, nontrivial=r["nontrivial"], sample=None)
        ck.hit("ordered_truncated_slope")
        sl, nus = po.slope(LAMS, r["deltas"], r["floors"])
        if sl is None:
            if nus == 0:
                ck.ok()  # identical to rounding at every lambda
            else:
                ck.inconclusive(f"C09/ordered-truncated/order{n}/working-order: fewer than 3 points above the noise floor")
            return
        ok, expo = po.exponent_ok(sl, n, SLACK)
        if ok:
            ck.ok()
        else:
            ck.violation(
                f"C09/ordered-truncated/order{n}/working-order",
                f"singlet ordered-truncated vs non-singlet ordered-truncated differ like lambda^{expo:.2f} < {n}-{SLACK}",
                _wit(r, entry=r["entry"], lambdas=LAMS, deltas=r["deltas"], floors=r["floors"], slope=sl),
            )
    elif r["kind"] == "iterate":
        ck.case(ident, nontrivial=r["nontrivial"], sample=dict(method=m, order=n, err_iter20=r["errs"][0], err_iter80=r["errs"][1]))
        ck.hit("iterate_ratio")
        ck.hit("offdiag_zero")
        e20, e80 = r["errs"]
        bad = False
        if r["off"] > 4 * eps:
            bad = True
            ck.violation(f"C09/{mk}/order{n}/offdiag", f"singlet {m} order {n}: off-diagonal {r['off']:.2e} on a diagonal tower", _wit(r))
        if e20 <= 1e-12:
            pass  # already converged to rounding
        elif not (e20 >= 8.0 * max(e80, 1e-14)) or not (e80 <= 1e-3):
            bad = True
            ck.violation(
                f"C09/{mk}/order{n}",
                f"singlet {m} order {n}: distance to the exact non-singlet kernel {e20:.2e} (20 it.) -> {e80:.2e} (80 it.), ratio {e20 / max(e80, 1e-300):.1f} < 8",
                _wit(r, err_iter20=e20, err_iter80=e80),
            )
        if not bad:
            ck.ok()
    elif r["kind"] == "perturbative":
        ck.case(ident, nontrivial=r["nontrivial"], sample=dict(method=m, order=n, amax=amax, err_M3_6_10=r["errs"]))
        ck.hit("perturbative_decrease")
        ck.hit("offdiag_zero")
        e3, e6, e10 = r["errs"]
        bad = False
        if r["off"] > 4 * eps:
            bad = True
            ck.violation(f"C09/{mk}/order{n}/offdiag", f"singlet {m} order {n}: off-diagonal {r['off']:.2e} on a diagonal tower", _wit(r))
        floor = 1e-13
        dec = (e6 < e3 or e3 <= floor) and (e10 < e6 or e6 <= floor)
        small = e10 <= 1e-7 if amax <= 0.02 else True
        if not (dec and small):
            bad = True
            ck.violation(
                f"C09/{mk}/order{n}",
                f"singlet {m} order {n}: distance to non-singlet kernel for ev_op_max_order 3,6,10 = {e3:.2e},{e6:.2e},{e10:.2e} (must decrease; <=1e-7 at 10 for a<=0.02)",
                _wit(r, errs=r["errs"], amax=amax),
            )
        if not bad:
            ck.ok()


def run(ck):
    nbase = ck.n(45, 6000)
    per = ck.n(4, 30)
    chunks = [(ck.seed, cid, per) for cid in range(math.ceil(nbase / per))]
    for item, st, val in jobs.pmap(_chunk, chunks, timeout=ck.n(900, 7200)):
        if st != "ok":
            ck.case(("chunk", item[1]), nontrivial=False)
            ck.inconclusive(f"chunk {item[1]} {st}: {str(val)[:200]}")
            continue
        for r in val:
            _register(ck, r)
