"""C16: coupling threshold matching follows the decoupling relations."""

import warnings

import numpy as np

from ..jobs import pmap
from ..oracles import coupling_path as cp
from ..oracles import decoupling as dc
from ..oracles import literature as lit

META = dict(
    level="exploration",
    design_ref="DESIGN.md §5 C16",
    technique="reference-table + reference-model monitor: decoupling coefficients derived with sympy from RG invariance (constants from CKS 1997) against compute_matching_coeffs_up/down, and the ratio a_s(wall,nf+1)/a_s(wall,nf) / full threshold-crossing paths observed on Couplings.a against a walk-the-walls reference (ODE + derived decoupling)",
    level_text="Exhaustive over the finite coefficient table (2 schemes x nf 3..5 x up/down x 16 entries); randomised exploration of crossings: references in any patch with any nf_ref, targets in any patch with any nf_to, distinct matching ratios in [0.5,2] per quark, POLE/MSBAR, orders 1-4, exact/expanded.",
    level_note="Trusted base: the literature constants c20,c30 (exact and decimal transcriptions cross-checked), literature betas/gamma_m, sympy. MSBAR logarithms assume L=ln(mu^2/m_h(mu)^2) with the (nf+1)-flavour running mass (the convention that reproduces the code's c21 and the literature).",
    rule="table case = (scheme, nf, direction, n, l), non-trivial when the reference value is non-zero; crossing case = (scheme, order, method, nf_ref, wall, direction, rounded ratio and alpha_s), non-trivial when the order has a non-unit matching factor (|F-1| > 1e-6); path case = (scheme, order, nf_ref->nf_to, rounded scales), non-trivial when at least one wall is crossed",
    min_nontrivial=150,
    required_hits=["table_entry", "wall_ratio_up", "wall_ratio_down", "path_vs_ode", "path_vs_chain"],
    max_inconclusive_frac=0.05,
)

TOL_PATH = 3e-5  # Radau rtol 1e-6 per patch (observed <= 4e-7), several patches
DEC_TOL = 6e-4  # half-ulp of the 6-significant-digit decimal constants in the code (c30)


def _table_checks(ck):
    from eko import couplings as ec

    bad = lit.selfcheck() + dc.selfcheck()
    if bad:
        ck.inconclusive(f"oracle transcriptions disagree: {bad[:2]}")
        return False
    for scheme in ("POLE", "MSBAR"):
        for nf in (3, 4, 5):
            for direction, fn, orc in (
                ("up", ec.compute_matching_coeffs_up, dc.coupling_table_up),
                ("down", ec.compute_matching_coeffs_down, dc.coupling_table_down),
            ):
                try:
                    got = np.array(fn(scheme, nf), dtype=float)
                except Exception as e:
                    ck.case(("table", scheme, nf, direction))
                    ck.violation(f"C16/table/{scheme}/{direction}/raises", f"{fn.__name__}({scheme},{nf}) raised {type(e).__name__}: {e}", dict(scheme=scheme, nf=nf))
                    continue
                want = np.array(orc(scheme, nf))
                if got.shape != (4, 4):
                    ck.case(("table", scheme, nf, direction))
                    ck.violation(f"C16/table/{scheme}/{direction}/shape", f"table shape {got.shape}", dict(scheme=scheme, nf=nf))
                    continue
                for n in range(4):
                    for l in range(4):
                        w, g = want[n][l], got[n, l]
                        ck.hit("table_entry")
                        ck.case(("table", scheme, nf, direction, n, l), nontrivial=w != 0.0, sample=dict(scheme=scheme, nf=nf, direction=direction, n=n, l=l, code=g, rg_derived=w) if (n, l) == (3, 1) else None)
                        tol = DEC_TOL if (n, l) == (3, 0) else 1e-11 * max(1.0, abs(w))
                        if abs(g - w) > tol:
                            ck.violation(
                                f"C16/table/{scheme}/{direction}/c{n}{l}",
                                f"{scheme} {direction} nf={nf}: c[{n},{l}]={g!r} but RG invariance + literature constants give {w!r}",
                                dict(scheme=scheme, nf=nf, direction=direction, n=n, l=l, code=g, expected=w, diff=g - w),
                            )
                        else:
                            ck.ok()
    return True


def _alphas_at(mu, rng):
    """A physical-looking alpha_s(mu) (LO running from 0.118 at 91.2 GeV, nf=5) with jitter."""
    b0 = 23 / 3
    a = 0.118 / 4 / np.pi
    a_mu = a / (1 + b0 * a * np.log(mu**2 / 91.2**2))
    return float(np.clip(a_mu * 4 * np.pi * np.exp(rng.uniform(-0.15, 0.1)), 0.07, 0.34))


def _gen(rng, force=None):
    m = np.array([1.51, 4.92, 172.5]) * np.exp(rng.uniform(-0.1, 0.1, 3))
    ratios = np.exp(rng.uniform(np.log(0.5), np.log(2.0), 3))
    if rng.integers(0, 6) == 0:
        ratios[int(rng.integers(0, 3))] = 1.0
    p = dict(
        scheme=str(rng.choice(["POLE", "MSBAR"])),
        order=(int(rng.integers(1, 5)), 0 if rng.integers(0, 5) else int(rng.integers(1, 3))),
        method=str(rng.choice(["exact", "expanded"])),
        masses2=(m**2).tolist(),
        ratios=ratios.tolist(),
        mu_ref=float(np.exp(rng.uniform(np.log(1.8), np.log(400.0)))),
    )
    if force:
        p.update(force)
    elif rng.integers(0, 5) == 0:
        # reference exactly on a matching scale (either nf side): zero-length first segment, and the
        # later queries on the same object must still depend on the path only
        k = int(rng.integers(0, 3))
        p["mu_ref"] = float(np.sqrt(p["masses2"][k]) * float(rng.uniform(0.98, 1.02)))
        p["ratios"][k] = 1.0 if rng.integers(0, 2) else p["ratios"][k]
        p["masses2"][k] = p["mu_ref"] ** 2 / p["ratios"][k]
    walls = [a * b for a, b in zip(p["masses2"], p["ratios"])]
    nfd = cp.nf_default(p["mu_ref"] ** 2, walls)
    # nf_ref: mostly the default one, sometimes a neighbour (allowed: the atlas then walks to the wall first)
    p["nf_ref"] = int(np.clip(nfd + rng.choice([0, 0, 0, -1, 1]), 3, 6))
    if force and "nf_ref" in force:
        p["nf_ref"] = force["nf_ref"]
    p["alphas"] = _alphas_at(p["mu_ref"], rng)
    p["alphaem"] = 0.007496
    p["wall"] = int(rng.integers(0, 3))  # which threshold is probed
    # path targets
    tg = []
    for _ in range(3):
        mu = float(np.exp(rng.uniform(np.log(1.6), np.log(2000.0))))
        nfd_t = cp.nf_default(mu**2, walls)
        nf_to = int(np.clip(nfd_t + rng.choice([0, 0, 0, -1, 1]), 3, 6))
        tg.append((mu, None if rng.integers(0, 4) == 0 else nf_to))
    p["targets"] = tg
    return p


def _eval(p):
    warnings.filterwarnings("ignore")
    np.seterr(all="ignore")
    out = dict(p=p, wall=None, paths=[], error=None)
    order = tuple(p["order"])
    try:
        sc = cp.make_couplings(p["alphas"], p["alphaem"], p["mu_ref"], p["nf_ref"], order, p["method"], False, p["masses2"], p["ratios"], p["scheme"])
    except Exception as e:
        out["error"] = f"constructor {type(e).__name__}: {e}"
        return out
    walls = [a * b for a, b in zip(p["masses2"], p["ratios"])]
    w = p["wall"]
    nf = 3 + w
    try:
        lo = sc.a(walls[w], nf)
        hi = sc.a(walls[w], nf + 1)
        out["wall"] = dict(nf=nf, lo=[float(lo[0]), float(lo[1])], hi=[float(hi[0]), float(hi[1])])
    except Exception as e:
        out["wall"] = dict(nf=nf, error=f"{type(e).__name__}: {e}")
    orc = cp.OracleCouplings(np.array(sc.a_ref, dtype=float), p["mu_ref"] ** 2, p["nf_ref"], order, False, p["masses2"], p["ratios"], p["scheme"])
    for mu, nf_to in p["targets"]:
        row = dict(mu=mu, nf_to=nf_to)
        try:
            got = sc.a(mu**2, nf_to)
            row["got"] = [float(got[0]), float(got[1])]
        except Exception as e:
            row["error"] = f"{type(e).__name__}: {e}"
            out["paths"].append(row)
            continue
        path = cp.walk(walls, (p["mu_ref"] ** 2, p["nf_ref"]), (mu**2, nf_to))
        row["path"] = [(float(a), float(b), int(n)) for a, b, n in path]
        if p["method"] == "exact":
            # reference: ODE inside the patches + derived decoupling; track perturbativity along the way
            a = np.array(sc.a_ref, dtype=float)
            amax, ok = a[0], True
            from ..oracles import rge_couplings as rg

            for k, (s0, s1, nfk) in enumerate(path):
                a, ok1 = rg.evolve_patch(a, nfk, order, False, s0, s1)
                ok = ok and ok1
                amax = max(amax, a[0]) if np.isfinite(a[0]) else np.inf
                if k < len(path) - 1:
                    nxt = path[k + 1][2]
                    if nxt > nfk:
                        tab, L = dc.coupling_table_up(p["scheme"], nfk), np.log(p["ratios"][nfk - 3])
                    else:
                        tab, L = dc.coupling_table_down(p["scheme"], nfk - 1), np.log(p["ratios"][nfk - 4])
                    a = a.copy()
                    a[0] *= cp.matching_factor(a[0], tab, L, order[0])
                    amax = max(amax, a[0]) if np.isfinite(a[0]) else np.inf
            row["ode"] = [float(a[0]), float(a[1])]
            row["ode_ok"] = bool(ok)
            row["amax"] = float(amax)
        # chain of single-patch objects (the code's own in-patch evolution, verified by C15)
        # glued with the *derived* decoupling: checks only the threshold loop
        try:
            a = np.array(sc.a_ref, dtype=float)
            amax = a[0]
            for k, (s0, s1, nfk) in enumerate(path):
                if not np.isclose(s0, s1):
                    one = cp.make_couplings(a[0] * 4 * np.pi, a[1] * 4 * np.pi, np.sqrt(s0), nfk, order, p["method"], False, cp.ffns_masses(nfk), [1, 1, 1], p["scheme"])
                    a = np.array(one.a(s1, nfk), dtype=float)
                amax = max(amax, a[0]) if np.isfinite(a[0]) else np.inf
                if k < len(path) - 1:
                    nxt = path[k + 1][2]
                    if nxt > nfk:
                        tab, L = dc.coupling_table_up(p["scheme"], nfk), np.log(p["ratios"][nfk - 3])
                    else:
                        tab, L = dc.coupling_table_down(p["scheme"], nfk - 1), np.log(p["ratios"][nfk - 4])
                    a[0] *= cp.matching_factor(a[0], tab, L, order[0])
                    amax = max(amax, a[0]) if np.isfinite(a[0]) else np.inf
            row["chain"] = [float(a[0]), float(a[1])]
            row["amax_chain"] = float(amax)
        except Exception as e:
            row["chain_error"] = f"{type(e).__name__}: {e}"
        out["paths"].append(row)
    return out


def run(ck):
    if not _table_checks(ck):
        return
    rng = ck.rng
    n = ck.n(300, 6000)
    objs = [_gen(rng) for _ in range(n)]
    # make sure that every (scheme, order, nf_ref) class shows up
    for scheme in ("POLE", "MSBAR"):
        for o in range(1, 5):
            for nfr, mu in ((3, 1.9), (4, 3.5), (5, 50.0), (6, 350.0)):
                objs.append(_gen(rng, dict(scheme=scheme, order=(o, 0), mu_ref=mu, nf_ref=nfr)))
    worst = dict(ratio=0.0, path=0.0, chain=0.0)
    for p, st, out in pmap(_eval, objs, timeout=ck.n(900, 7200)):
        base = (p["scheme"], tuple(p["order"]), p["method"], p["nf_ref"], round(p["alphas"], 4), round(p["mu_ref"], 3))
        if st != "ok":
            ck.case(("obj",) + base, nontrivial=False)
            ck.inconclusive(f"worker {st}: {str(out)[:100]}")
            continue
        if out["error"]:
            ck.case(("err",) + base)
            ck.violation(f"C16/raises/{p['scheme']}", f"valid configuration raised: {out['error']}", dict(params=p, seed=ck.seed))
            continue
        o0 = p["order"][0]
        # ---- ratio across one wall
        w = out["wall"]
        nf = w["nf"]
        direction = "up" if p["nf_ref"] <= nf else "down"
        key = ("wall",) + base + (nf, direction, round(p["ratios"][nf - 3], 4))
        if "error" in w:
            ck.case(key)
            ck.violation(f"C16/raises/{p['scheme']}/{direction}", f"Couplings.a at a wall raised {w['error']}", dict(params=p, seed=ck.seed))
        elif np.isfinite(w["lo"][0]) and np.isfinite(w["hi"][0]) and 0 < max(w["lo"][0], w["hi"][0]) * 4 * np.pi <= 0.6:
            L = float(np.log(p["ratios"][nf - 3]))
            if direction == "up":
                tab = dc.coupling_table_up(p["scheme"], nf)
                src, dst = w["lo"][0], w["hi"][0]
            else:
                tab = dc.coupling_table_down(p["scheme"], nf)
                src, dst = w["hi"][0], w["lo"][0]
            F = cp.matching_factor(src, tab, L, o0)
            ck.hit(f"wall_ratio_{direction}")
            ck.case(key, nontrivial=abs(F - 1) > 1e-6, sample=dict(kind="wall", scheme=p["scheme"], order=p["order"], nf=nf, direction=direction, L=L, a_from=src, observed_ratio=dst / src, expected_ratio=F))
            tol = 1e-12 + 2 * DEC_TOL * src**3
            worst["ratio"] = max(worst["ratio"], abs(dst / src - F))
            if abs(dst / src - F) > tol or w["lo"][1] != w["hi"][1]:
                lvl = "unit" if o0 <= 2 and L == 0 else f"order{o0}"
                ck.violation(
                    f"C16/wall/{p['scheme']}/{direction}/nf{nf}/{lvl}",
                    f"a_s ratio across the nf={nf}|{nf + 1} wall ({direction}) is {dst / src!r}, decoupling relation gives {F!r} (L={L:.4f}, a={src:.5f})",
                    dict(params=p, nf=nf, direction=direction, L=L, a_from=src, a_to=dst, expected_ratio=F, a_em=[w["lo"][1], w["hi"][1]], seed=ck.seed),
                )
            else:
                ck.ok()
        # ---- whole paths
        for row in out["paths"]:
            if "error" in row:
                ck.case(("path-err",) + base + (round(row["mu"], 3), row["nf_to"]))
                ck.violation(f"C16/raises/{p['scheme']}/path", f"Couplings.a raised {row['error']}", dict(params=p, target=(row["mu"], row["nf_to"]), seed=ck.seed))
                continue
            nfs = [s[2] for s in row["path"]]
            pdir = "same" if len(nfs) == 1 else ("up" if nfs[-1] > nfs[0] else "down")
            pkey = ("path",) + base + (round(row["mu"], 3), row["nf_to"])
            tag = f"{p['scheme']}/{pdir}/nf{nfs[0]}to{nfs[-1]}"
            if "ode" in row and row["ode_ok"] and np.isfinite(row["amax"]) and row["amax"] * 4 * np.pi <= 0.5 and row["ode"][0] > 0:
                ck.hit("path_vs_ode")
                ck.case(pkey + ("ode",), nontrivial=len(nfs) > 1, sample=dict(kind="path", scheme=p["scheme"], order=p["order"], nfs=nfs, code=row["got"][0], reference=row["ode"][0]) if len(nfs) > 2 else None)
                rel = abs(row["got"][0] - row["ode"][0]) / row["ode"][0]
                worst["path"] = max(worst["path"], rel)
                if not np.isfinite(rel) or rel > TOL_PATH * len(nfs) or row["got"][1] != row["ode"][1]:
                    ck.violation(
                        f"C16/path/{tag}/order{o0}",
                        f"a_s({row['mu']:.4g}^2, nf={row['nf_to']}) = {row['got'][0]!r}; walking the walls with ODE + decoupling gives {row['ode'][0]!r} (rel {rel:.2e})",
                        dict(params=p, target=(row["mu"], row["nf_to"]), path=row["path"], got=row["got"], reference=row["ode"], seed=ck.seed),
                    )
                else:
                    ck.ok()
            if "chain" in row and np.isfinite(row["amax_chain"]) and row["amax_chain"] * 4 * np.pi <= 0.6 and row["chain"][0] > 0:
                ck.hit("path_vs_chain")
                ck.case(pkey + ("chain",), nontrivial=len(nfs) > 1)
                rel = abs(row["got"][0] - row["chain"][0]) / row["chain"][0]
                worst["chain"] = max(worst["chain"], rel)
                # in-patch evolution is the code's own (re-entered through alpha = 4 pi a: a few ulp);
                # exact method re-integrates from a rounded start value: allow the Radau tolerance
                tol = (1e-11 if p["method"] == "expanded" else 5e-6) * len(nfs) + 2 * DEC_TOL * row["amax_chain"] ** 3 * len(nfs)
                if not np.isfinite(rel) or rel > tol:
                    ck.violation(
                        f"C16/chain/{tag}/order{o0}",
                        f"a_s({row['mu']:.4g}^2, nf={row['nf_to']}) = {row['got'][0]!r}; single-patch evolutions glued with the decoupling relation give {row['chain'][0]!r} (rel {rel:.2e})",
                        dict(params=p, target=(row["mu"], row["nf_to"]), path=row["path"], got=row["got"], reference=row["chain"], seed=ck.seed),
                    )
                else:
                    ck.ok()
    ck.note(worst_ratio_dev=worst["ratio"], worst_path_rel=worst["path"], worst_chain_rel=worst["chain"])
