"""C49: the command-line interface produces valid runcards and the library's EKO."""

import copy
import os
import pathlib
import shutil
import subprocess
import sys

import numpy as np

from .. import core, jobs, scratch
from .. import workload as wl

META = dict(
    level="exploration",
    design_ref="DESIGN.md §5 C49",
    technique="differential execution: the real console script /venv/bin/eko is run as a subprocess (worktree sources first on PYTHONPATH) in fresh scratch directories; generated cards are parsed with yaml.safe_load and compared with ekobox.cards.example, archives written by `eko run` are compared bitwise with eko.solve on the same card files",
    level_text="Enumerates the destination variants of `eko runcards example` (default destination absent/present, explicit destination absent/present/nested/absolute) and the three argument forms of `eko run` (plus the refused 0- and 4-argument forms) on random tiny valid cards; every produced file is inspected. Holds on the executions observed only.",
    level_note="Trusted base: PyYAML safe_load, the library's card classes for loading the written cards, eko.solve as the reference solver (its reproducibility is C47), the store reader. The example cards themselves are not solved (50-point grid); what is required of them is that they load into cards equal to ekobox.cards.example up to the evolution grid the command sets.",
    rule="case = (command, argument form / destination variant, card index); all distinct; non-trivial = the command was really executed as a child process using the worktree sources and produced (or correctly refused to produce) its files",
    min_nontrivial=10,
    required_hits=["worktree_sources_used", "example_default_absent", "example_default_present", "example_explicit_absent", "example_explicit_present",
                   "run_form1", "run_form2", "run_form3", "run_bitwise_operators", "run_usage_refused", "cards_dump_load"],
    max_inconclusive_frac=0.1,
)
META["level_text"] += ' The two-argument form is also run with a symlinked operator card; `runcards example` is also run into a destination holding different valid cards.'

EKO_BIN = "/venv/bin/eko"


def _env():
    env = dict(os.environ)
    repo = str(core.REPO)
    env["PYTHONPATH"] = f"{repo}/src" + (":" + env["PYTHONPATH"] if env.get("PYTHONPATH") else "")
    env["NUMBA_DISABLE_JIT"] = "1"
    env["PYTHONDONTWRITEBYTECODE"] = "1"
    env["COLUMNS"] = "200"
    return env


def _run(args, cwd, timeout=900):
    p = subprocess.run([EKO_BIN] + [str(a) for a in args], cwd=str(cwd), env=_env(), capture_output=True, text=True, timeout=timeout)
    return p.returncode, p.stdout[-1500:], p.stderr[-1500:]


def _plain(obj):
    """True if obj consists of plain YAML-safe python types only."""
    if obj is None or isinstance(obj, (bool, int, float, str)):
        return type(obj) in (type(None), bool, int, float, str)
    if isinstance(obj, list):
        return type(obj) is list and all(_plain(v) for v in obj)
    if isinstance(obj, dict):
        return type(obj) is dict and all(type(k) is str and _plain(v) for k, v in obj.items())
    return False


def _eq(a, b):
    """Structural equality with nan == nan."""
    if isinstance(a, float) and isinstance(b, float):
        return a == b or (a != a and b != b)
    if isinstance(a, (list, tuple)) and isinstance(b, (list, tuple)):
        return len(a) == len(b) and all(_eq(x, y) for x, y in zip(a, b))
    if isinstance(a, dict) and isinstance(b, dict):
        return set(a) == set(b) and all(_eq(a[k], b[k]) for k in a)
    return a == b


def _example_case(arg):
    seed, variant = arg
    import yaml
    from eko.io import runcards
    from ekobox import cards

    out = dict(hits={}, viol=[], inc=[], ok=0, key=("runcards example", variant), nontrivial=False)
    d = pathlib.Path(scratch.mkdtemp())
    wit = dict(kind="example", variant=variant)
    try:
        cwd = d / "cwd"
        cwd.mkdir()
        if variant == "default_absent":
            args, dest = [], cwd / "runcards"
        elif variant == "default_present":
            (cwd / "runcards").mkdir()
            args, dest = [], cwd / "runcards"
        elif variant == "explicit_absent":
            args, dest = ["-d", "mycards"], cwd / "mycards"
        elif variant == "explicit_present":
            (cwd / "there").mkdir()
            (cwd / "there" / "other.txt").write_text("keep me")
            args, dest = ["--destination", "there"], cwd / "there"
        elif variant == "explicit_stale":
            # the destination already holds (valid, but different) cards from an earlier study: the command
            # documents itself as generating the example cards there
            (cwd / "there").mkdir()
            th_old, op_old = _tiny_cards(np.random.default_rng([seed, 49, 77]), 7)
            (cwd / "there" / "theory.yaml").write_text(yaml.safe_dump(th_old), encoding="utf-8")
            (cwd / "there" / "operator.yaml").write_text(yaml.safe_dump(op_old), encoding="utf-8")
            args, dest = ["--destination", "there"], cwd / "there"
        elif variant == "explicit_nested":
            args, dest = ["-d", "a/b/c"], cwd / "a" / "b" / "c"
        else:  # absolute
            dest = d / "elsewhere" / "cards"
            args = ["-d", str(dest)]
        rc, so, se = _run(["runcards", "example"] + args, cwd)
        out["hits"]["example_" + variant] = 1
        out["nontrivial"] = True
        wit.update(args=args, returncode=rc, stderr=se[-600:])
        if rc != 0:
            cls = "destination-must-exist" if "does not exist" in se else ("unsafe-dump" if "RepresenterError" in se or "cannot represent" in se else "other")
            out["viol"].append((f"C49/example/{cls}", f"`eko runcards example {' '.join(args)}` ({variant}) exited {rc}: {se.strip().splitlines()[-1] if se.strip() else ''}", wit))
            return out
        files = sorted(p.name for p in dest.iterdir()) if dest.is_dir() else None
        want = sorted(["theory.yaml", "operator.yaml"] + (["other.txt"] if variant == "explicit_present" else []))
        if files != want:
            out["viol"].append(("C49/example/files", f"{variant}: destination holds {files}, expected {want}", wit))
            return out
        stray = sorted(p.name for p in cwd.iterdir() if p != dest and p.name not in ("runcards", "mycards", "there", "a"))
        if stray:
            out["viol"].append(("C49/example/stray-files", f"{variant}: unexpected files in cwd: {stray}", wit))
        nbad = 0
        raw = {}
        for nm in ("theory", "operator"):
            txt = (dest / f"{nm}.yaml").read_text(encoding="utf-8")
            try:
                raw[nm] = yaml.safe_load(txt)
            except Exception as e:
                out["viol"].append((f"C49/example/{nm}-not-safe-yaml", f"{nm}.yaml is not safe-loadable: {type(e).__name__}: {str(e)[:200]}", wit))
                return out
            if not isinstance(raw[nm], dict) or not _plain(raw[nm]):
                out["viol"].append((f"C49/example/{nm}-not-plain", f"{nm}.yaml does not hold a plain mapping", wit))
                return out
        try:
            th = runcards.TheoryCard.from_dict(copy.deepcopy(raw["theory"]))
            op = runcards.OperatorCard.from_dict(copy.deepcopy(raw["operator"]))
        except Exception as e:
            out["viol"].append(("C49/example/cards-do-not-load", f"written cards do not load: {type(e).__name__}: {e}", wit))
            return out
        out["hits"]["example_cards_loaded"] = 1
        # load -> raw is a fixed point (the files are a faithful serialisation of the cards)
        for nm, card in (("theory", th), ("operator", op)):
            if not _eq(card.raw, raw[nm]):
                out["viol"].append((f"C49/example/{nm}-roundtrip", f"{nm}: loading the written card and serialising again changes it", dict(wit, written=raw[nm], again=card.raw)))
                nbad += 1
        # equal to the library's example cards (the command documents itself as 'example runcards')
        ex_th = cards.example.theory().raw
        ex_op = cards.example.operator().raw
        if not _eq(th.raw, ex_th):
            diff = [k for k in set(ex_th) | set(th.raw) if not _eq(ex_th.get(k), th.raw.get(k))]
            out["viol"].append(("C49/example/theory-differs", f"written theory card differs from cards.example.theory() in {diff}", dict(wit, diff=diff)))
            nbad += 1
        diff = [k for k in set(ex_op) | set(op.raw) if not _eq(ex_op.get(k), op.raw.get(k))]
        if [k for k in diff if k != "mugrid"]:
            out["viol"].append(("C49/example/operator-differs", f"written operator card differs from cards.example.operator() in {diff}", dict(wit, diff=diff)))
            nbad += 1
        mg = op.raw.get("mugrid")
        ok_mg = isinstance(mg, list) and len(mg) >= 1 and all(isinstance(e, list) and len(e) == 2 and type(e[0]) is float and e[0] > 0.0 and type(e[1]) is int and 3 <= e[1] <= 6 for e in mg)
        if not ok_mg:
            out["viol"].append(("C49/example/mugrid", f"evolution grid of the example operator card is not a list of (scale, nf): {mg}", wit))
            nbad += 1
        if variant == "explicit_present" and (dest / "other.txt").read_text() != "keep me":
            out["viol"].append(("C49/example/clobbered", "existing file in the destination was modified", wit))
            nbad += 1
        out["sample"] = dict(variant=variant, returncode=rc, files=files, mugrid=mg)
        if nbad == 0:
            out["ok"] = 1
    except subprocess.TimeoutExpired:
        out["inc"].append(f"eko runcards example ({variant}) timed out")
    finally:
        shutil.rmtree(d, ignore_errors=True)
    return out


def _tiny_cards(rng, j):
    order = (2, 0) if j % 7 == 5 else (1, 0)
    n = int(rng.integers(3, 5))
    xg = np.exp(np.linspace(np.log(10 ** rng.uniform(-3, -1.5)), 0.0, n))
    xg[-1] = 1.0
    mugrid = [(float(np.round(rng.uniform(5.0, 60.0), 3)), 5)]
    if rng.random() < 0.5:
        mugrid.append((float(np.round(rng.uniform(2.0, 4.5), 3)), 4))
    method = str(rng.choice(["iterate-exact", "truncated", "iterate-expanded"]))
    th = wl.raw_theory(order=order, alphas=float(np.round(rng.uniform(0.11, 0.125), 4)))
    op = wl.raw_operator(init=(float(np.round(rng.uniform(1.55, 1.9), 3)), 4), mugrid=mugrid, xgrid=[float(x) for x in xg],
                         method=method, iterations=int(rng.integers(1, 3)), degree=int(rng.integers(1, 3)))
    return th, op


def _archive(path):
    from eko.io.struct import EKO

    out = {}
    with EKO.read(pathlib.Path(path)) as e:
        cards_ = (e.theory_card.raw, e.operator_card.raw)
        mu20 = float(e.mu20)
        xg = np.array(e.xgrid.raw)
        for ep, o in e.items():
            out[(float(ep[0]), int(ep[1]))] = (np.array(o.operator), None if o.error is None else np.array(o.error))
    return dict(ops=out, cards=cards_, mu20=mu20, xgrid=xg)


def _run_case(arg):
    seed, form, j = arg
    import yaml

    import eko
    from eko.io import runcards

    rng = np.random.default_rng([seed, 49, j])
    out = dict(hits={}, viol=[], inc=[], ok=0, key=("run", form, j), nontrivial=False)
    d = pathlib.Path(scratch.mkdtemp())
    wit = dict(kind="run", form=form, index=j)
    try:
        th_raw, op_raw = _tiny_cards(rng, j)
        wit.update(theory=th_raw, operator=op_raw)
        cwd = d / "cwd"
        cwd.mkdir()
        if form == 1:
            rdir = cwd / "job"
            rdir.mkdir()
            tp, opth, outp = rdir / "theory.yaml", rdir / "operator.yaml", rdir / "eko.tar"
            args = ["job"]
        elif form == 2:
            (cwd / "t").mkdir()
            (cwd / "o").mkdir()
            tp, opth, outp = cwd / "t" / "my_theory.yaml", cwd / "o" / "my_operator.yaml", cwd / "o" / "eko.tar"
            args = ["t/my_theory.yaml", "o/my_operator.yaml"]
        elif form == 5:
            # two-argument form, the operator card being a symbolic link to a card shared between run folders:
            # the documented destination is next to the path that was given
            (cwd / "t").mkdir()
            (cwd / "o").mkdir()
            (cwd / "common").mkdir()
            (cwd / "common" / "operator.yaml").write_text(yaml.safe_dump(op_raw), encoding="utf-8")
            os.symlink("../common/operator.yaml", cwd / "o" / "my_operator.yaml")
            tp, opth, outp = cwd / "t" / "my_theory.yaml", cwd / "o" / "my_operator.yaml", cwd / "o" / "eko.tar"
            args = ["t/my_theory.yaml", "o/my_operator.yaml"]
        elif form == 3:
            (cwd / "t").mkdir()
            (cwd / "o").mkdir()
            (cwd / "out").mkdir()
            tp, opth, outp = cwd / "t" / "th.yaml", cwd / "o" / "op.yaml", cwd / "out" / "result.tar"
            args = ["t/th.yaml", "o/op.yaml", "out/result.tar"]
        else:  # refused forms: 0 or 4 arguments
            (cwd / "job").mkdir()
            tp, opth, outp = cwd / "job" / "theory.yaml", cwd / "job" / "operator.yaml", None
            args = [] if form == 0 else ["job/theory.yaml", "job/operator.yaml", "a.tar", "b.tar"]
        tp.write_text(yaml.safe_dump(th_raw), encoding="utf-8")
        if form != 5:
            opth.write_text(yaml.safe_dump(op_raw), encoding="utf-8")
        rc, so, se = _run(["run"] + args, cwd)
        out["nontrivial"] = True
        wit.update(args=args, returncode=rc, stderr=se[-600:])
        if form in (0, 4):
            out["hits"]["run_usage_refused"] = 1
            tars = [str(p.relative_to(cwd)) for p in cwd.rglob("*.tar")]
            if rc == 0 or tars:
                out["viol"].append(("C49/run/usage-accepted", f"`eko run` with {len(args)} arguments exited {rc}, archives {tars}", wit))
            else:
                out["ok"] = 1
            out["sample"] = dict(form=form, returncode=rc)
            return out
        out["hits"]["run_form2_symlinked_card" if form == 5 else f"run_form{form}"] = 1
        if rc != 0:
            out["viol"].append((f"C49/run/form{form}/fails", f"`eko run {' '.join(args)}` exited {rc}: {se.strip().splitlines()[-1] if se.strip() else ''}", wit))
            return out
        tars = sorted(str(p.relative_to(cwd)) for p in cwd.rglob("*.tar"))
        if tars != [str(outp.relative_to(cwd))]:
            out["viol"].append((f"C49/run/form{form}/output-location", f"archives found at {tars}, expected {outp.relative_to(cwd)}", wit))
            return out
        # reference: the library solver on the same files
        ref_path = d / "ref.tar"
        tc = runcards.TheoryCard.from_dict(yaml.safe_load(tp.read_text(encoding="utf-8")))
        oc = runcards.OperatorCard.from_dict(yaml.safe_load(opth.read_text(encoding="utf-8")))
        eko.solve(tc, oc, path=ref_path)
        got, ref = _archive(outp), _archive(ref_path)
        nbad = 0
        if set(got["ops"]) != set(ref["ops"]):
            out["viol"].append((f"C49/run/keys", f"CLI archive holds {sorted(got['ops'])}, library {sorted(ref['ops'])}", wit))
            nbad += 1
        else:
            exp_eps = {(m * m, nf) for m, nf in op_raw["mugrid"]}
            if {(round(a, 9), b) for a, b in got["ops"]} != {(round(a, 9), b) for a, b in exp_eps}:
                out["viol"].append(("C49/run/targets", f"archive targets {sorted(got['ops'])} != card {sorted(exp_eps)}", wit))
                nbad += 1
            for ep in ref["ops"]:
                out["hits"]["run_bitwise_operators"] = out["hits"].get("run_bitwise_operators", 0) + 1
                g, r = got["ops"][ep], ref["ops"][ep]
                same = np.array_equal(g[0], r[0]) and ((g[1] is None) == (r[1] is None)) and (g[1] is None or np.array_equal(g[1], r[1]))
                if not same:
                    dmax = float(np.abs(g[0] - r[0]).max()) if g[0].shape == r[0].shape else float("inf")
                    out["viol"].append(("C49/run/operators-differ", f"operator at {ep} from the CLI differs from eko.solve (max abs diff {dmax:.3e})", dict(wit, ep=list(ep), maxdiff=dmax)))
                    nbad += 1
                if not np.all(np.isfinite(g[0])) or float(np.abs(g[0]).max()) == 0.0:
                    out["viol"].append(("C49/run/degenerate", f"operator at {ep} is zero or not finite", wit))
                    nbad += 1
        if not _eq(got["cards"][0], ref["cards"][0]) or not _eq(got["cards"][1], ref["cards"][1]) or got["mu20"] != ref["mu20"] or not np.array_equal(got["xgrid"], ref["xgrid"]):
            out["viol"].append(("C49/run/cards-differ", "cards/metadata stored by the CLI run differ from the library run", wit))
            nbad += 1
        out["sample"] = dict(form=form, args=args, order=th_raw["order"], method=op_raw["configs"]["evolution_method"], targets=len(ref["ops"]), mismatches=nbad)
        if nbad == 0:
            out["ok"] = 1
    except subprocess.TimeoutExpired:
        out["inc"].append(f"eko run (form {form}) timed out")
    except Exception as e:
        import traceback

        out["inc"].append(f"harness/reference error in run case: {type(e).__name__}: {e} {traceback.format_exc()[-300:]}")
    finally:
        shutil.rmtree(d, ignore_errors=True)
    return out


def _cards_case(arg):
    """Library level: ekobox.cards.dump / load round trip of example and random cards."""
    seed, j = arg
    import yaml
    from eko.io import runcards
    from ekobox import cards

    rng = np.random.default_rng([seed, 49, 7, j])
    out = dict(hits={}, viol=[], inc=[], ok=0, key=("cards dump/load", j), nontrivial=True)
    d = pathlib.Path(scratch.mkdtemp())
    wit = dict(kind="cards", index=j)
    try:
        if j == 0:
            th, op = cards.example.theory(), cards.example.operator()
            op.mugrid = [(float(np.sqrt(1e5)), 5), (np.sqrt(10.0), 4)]  # NumPy scalar inside a tuple, as the CLI does
        else:
            th_raw, op_raw = _tiny_cards(rng, j)
            th = runcards.TheoryCard.from_dict(copy.deepcopy(th_raw))
            op = runcards.OperatorCard.from_dict(copy.deepcopy(op_raw))
        nbad = 0
        for nm, card, cls in (("theory", th, runcards.TheoryCard), ("operator", op, runcards.OperatorCard)):
            p = d / f"{nm}.yaml"
            out["hits"]["cards_dump_load"] = out["hits"].get("cards_dump_load", 0) + 1
            try:
                cards.dump(card.raw, p)
            except Exception as e:
                out["viol"].append((f"C49/cards/dump-raises", f"cards.dump({nm}.raw) raised {type(e).__name__}: {str(e)[:150]}", wit))
                nbad += 1
                continue
            back = cards.load(p)
            mine = yaml.safe_load(p.read_text(encoding="utf-8"))
            if not _plain(mine) or not _eq(back, mine):
                out["viol"].append((f"C49/cards/load", f"{nm}: cards.load differs from a plain safe_load of the file", wit))
                nbad += 1
                continue
            again = cls.from_dict(copy.deepcopy(back))
            if not _eq(again.raw, card.raw):
                diff = [k for k in set(again.raw) | set(card.raw) if not _eq(again.raw.get(k), card.raw.get(k))]
                out["viol"].append((f"C49/cards/roundtrip", f"{nm}: dump -> load -> from_dict changes the card in {diff}", dict(wit, diff=diff)))
                nbad += 1
        out["sample"] = dict(kind="cards", index=j, mismatches=nbad)
        if nbad == 0:
            out["ok"] = 1
    finally:
        shutil.rmtree(d, ignore_errors=True)
    return out


def _one(arg):
    if arg[0] == "example":
        return _example_case(arg[1:])
    if arg[0] == "cards":
        return _cards_case(arg[1:])
    return _run_case(arg[1:])


def _merge(ck, rec):
    ck.case(rec.get("key"), nontrivial=rec.get("nontrivial", False), sample=rec.get("sample"))
    for k, v in rec["hits"].items():
        ck.hit(k, v)
    for key, what, wit in rec["viol"]:
        ck.violation(key, what, dict(wit, seed=ck.seed))
    for why in rec["inc"]:
        ck.inconclusive(why)
    if rec["ok"] and not rec["viol"]:
        ck.ok()


def run(ck):
    # the child processes must execute the worktree's sources
    p = subprocess.run(["/venv/bin/python", "-c", "import ekobox.cli, eko; print(ekobox.cli.__file__); print(eko.__file__)"],
                       env=_env(), capture_output=True, text=True, cwd="/")
    paths = p.stdout.split()
    if p.returncode != 0 or len(paths) != 2 or not all(x.startswith(str(core.REPO) + "/src/") for x in paths):
        ck.inconclusive(f"child processes do not import the sources under test: {paths} {p.stderr[-200:]}")
        return
    if not (open(EKO_BIN).read().find("ekobox.cli") > 0):
        ck.inconclusive("console script does not call ekobox.cli")
        return
    ck.hit("worktree_sources_used")
    items = [("example", ck.seed, v) for v in ("default_absent", "default_present", "explicit_absent", "explicit_present", "explicit_stale", "explicit_nested", "explicit_absolute")]
    ncards = ck.n(1, 7)
    j = 0
    for c in range(ncards):
        for form in (1, 2, 3):
            items.append(("run", ck.seed, form, 10 * c + form + 100 * (ck.seed % 50)))
    items += [("run", ck.seed, 0, 900), ("run", ck.seed, 4, 901), ("run", ck.seed, 5, 905 + 100 * (ck.seed % 50))]
    items += [("cards", ck.seed, j) for j in range(ck.n(6, 40))]
    for it, st, val in jobs.pmap(_one, items, timeout=ck.n(1500, 3000)):
        if st != "ok":
            ck.case(None, nontrivial=False)
            ck.inconclusive(f"worker {st}: {str(val)[:300]}")
            continue
        _merge(ck, val)
    ck.note(exhaustive=False)


def replay(ck, rep):
    w = rep["witness"]
    seed = w.get("seed", rep.get("seed", 0))
    if w["kind"] == "example":
        _merge(ck, _example_case((seed, w["variant"])))
    elif w["kind"] == "cards":
        _merge(ck, _cards_case((seed, w["index"])))
    else:
        _merge(ck, _run_case((seed, w["form"], w["index"])))
    ck.min_nontrivial = 0
    ck.meta = dict(ck.meta, required_hits=[])
