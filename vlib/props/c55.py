"""C55: settings that do not apply to a configuration do not change its EKO."""

import hashlib

import numpy as np

from .. import jobs, workload as w

META = dict(
    level="exploration",
    design_ref="DESIGN.md §5 C55",
    technique="differential execution: pairs of real solves differing in exactly one setting the documentation ties to other configurations; sha256 of operator and error bytes must coincide",
    level_text="Pairs of real solves over orders 1-4, all methods, up/down/fixed flavour paths; the varied setting is one of: iteration count (non-iterating methods, LO), expansion order (non-perturbative methods), inversion method (no downward matching), N3LO variation / FHMRUVV switch (below N3LO), em_running (no QED). All stored operators must be bitwise identical.",
    level_note="'Inapplicable' is taken from the documentation (code docs of kernels dispatchers: 'In LO we always use the exact solution'; ev_op_max_order 'Used only in perturbative solutions'; inversion_method 'for backward matching conditions'; n3lo_ad_variation / use_fhmruvv are N3LO settings; em_running belongs to QED). Iterations ARE relevant for QED non-singlet and are excluded.",
    rule="case = (configuration, varied setting); distinct by configuration+setting; non-trivial = both solves succeeded, at least one target required real integration, and the two cards really differ in the setting",
    min_nontrivial=15,
    required_hits=["pairs_compared"],
    max_inconclusive_frac=0.2,
)

NONITER = ["truncated", "ordered-truncated", "decompose-exact", "decompose-expanded"]
NONPERT = ["iterate-exact", "iterate-expanded", "truncated", "ordered-truncated", "decompose-exact", "decompose-expanded"]


def digest(res):
    out = {}
    for k, (o, e) in res.items():
        h = hashlib.sha256(np.ascontiguousarray(o).tobytes())
        h.update(b"|" + (b"none" if e is None else np.ascontiguousarray(e).tobytes()))
        out[f"{k[0].hex()}|{k[1]}"] = h.hexdigest()
    return out


def run_pair(job):
    cfg, setting, alt = job
    outs = []
    for c in (cfg, alt):
        try:
            outs.append(digest(w.solve_cfg(c)))
        except (NotImplementedError, ValueError) as e:
            return dict(status="refused", msg=f"{type(e).__name__}: {str(e)[:100]}")
        except Exception as e:
            import traceback

            return dict(status="crash", msg=f"{type(e).__name__}: {str(e)[:200]}", tb=traceback.format_exc()[-500:])
    return dict(status="ok", a=outs[0], b=outs[1])


def make_jobs(ck):
    rng = ck.rng
    jobs_ = []
    up_fixed = [(3, 4), (4, 5), (4, 4), (3, 3), (3, 5), (5, 5)]
    anyp = up_fixed + [(4, 3), (5, 4)]

    def base(qcd, methods, pairs, **kw):
        c = w.path_cfg(rng, qcd=qcd, nf_pairs=pairs, methods=methods, npts=(3,), **kw)
        c["degree"] = 1
        if qcd == 4:
            c["init"][1], c["targets"] = 4, [[c["init"][0] * 1.8, 4]]
        return c

    nq = ck.n(1, 12)
    orders = [2, 3] if ck.quick else [2, 3, 4]
    # 1. iteration count for non-iterating methods and at LO
    for qcd in orders:
        for m in NONITER:
            for _ in range(nq if qcd < 4 else 1):
                c = base(qcd, [m], anyp)
                c["iters"] = 1
                a = dict(c, iters=int(rng.integers(2, 9)))
                jobs_.append((c, f"iterations/{m}", a))
    for m in w.METHODS[: ck.n(4, 8)]:
        for _ in range(nq):
            c = base(1, [m], anyp)
            c["iters"] = 1
            jobs_.append((c, "iterations/LO", dict(c, iters=int(rng.integers(2, 9)))))
    # 2. expansion order for non-perturbative methods
    for qcd in [1] + orders:
        for m in (NONPERT if not ck.quick else NONPERT[::2] if qcd != 2 else NONPERT):
            for _ in range(nq if qcd < 4 else 1):
                c = base(qcd, [m], anyp)
                c["max_order"] = [10, 0]
                jobs_.append((c, f"max_order/{m}", dict(c, max_order=[int(rng.integers(2, 7)), 0])))
    # 3. inversion method without downward matching
    for qcd in [1] + orders:
        for _ in range(ck.n(2, 16) if qcd < 4 else 1):
            c = base(qcd, None, up_fixed)
            c["inversion"] = None
            jobs_.append((c, "inversion", dict(c, inversion=str(rng.choice(["exact", "expanded"])))))
            c2 = dict(c, inversion="exact")
            jobs_.append((c2, "inversion", dict(c, inversion="expanded")))
    # 4. N3LO settings below N3LO
    for qcd in [1, 2, 3]:
        for _ in range(ck.n(2, 16)):
            c = base(qcd, None, anyp)
            jobs_.append((c, "n3lo_ad_variation", dict(c, n3lo_var=[int(x) for x in rng.integers(1, 3, size=7)])))
            c = base(qcd, None, anyp)
            jobs_.append((c, "use_fhmruvv", dict(c, fhmruvv=False)))
    # 5. em_running without QED
    for qcd in [1, 2, 3]:
        for _ in range(ck.n(2, 12)):
            c = base(qcd, None, anyp)
            c["em_running"] = False
            jobs_.append((c, "em_running", dict(c, em_running=True)))
    return jobs_


def run(ck):
    jobs_ = make_jobs(ck)
    if ck.replay:
        wit = ck.replay["witness"]
        jobs_ = [(wit["cfg"], wit["setting"], wit["alt"])]
    for (cfg, setting, alt), st, res in jobs.pmap(run_pair, jobs_, timeout=ck.n(3000, 5 * 3600), item_timeout=ck.n(900, 3600)):
        key = (w.cfg_key(cfg), setting, w.cfg_key(alt))
        if st != "ok":
            ck.case(key, nontrivial=False)
            ck.inconclusive(f"job {st}: {str(res)[:100]}")
            continue
        if res["status"] == "refused":
            ck.case(key, nontrivial=False)
            ck.hit("refused")
            continue
        if res["status"] == "crash":
            ck.case(key, nontrivial=False)
            ck.inconclusive("solver crashed (C04's business): " + res["msg"][:80])
            continue
        ck.hit("pairs_compared")
        moved = any(abs(t[0] - cfg["init"][0]) > 1e-6 for t in cfg["targets"])
        differs = w.cfg_key(cfg) != w.cfg_key(alt)
        ck.case(key, nontrivial=moved and differs, sample=dict(setting=setting, order=cfg["qcd"], method=cfg["method"], init=cfg["init"], targets=cfg["targets"], digests=list(res["a"].values())[:1]))
        if res["a"] != res["b"]:
            bad = [k for k in res["a"] if res["a"].get(k) != res["b"].get(k)]
            ck.violation(f"C55/{setting}/order{cfg['qcd']}", f"changing the inapplicable setting '{setting}' changed the operator(s) {bad[:3]} bitwise", dict(cfg=cfg, setting=setting, alt=alt, a=res["a"], b=res["b"]))
        else:
            ck.ok()
