"""C23: matrix exponentials and eigen-projectors (exp_matrix_2D, exp_matrix) are correct."""

import warnings

import numpy as np

from .. import jobs
from ..oracles import matexp

META = dict(
    level="exploration",
    design_ref="DESIGN.md §5 C23",
    technique="reference-value + algebraic-invariant monitor: ekore.anomalous_dimensions.exp_matrix_2D / exp_matrix run on random complex 2x2 and 4x4 matrices; exponential compared with 30-digit mpmath.expm (scipy.linalg.expm as second route), eigenvalues with mpmath.eig, projectors judged by P_iP_j=delta_ij P_i, sum P_i=1, M=sum lambda_i P_i",
    level_text="Randomised exploration over matrix classes (dense complex, real with complex-conjugate pairs, prescribed spectrum with ill-conditioned eigenbasis, triangular/zero off-diagonal, Hermitian, singlet-like real-analytic exponents, block QED-like 4x4), Frobenius norms 1e-3..50, eigenvalue gap >= 1e-3 ||M||; all returned objects are checked, so a wrong sign/index/operand in either routine is seen on essentially every case.",
    level_note="Trusted base: mpmath.expm/eig at 30 digits (oracle self-check against scipy.linalg.expm on every case; disagreement -> inconclusive). Near-degenerate matrices are executed and counted but not judged (the statement is about well-separated eigenvalues). numpy.linalg (LAPACK) is trusted as a library, not part of the code under test.",
    rule="case = (routine, matrix class, random draw); distinct by continuous draws; non-trivial = relative eigenvalue gap >= 1e-3, all off-diagonal entries participating non-zero for the dense classes, ||M|| > 1e-3 (measured with the oracle's spectrum)",
    min_nontrivial=400,
    required_hits=["exp_matrix_2D", "exp_matrix_dim2", "exp_matrix_dim4"],
    max_inconclusive_frac=0.03,
)

TOL = 1e-10
CLASSES = ("dense", "real", "spectrum", "triangular", "hermitian", "singlet-like", "block", "near-degenerate")


def _gen(rng, dim, cls):
    nrm = float(10 ** rng.uniform(-3, np.log10(50.0)))
    if cls == "dense":
        M = rng.normal(size=(dim, dim)) + 1j * rng.normal(size=(dim, dim))
    elif cls == "real":
        M = rng.normal(size=(dim, dim)) + 0j
    elif cls == "spectrum":
        lam = rng.normal(size=dim) + 1j * rng.normal(size=dim)
        V = rng.normal(size=(dim, dim)) + 1j * rng.normal(size=(dim, dim))
        if rng.random() < 0.5:  # make the eigenbasis moderately ill-conditioned
            V[:, 0] = V[:, 1] + 10 ** rng.uniform(-4, -1) * V[:, 0]
        M = V @ np.diag(lam) @ np.linalg.inv(V)
    elif cls == "triangular":
        M = np.triu(rng.normal(size=(dim, dim)) + 1j * rng.normal(size=(dim, dim)))
        if rng.random() < 0.5:
            M = M.T.copy()
    elif cls == "hermitian":
        A = rng.normal(size=(dim, dim)) + 1j * rng.normal(size=(dim, dim))
        M = A + A.conj().T
    elif cls == "singlet-like":
        # exponent of a kernel: (real-analytic-like AD matrix) x (real evolution integral), mostly negative real parts
        M = -np.abs(rng.normal(size=(dim, dim))) * rng.uniform(0.2, 3, size=(dim, dim)) + 1j * rng.normal(size=(dim, dim)) * 0.5
        M = M * (-1 if rng.random() < 0.3 else 1)
    elif cls == "block":
        M = np.zeros((dim, dim), dtype=complex)
        h = dim // 2
        M[:h, :h] = rng.normal(size=(h, h)) + 1j * rng.normal(size=(h, h))
        M[h:, h:] = rng.normal(size=(dim - h, dim - h)) + 1j * rng.normal(size=(dim - h, dim - h))
        if rng.random() < 0.5:
            M[:h, h:] = 1e-2 * rng.normal(size=(h, dim - h))
    elif cls == "near-degenerate":
        lam = np.full(dim, rng.normal() + 1j * rng.normal())
        lam = lam + 10 ** rng.uniform(-9, -4) * rng.normal(size=dim)
        V = rng.normal(size=(dim, dim)) + 1j * rng.normal(size=(dim, dim))
        M = V @ np.diag(lam) @ np.linalg.inv(V)
    else:
        raise KeyError(cls)
    M = np.ascontiguousarray(M, dtype=np.complex128)
    f = np.linalg.norm(M)
    return M * (nrm / f if f > 0 else 1.0)


def _fro(x):
    return float(np.linalg.norm(np.asarray(x).ravel()))


def _judge(item):
    """Worker: run the code under test on one matrix and evaluate every invariant."""
    warnings.simplefilter("ignore")
    routine, cls, M = item
    from ekore import anomalous_dimensions as ad

    dim = M.shape[0]
    wit = dict(routine=routine, cls=cls, matrix=M)
    try:
        if routine == "exp_matrix_2D":
            ex, lp, lm, ep, em = ad.exp_matrix_2D(M.copy())
            lam = np.array([lp, lm])
            P = np.array([ep, em])
        else:
            ex, lam, P = ad.exp_matrix(M.copy())
            lam, P = np.array(lam), np.array(P)
    except Exception as e:
        return dict(status="raised", what=f"{type(e).__name__}: {e}", wit=wit, gap=None)
    lam_ref, P_ref, cond, gap = matexp.spectral(M)
    nrm = _fro(M)
    out = dict(gap=gap, cond=cond, norm=nrm)
    if gap < 1e-3 or cond > 1e6:
        out.update(status="skipped-degenerate")
        return out
    ref = matexp.expm(M)
    ref2 = matexp.expm_scipy(M)
    emax = float(np.max(np.abs(np.exp(lam_ref))))
    if _fro(ref - ref2) > 1e-8 * cond * emax * max(1.0, nrm):
        out.update(status="inc", why=f"oracle routes disagree: mp.expm vs scipy expm {_fro(ref - ref2):.2e}")
        return out
    fails = []
    # 1. exponential
    d = _fro(np.asarray(ex) - ref)
    t = TOL * cond * emax
    m_exp = d / t
    if not np.isfinite(d) or d > t:
        fails.append(("exp", f"||exp - expm_ref||={d:.3e} > {t:.1e}"))
    # 2. eigenvalues (as a multiset) -- greedy matching
    left = list(range(dim))
    worst = 0.0
    for l in lam:
        j = min(left, key=lambda k: abs(lam_ref[k] - l)) if left else None
        if j is None:
            break
        worst = max(worst, abs(lam_ref[j] - l))
        left.remove(j)
    t = TOL * cond * max(nrm, 1e-300)
    if not np.isfinite(worst) or worst > t:
        fails.append(("eigenvalues", f"max |lambda - lambda_ref|={worst:.3e} > {t:.1e}"))
    # 3. projector algebra
    I = np.eye(dim)
    pn = max(1.0, max(_fro(p) for p in P_ref))
    worst_pp = 0.0
    for i in range(dim):
        for j in range(dim):
            worst_pp = max(worst_pp, _fro(P[i] @ P[j] - (P[i] if i == j else 0 * I)))
    if not np.isfinite(worst_pp) or worst_pp > TOL * pn * pn:
        fails.append(("projector-idempotent-orthogonal", f"max ||P_iP_j - delta_ij P_i||={worst_pp:.3e} > {TOL * pn * pn:.1e}"))
    d = _fro(sum(P) - I)
    if not np.isfinite(d) or d > TOL * pn:
        fails.append(("projector-completeness", f"||sum P_i - 1||={d:.3e}"))
    d = _fro(sum(l * p for l, p in zip(lam, P)) - M)
    if not np.isfinite(d) or d > TOL * pn * max(nrm, 1e-300):
        fails.append(("spectral-decomposition", f"||sum lambda_i P_i - M||={d:.3e} > {TOL * pn * nrm:.1e}"))
    # 4. 2D labelling: lambda_p - lambda_m is the principal square root (documented 'positive' eigenvalue)
    if routine == "exp_matrix_2D" and not (np.real(lam[0] - lam[1]) >= -TOL * nrm):
        fails.append(("labels", f"Re(lambda_p - lambda_m) = {np.real(lam[0] - lam[1]):.3e} < 0"))
    out.update(status="viol" if fails else "ok", fails=fails, margin=m_exp)
    if fails:
        wit.update(observed_exp=np.asarray(ex), expected_exp=ref, eigenvalues=lam, eigenvalues_ref=lam_ref, cond=cond, gap=gap)
        out["wit"] = wit
    return out


def _batch(items):
    return [_judge(it) for it in items]


def _items(ck):
    rng = ck.rng
    n = ck.n(2400, 60000)
    items = []
    for i in range(n):
        routine = ("exp_matrix_2D", "exp_matrix", "exp_matrix4")[i % 3]
        cls = CLASSES[(i // 3) % len(CLASSES)]
        dim = 4 if routine == "exp_matrix4" else 2
        M = _gen(rng, dim, cls)
        items.append(("exp_matrix" if dim == 4 else routine, cls, M))
    return items


def _absorb(ck, items):
    chunks = [items[i : i + 50] for i in range(0, len(items), 50)]
    worst = 0.0
    skipped = 0
    idx = 0
    for chunk, st, val in jobs.pmap(_batch, chunks, timeout=ck.n(900, 4 * 3600)):
        if st != "ok":
            for _ in chunk:
                ck.case(None, nontrivial=False)
                ck.inconclusive(f"worker {st}: {str(val)[:120]}")
            continue
        for (routine, cls, M), r in zip(chunk, val):
            idx += 1
            dim = M.shape[0]
            name = routine if routine == "exp_matrix_2D" else f"exp_matrix_dim{dim}"
            key = (name, cls, idx)
            if r["status"] == "skipped-degenerate":
                skipped += 1
                ck.case(key, nontrivial=False)
                ck.hit("near_degenerate_counted_only")
                continue
            if r["status"] == "inc":
                ck.case(key, nontrivial=False)
                ck.inconclusive(r["why"])
                continue
            nontrivial = r.get("gap") is not None and r["gap"] >= 1e-3 and r["norm"] > 1e-3
            ck.case(key, nontrivial=nontrivial, sample=dict(routine=name, cls=cls, norm=r.get("norm"), gap=r.get("gap"), cond=r.get("cond"), status=r["status"], exp_err_over_tol=r.get("margin")) if (idx % 487 == 0 or not ck.samples) else None)
            ck.hit(name)
            ck.hit(f"class_{cls}")
            if r["status"] == "ok":
                ck.ok()
                worst = max(worst, r["margin"])
            elif r["status"] == "raised":
                ck.violation(f"C23/{name}/raises", f"{name} raised {r['what']} on a {cls} matrix", r["wit"])
            else:
                for site, msg in r["fails"]:
                    ck.violation(f"C23/{name}/{site}", f"{name} on a {cls} {dim}x{dim} matrix (norm {r['norm']:.3g}, gap {r['gap']:.2g}, cond {r['cond']:.2g}): {msg}", r["wit"])
    ck.note(worst_exp_err_over_tol=worst, near_degenerate_skipped=skipped, tolerance="1e-10 * cond(V) * max|e^lambda| (exp); 1e-10*||P||^2 (projector algebra)")


def run(ck):
    _absorb(ck, _items(ck))


def replay(ck, rep):
    w = rep["witness"]
    M = np.array([[complex(x[0], x[1]) if isinstance(x, list) else complex(x) for x in row] for row in w["matrix"]])
    # the witness itself plus its transpose (same spectrum) so that the replay is more than a single point
    _absorb(ck, [(w["routine"], w.get("cls", "replay"), M), (w["routine"], w.get("cls", "replay") + "-transposed", np.ascontiguousarray(M.T))])
    ck.min_nontrivial = 0
    ck.meta = dict(ck.meta, required_hits=[])
