"""C51: scale-varied EKOs agree with the central EKO to the working order."""

import hashlib
import pathlib
import shutil

import numpy as np

from .. import jobs, scratch, workload as w

META = dict(
    level="exploration",
    design_ref="DESIGN.md §5 C51",
    technique="captured-plumbing monitor: the real runner builds the Operator (parts.evolve with integration stubbed), the complex kernel is read at fixed Mellin N through the real quad_ker_ad/quad_ker_qcd with the operator's own parameters; slope of |K_sv-K_0|/|K_0| versus a coupling scale factor lambda; plus bitwise comparison of stored operators at xif=1",
    level_text="For random configurations (orders 1-4, all methods, nf 3-6, unpolarized/polarized/time-like, final and intermediate segments) the central, expanded and exponentiated kernels produced by the runner's own plumbing are compared at fixed N while alpha_s(ref) is scaled by lambda: the relative difference must fall at least like lambda^n. With xif=1 real solves (QCD and QED) must give bitwise identical archives' operators.",
    level_note="Slope by least squares over lambda values whose difference exceeds a 1e-13 relative floor (three smallest lambda used: the asymptotic slope); >=3 usable points else inconclusive; required slope n-0.3. QED is held only to the xif=1 bitwise statement (the a_s^n scaling statement is formulated for the QCD order).",
    rule="case = (configuration, sector label, scheme) for slopes, (configuration, scheme) for xif=1 identity; non-trivial = xif != 1 with >=3 points above the noise floor, or an xif=1 pair with real evolution",
    min_nontrivial=20,
    required_hits=["slopes_fitted", "xif1_bitwise_compared", "kernel_evaluations", "path_slopes_fitted"],
    max_inconclusive_frac=0.15,
)
META["level_text"] += " Whole paths across a matching scale placed away from the quark mass are solved at fixed Mellin N by the runner itself (C50's captured plumbing) and the scale-varied result is compared with the central one (slope in lambda >= n-0.3, both schemes, light and heavy outputs)."

NS_N = [complex(1.7, 0.9), complex(3.3, -2.1), complex(6.0, 4.0)]
LAMS = {1: [1 / 8, 1 / 16, 1 / 32, 1 / 64], 2: [1 / 8, 1 / 16, 1 / 32, 1 / 64], 3: [1 / 8, 1 / 16, 1 / 32, 1 / 64], 4: [1 / 4, 1 / 8, 1 / 16, 1 / 32]}


def kernels_for(cfg, lam, scvar, Ns):
    """Run the runner's plumbing for one card; return {label: [K(N) for N in Ns]}."""
    import eko.evolution_operator as evop
    import importlib

    qk = importlib.import_module("eko.evolution_operator.quad_ker")
    from eko.io.items import Evolution
    from eko.io.struct import EKO
    from eko.runner import parts

    c = dict(cfg, alphas=cfg["alphas"] * lam, scvar=scvar, xif=cfg["xif"] if scvar else 1.0)
    th, op = w.cards(*w.cfg_cards(c))
    d = scratch.mkdtemp()
    captured = []
    orig_integrate = evop.Operator.integrate
    orig_qkb = qk.QuadKerBase
    state = {"n": None, "phase": 1.0}

    def fake_integrate(self):
        captured.append(self)

    class FakeBase:
        def __init__(self, u, is_log, logx, mode0):
            self.is_singlet = mode0 in [100, 21, 90]
            self.is_QEDsinglet = mode0 in [21, 22, 100, 101, 90]
            self.is_QEDvalence = mode0 in [10200, 10204]
            self.is_log, self.u, self.logx = is_log, u, logx

        @property
        def n(self):
            return state["n"]

        def integrand(self, areas):
            return state["phase"]

    evop.Operator.integrate = fake_integrate
    qk.QuadKerBase = FakeBase
    try:
        with EKO.create(pathlib.Path(d) / "o.tar") as builder:
            eko = builder.load_cards(th, op).build()
            recipe = Evolution(origin=cfg["init"][0] ** 2, target=cfg["targets"][0][0] ** 2, nf=cfg["init"][1], cliff=bool(cfg["_cliff"]))
            parts.evolve(eko, recipe)
            opobj = captured[-1]
            out = {}
            for label in opobj.labels:
                part = opobj.quad_ker(label=label, logx=-1.0, areas=None)
                vals = []
                for N in Ns:
                    state["n"] = N
                    state["phase"] = 1.0
                    re = part(0.7)
                    state["phase"] = -1j
                    im = part(0.7)
                    vals.append(complex(re, im))
                out[label] = vals
            meta = dict(sv_mode=int(opobj.sv_mode), mu2=list(opobj.mu2), a_s=list(opobj.a_s), is_threshold=bool(opobj.is_threshold))
            raise _Done(out, meta)
    except _Done as dn:
        return dn.out, dn.meta
    finally:
        evop.Operator.integrate = orig_integrate
        qk.QuadKerBase = orig_qkb
        shutil.rmtree(d, ignore_errors=True)


class _Done(Exception):
    """Leave the EKO.create context without writing an archive."""

    def __init__(self, out, meta):
        self.out, self.meta = out, meta


def slope_case(cfg):
    n = cfg["qcd"]
    lams = LAMS[n]
    try:
        data = {}
        for lam in lams:
            k0, m0 = kernels_for(cfg, lam, None, NS_N)
            row = {"central": k0}
            for sv in ("expanded", "exponentiated"):
                ks, ms = kernels_for(cfg, lam, sv, NS_N)
                row[sv] = ks
                row[sv + "_meta"] = ms
            data[lam] = row
    except (NotImplementedError, ValueError) as e:
        return dict(status="refused", msg=f"{type(e).__name__}: {str(e)[:100]}")
    except Exception as e:
        import traceback

        return dict(status="crash", msg=f"{type(e).__name__}: {str(e)[:200]}", tb=traceback.format_exc()[-700:])
    out = []
    nev = 0
    labels = list(data[lams[0]]["central"].keys())
    sing = [l for l in labels if l[1] != 0]
    nsl = [l for l in labels if l[1] == 0]
    for sv in ("expanded", "exponentiated"):
        groups = [("ns:" + str(l[0]), [l]) for l in nsl]
        if sing:
            groups.append(("singlet", sing))
        for gname, ls in groups:
            pts = []
            for lam in lams:
                num = den = 0.0
                for l in ls:
                    a = np.array(data[lam][sv][l])
                    b = np.array(data[lam]["central"][l])
                    nev += 2 * len(a)
                    num = max(num, float(np.abs(a - b).max()))
                    den = max(den, float(np.abs(b).max()))
                pts.append((lam, num / max(den, 1e-300)))
            out.append(dict(scheme=sv, group=gname, pts=pts))
    return dict(status="ok", recs=out, nev=nev, meta=data[lams[0]]["exponentiated_meta"])


def fit(pts, floor=1e-13):
    """Asymptotic slope: least squares over the three smallest lambda above the noise floor."""
    use = sorted((l, d) for l, d in pts if d > floor)[:3]
    if len(use) < 3:
        return None, len(use)
    x = np.log([u[0] for u in use])
    y = np.log([u[1] for u in use])
    return float(np.polyfit(x, y, 1)[0]), len(use)


def digest(res):
    return {f"{k[0].hex()}|{k[1]}": hashlib.sha256(np.ascontiguousarray(o).tobytes() + b"|" + (b"-" if e is None else np.ascontiguousarray(e).tobytes())).hexdigest() for k, (o, e) in res.items()}


def xif1_case(cfg):
    try:
        base = digest(w.solve_cfg(dict(cfg, scvar=None, xif=1.0)))
        out = {}
        for sv in ("expanded", "exponentiated"):
            out[sv] = digest(w.solve_cfg(dict(cfg, scvar=sv, xif=1.0)))
    except (NotImplementedError, ValueError) as e:
        return dict(status="refused", msg=f"{type(e).__name__}: {str(e)[:100]}")
    except Exception as e:
        import traceback

        return dict(status="crash", msg=f"{type(e).__name__}: {str(e)[:200]}", tb=traceback.format_exc()[-500:])
    return dict(status="ok", base=base, sv=out)


PATH_LAMS = {1: [1 / 8, 1 / 16, 1 / 32, 1 / 64], 2: [1 / 8, 1 / 16, 1 / 32, 1 / 64], 3: [1 / 4, 1 / 8, 1 / 16, 1 / 32]}


def path_case(cfg):
    """Whole paths across a matching scale (evolution segments, matching operator, couplings through the
    threshold): the runner's own solve at fixed Mellin N (C50's captured plumbing), scale-varied vs central,
    applied to light-parton input moments; the difference must fall like lambda^n."""
    from . import c50

    n = cfg["qcd"]
    lams = PATH_LAMS[n]
    rng = np.random.default_rng(cfg["_seed"])
    f = rng.normal(size=14) + 1j * rng.normal(size=14)
    f[c50.PIDS.index(22)] = 0.0
    for q in range(cfg["_hq"], 7):
        f[c50.PIDS.index(q)] = f[c50.PIDS.index(-q)] = 0.0
    heavy = np.array([cfg["_hq"] <= abs(p) <= 6 for p in c50.PIDS])
    base = c50.strip(cfg)
    recs, nruns = [], 0
    try:
        for N in c50.NVALS[: cfg["_nN"]]:
            pts = {sv: [] for sv in ("expanded", "exponentiated")}
            for lam in lams:
                c0 = dict(base, alphas=cfg["alphas"] * lam, scvar=None, xif=1.0)
                (k0, o0), = c50.nspace_operator(c0, N).items()
                nruns += 1
                ref = o0 @ f
                scale = max(float(np.abs(ref).max()), 1e-300)
                for sv in pts:
                    (k1, o1), = c50.nspace_operator(dict(c0, scvar=sv, xif=cfg["xif"]), N).items()
                    nruns += 1
                    d = np.abs(o1 @ f - ref)
                    pts[sv].append((lam, float(d[~heavy].max() / scale), float(d[heavy].max() / scale)))
            for sv, pp in pts.items():
                recs.append(dict(N=[N.real, N.imag], scheme=sv, group="light-out", pts=[(l, a) for l, a, b in pp]))
                recs.append(dict(N=[N.real, N.imag], scheme=sv, group="heavy-out", pts=[(l, b) for l, a, b in pp]))
    except (NotImplementedError, ValueError) as e:
        return dict(status="refused", msg=f"{type(e).__name__}: {str(e)[:100]}")
    except Exception as e:
        import traceback

        return dict(status="crash", msg=f"{type(e).__name__}: {str(e)[:200]}", tb=traceback.format_exc()[-700:])
    return dict(status="ok", recs=recs, nruns=nruns)


def job(j):
    kind, cfg = j
    c = {k: v for k, v in cfg.items()}
    if kind == "path":
        return path_case(c)
    return slope_case(c) if kind == "slope" else xif1_case({k: v for k, v in c.items() if not k.startswith("_")})


def make_jobs(ck):
    rng = ck.rng
    js = []
    plan = [(1, 4), (2, 8), (3, 6), (4, 2)] if ck.quick else [(1, 60), (2, 160), (3, 120), (4, 30)]
    for qcd, cnt in plan:
        for i in range(cnt):
            pt = "unpol" if (qcd == 4 or rng.random() < 0.6) else str(rng.choice(["pol", "tl"]))
            nf = int(rng.integers(3, 7)) if qcd < 4 else int(rng.integers(3, 6))
            mu0 = float(np.exp(rng.uniform(np.log(1.5), np.log(30.0))))
            mu1 = mu0 * float(np.exp(rng.uniform(np.log(1.5), np.log(20.0)))) if rng.integers(3) else mu0 / float(rng.uniform(1.3, 3.0))
            mu1 = max(mu1, 1.3)
            cfg = dict(
                qcd=qcd, qed=0, method=str(rng.choice(w.METHODS)), pt=pt,
                init=[mu0, nf], targets=[[mu1, nf]],
                masses=[0.5, 0.6, 0.7] if nf == 6 else ([0.5, 0.6, 500.0] if nf == 5 else ([0.5, 400.0, 500.0] if nf == 4 else [300.0, 400.0, 500.0])),
                ratios=[1.0, 1.0, 1.0], xgrid=[1e-2, 0.3, 1.0], degree=1,
                scvar=None, xif=float(rng.choice([0.5, 2.0, 0.7, 1.6])), inversion=None,
                iters=int(rng.integers(1, 5)), alphas=float(rng.uniform(0.11, 0.125)), alphaem=0.007496252, em_running=False,
                max_order=[10, 0], cores=1, n3lo_var=[0] * 7, fhmruvv=True, matching_order=None, scheme="POLE",
                ref=[91.2, nf],
                _cliff=bool(rng.integers(4) == 0),
            )
            if cfg["method"].startswith(("iterate", "perturbative")):
                # the iterated solutions carry an O(1/iterations^2) discretisation error that does not
                # scale like a_s^n (probe: slope 3.1 at N3LO with 1 iteration, 4.2 with 64): compare
                # converged kernels, as the statement is about the perturbative order
                cfg["iters"] = int(rng.integers(48, 80))
            js.append(("slope", cfg))
    # whole paths across a matching scale placed away from the quark mass
    from . import c50

    planp = [(2, 1), (3, 2)] if ck.quick else [(1, 4), (2, 12), (3, 12)]
    for qcd, cnt in planp:
        for i in range(cnt):
            pt = "unpol" if (ck.quick or rng.random() < 0.7) else str(rng.choice(["pol", "tl"]))
            if pt == "tl" and qcd == 3:
                pt = "unpol"
            c = c50.make_cfg(rng, qcd, pt, "up", method=str(rng.choice(["truncated", "iterate-exact", "iterate-expanded"])))
            k = c["_ratios_a"][c["_hq"] - 4]
            if k == 1.0:
                c["_ratios_a"], c["_ratios_b"] = c["_ratios_b"], c["_ratios_a"]
            c["ratios"] = c["_ratios_a"]
            c["xif"] = float(rng.choice([0.5, 2.0, 0.7, 1.6]))
            c["_nN"] = 1 if ck.quick else 2
            js.append(("path", c))
    # xif = 1 identity on stored operators
    plan1 = [(1, 0, 3), (2, 0, 2), (1, 1, 1)] if ck.quick else [(1, 0, 30), (2, 0, 30), (3, 0, 12), (1, 1, 6), (2, 1, 4), (1, 2, 3)]
    for qcd, qed, cnt in plan1:
        for _ in range(cnt):
            c = w.path_cfg(rng, qcd=qcd, qed=qed, max_targets=2, npts=(3,), pts=("unpol", "unpol", "pol", "tl") if not qed else ("unpol",))
            js.append(("xif1", c))
    return js


def run(ck):
    js = make_jobs(ck)
    if ck.replay:
        wit = ck.replay["witness"]
        js = [(wit["kind"], wit["cfg"])]
    for (kind, cfg), st, res in jobs.pmap(job, js, timeout=ck.n(3000, 5 * 3600), item_timeout=ck.n(1500, 3600)):
        ckey = w.cfg_key(cfg)
        if st != "ok":
            ck.case((kind, ckey), nontrivial=False)
            ck.inconclusive(f"job {st}: {str(res)[:120]}")
            continue
        if res["status"] == "refused":
            ck.case((kind, ckey), nontrivial=False)
            ck.hit("refused")
            continue
        if res["status"] == "crash":
            ck.case((kind, ckey), nontrivial=False)
            ck.inconclusive("plumbing crashed: " + res["msg"][:100])
            continue
        if kind == "xif1":
            moved = any(abs(t[0] - cfg["init"][0]) > 1e-6 for t in cfg["targets"])
            for sv, dg in res["sv"].items():
                ck.hit("xif1_bitwise_compared")
                ck.case((kind, ckey, sv), nontrivial=moved, sample=dict(kind="xif=1", order=[cfg["qcd"], cfg["qed"]], scheme=sv, equal=dg == res["base"]))
                if dg != res["base"]:
                    ck.violation(f"C51/xif1/{sv}/{'qed' if cfg['qed'] else 'qcd'}", f"scheme {sv} with xif=1 does not reproduce the unvaried operator bitwise", dict(kind=kind, cfg=cfg, base=res["base"], got=dg))
                else:
                    ck.ok()
            continue
        if kind == "path":
            n = cfg["qcd"]
            ck.hit("path_solves", res["nruns"])
            for rec in res["recs"]:
                sl, npts = fit(rec["pts"])
                key = (kind, ckey, rec["scheme"], rec["group"], tuple(rec["N"]))
                if sl is None:
                    ck.case(key, nontrivial=False)
                    if rec["group"] == "light-out" and all(d == 0.0 for _, d in rec["pts"]):
                        ck.violation(f"C51/path/no-variation/{rec['scheme']}", "scale-varied path operator identical to the central one although xif != 1", dict(kind=kind, cfg=cfg, rec=rec))
                    else:
                        ck.ok()  # e.g. heavy output exactly untouched: nothing to measure
                    continue
                ck.hit("path_slopes_fitted")
                ck.case(key, nontrivial=True, sample=dict(kind="path", order=n, method=cfg["method"], pt=cfg["pt"], init=cfg["init"], target=cfg["targets"][0], ratios=cfg["ratios"], xif=cfg["xif"], scheme=rec["scheme"], group=rec["group"], slope=sl, pts=rec["pts"]))
                if sl < n - 0.3:
                    ck.violation(f"C51/path/slope/{rec['scheme']}/{rec['group']}/order{n}/{cfg['pt']}", f"across a matching scale the scale-varied result differs from the central one like lambda^{sl:.2f} < a_s^{n} ({rec['group']}, N={rec['N']}, method {cfg['method']})", dict(kind=kind, cfg=cfg, rec=rec))
                else:
                    ck.ok()
            continue
        ck.hit("kernel_evaluations", res["nev"])
        n = cfg["qcd"]
        for rec in res["recs"]:
            # intermediate (cliff) segments: the expanded scheme does not act at all
            sl, npts = fit(rec["pts"])
            key = (kind, ckey, rec["scheme"], rec["group"])
            allzero = all(d == 0.0 for _, d in rec["pts"])
            if cfg["_cliff"] and rec["scheme"] == "expanded":
                ck.case(key, nontrivial=False)
                if not allzero:
                    ck.violation("C51/expanded-acts-on-intermediate-segment", "expanded scheme changed the kernel of an intermediate (threshold) segment", dict(kind=kind, cfg=cfg, rec=rec))
                else:
                    ck.ok()
                continue
            if sl is None:
                ck.case(key, nontrivial=False)
                if allzero:
                    ck.violation(f"C51/no-variation/{rec['scheme']}", "scale-varied kernel identical to the central one although xif != 1", dict(kind=kind, cfg=cfg, rec=rec))
                else:
                    ck.inconclusive(f"only {npts} points above the noise floor")
                continue
            ck.hit("slopes_fitted")
            ck.case(key, nontrivial=True, sample=dict(order=n, method=cfg["method"], pt=cfg["pt"], nf=cfg["init"][1], xif=cfg["xif"], scheme=rec["scheme"], group=rec["group"], slope=sl, pts=rec["pts"]))
            if sl < n - 0.3:
                sect = "singlet" if rec["group"] == "singlet" else "ns"
                ck.violation(f"C51/slope/{rec['scheme']}/{sect}/order{n}/{cfg['pt']}", f"relative difference to the central kernel scales like lambda^{sl:.2f} < a_s^{n} ({rec['group']}, method {cfg['method']})", dict(kind=kind, cfg=cfg, rec=rec, slope=sl))
            else:
                ck.ok()
