"""C52: heavy flavours that are never active are transported unchanged."""

import numpy as np

from .. import jobs, workload as w

META = dict(
    level="exploration",
    design_ref="DESIGN.md §5 C52",
    technique="end-to-end monitor: real eko.solve along random flavour paths; rows/columns of never-activated heavy quarks in every stored operator compared with delta_x and zero",
    level_text="Real solves over random upward/downward/fixed flavour paths, all orders and methods (incl. QED, polarized, time-like), checking in each stored operator that every never-activated quark and antiquark is carried with weight one and neither receives from nor feeds any other channel.",
    level_note="Tolerance 1e-14 absolute (q=(q+ + q-)/2 reconstructed from two identity members); real leakage is O(a_s)>=1e-3. Refused configurations are skipped and counted.",
    rule="case = one (configuration, target, inactive quark) triple; distinct by configuration+quark; non-trivial = the path contains at least one really evolved segment (mu changes) and the operator was produced",
    min_nontrivial=15,
    required_hits=["inactive_rows_cols_compared"],
    max_inconclusive_frac=0.25,
)

PIDS = [22, -6, -5, -4, -3, -2, -1, 21, 1, 2, 3, 4, 5, 6]
TOL = 1e-14


def run_case(cfg):
    try:
        res = w.solve_cfg(cfg)
    except (NotImplementedError, ValueError) as e:
        return dict(status="refused", msg=f"{type(e).__name__}: {str(e)[:120]}")
    except Exception as e:
        import traceback

        return dict(status="crash", msg=f"{type(e).__name__}: {str(e)[:200]}", tb=traceback.format_exc()[-600:])
    nf0 = cfg["init"][1]
    out = []
    for (mu2, nf), (o, err) in res.items():
        n = o.shape[1]
        top = max(nf0, nf)
        for q in range(top + 1, 7):
            for pid in (q, -q):
                i = PIDS.index(pid)
                row = o[i].copy()  # [x_out, pid_in, x_in]
                col = o[:, :, i, :].copy()  # [pid_out, x_out, x_in]
                exp_row = np.zeros_like(row)
                exp_row[:, i, :] = np.eye(n)
                exp_col = np.zeros_like(col)
                exp_col[i, :, :] = np.eye(n)
                dev_row = np.abs(row - exp_row)
                dev_col = np.abs(col - exp_col)
                e_dev = 0.0
                if err is not None:
                    e_dev = max(float(np.abs(err[i]).max()), float(np.abs(err[:, :, i, :]).max()))
                rec = dict(target=[mu2, nf], pid=pid, dev_row=float(dev_row.max()), dev_col=float(dev_col.max()), err=e_dev)
                if dev_row.max() > TOL:
                    j = np.unravel_index(np.argmax(dev_row), dev_row.shape)
                    rec["row_from_pid"] = PIDS[j[1]]
                    rec["row_self"] = bool(j[1] == i)
                if dev_col.max() > TOL:
                    j = np.unravel_index(np.argmax(dev_col), dev_col.shape)
                    rec["col_to_pid"] = PIDS[j[0]]
                    rec["col_self"] = bool(j[0] == i)
                out.append(rec)
    return dict(status="ok", recs=out)


def configs(ck):
    rng = ck.rng
    cfgs = []
    plan = []  # (qcd, qed, pt, count)
    if ck.quick:
        plan = [(1, 0, "unpol", 10), (2, 0, "unpol", 10), (3, 0, "unpol", 5), (2, 0, "pol", 4), (2, 0, "tl", 4), (1, 1, "unpol", 4), (2, 1, "unpol", 2), (3, 0, "pol", 2), (4, 0, "unpol", 2)]
    else:
        plan = [(1, 0, "unpol", 120), (2, 0, "unpol", 160), (3, 0, "unpol", 100), (1, 0, "pol", 30), (2, 0, "pol", 40), (3, 0, "pol", 30), (1, 0, "tl", 30), (2, 0, "tl", 40), (3, 0, "tl", 30), (1, 1, "unpol", 40), (2, 1, "unpol", 30), (2, 2, "unpol", 20), (3, 1, "unpol", 10), (4, 0, "unpol", 24)]
    pairs = [(3, 3), (3, 4), (4, 4), (4, 5), (4, 3), (5, 4), (3, 5), (5, 3), (5, 5)]
    for qcd, qed, pt, cnt in plan:
        for _ in range(cnt):
            c = w.path_cfg(rng, qcd=qcd, qed=qed, nf_pairs=pairs, max_targets=2 if qcd <= 2 else 1, pts=(pt,), npts=(3,) if qcd >= 3 or qed else (3, 4), scvars=(None, None, "exponentiated", "expanded") if qcd <= 3 else (None,))
            if qcd == 4:
                c["targets"] = c["targets"][:1]
                # keep N3LO affordable: single segment or one wall
                c["init"][1], c["targets"][0][1] = (4, 4) if rng.integers(2) else (3, 4)
                c["xgrid"] = c["xgrid"][:3] if len(c["xgrid"]) == 3 else [1e-2, 0.3, 1.0]
                c["degree"] = 1
            cfgs.append(c)
    return cfgs


def run(ck):
    cfgs = configs(ck)
    if ck.replay:
        cfgs = [ck.replay["witness"]["cfg"]]
    for cfg, st, res in jobs.pmap(run_case, cfgs, timeout=ck.n(2400, 4 * 3600)):
        ckey = w.cfg_key(cfg)
        if st != "ok":
            ck.case(ckey, nontrivial=False)
            ck.inconclusive(f"job {st}: {str(res)[:100]}")
            continue
        if res["status"] == "refused":
            ck.case(ckey, nontrivial=False)
            ck.hit("refused")
            continue
        if res["status"] == "crash":
            ck.case(ckey, nontrivial=False)
            ck.hit("crash_left_to_C04")
            ck.inconclusive("solver crashed (C04's business): " + res["msg"][:80])
            continue
        moved = any(abs(t[0] - cfg["init"][0]) > 1e-6 for t in cfg["targets"])
        for rec in res["recs"]:
            ck.hit("inactive_rows_cols_compared")
            ck.case((ckey, rec["pid"], tuple(rec["target"])), nontrivial=moved, sample=dict(order=[cfg["qcd"], cfg["qed"]], method=cfg["method"], pt=cfg["pt"], init=cfg["init"], **rec))
            bad = rec["dev_row"] > TOL or rec["dev_col"] > TOL or rec["err"] > 0.0
            if not bad:
                ck.ok()
                continue
            kind = []
            if rec["dev_row"] > TOL:
                kind.append("weight" if rec.get("row_self") else "receives")
            if rec["dev_col"] > TOL:
                kind.append("weight" if rec.get("col_self") else "feeds")
            if rec["err"] > 0:
                kind.append("error-nonzero")
            path = "up" if rec["target"][1] > cfg["init"][1] else ("down" if rec["target"][1] < cfg["init"][1] else "fixed")
            key = f"C52/{'qed' if cfg['qed'] else 'qcd'}/{path}/q{abs(rec['pid'])}/{'+'.join(sorted(set(kind)))}"
            ck.violation(key, f"inactive quark pid={rec['pid']} not transported unchanged: row dev {rec['dev_row']:.3g}, col dev {rec['dev_col']:.3g}, err {rec['err']:.3g}", dict(cfg=cfg, rec=rec))
