"""C18: MSbar heavy-quark masses are computable fixed points m(m)=m; mass decoupling."""

import warnings

import numpy as np

from ..jobs import pmap
from ..oracles import coupling_path as cp
from ..oracles import decoupling as dc
from ..oracles import literature as lit
from ..oracles import msbar_model as om

META = dict(
    level="exploration",
    design_ref="DESIGN.md §5 C18",
    technique="reference-model monitor: msbar_masses.compute outcomes are re-derived by an independent model (mpmath quadrature of gamma_m/beta with literature coefficients, sympy-derived expanded kernel, RG-derived mass decoupling, ODE couplings) which evolves every reference mass to the returned scale and checks m(m)=m; documented input rules decide accept/ValueError; the decoupling table is compared with the RG-derived one",
    level_text="Randomised exploration over coupling reference nf 3-6, c/b/t reference masses and scales on both sides (incl. other patches, i.e. threshold crossings), orders 1-4, exact/expanded, matching ratios and xif in [0.5,2]; exhaustive over the finite mass-decoupling table.",
    level_note="Trusted base: literature gamma_m/beta (C20 transcriptions), CKS 1998 constants (exact + decimal), sympy, mpmath. For the expanded method the strong coupling values are taken from the code's own Couplings object (their correctness is C15/C16); the mass kernel, the decoupling and the patch bookkeeping are independent. Threshold crossings are decided only where the location of the reference scale w.r.t. the walls is unambiguous.",
    rule="case = (kind, nf_ref, order, method, quark, rounded inputs); non-trivial fixed-point case: reference scale differs from the mass by > 2% (the running is exercised); crossing case: the reference scale sits in another patch than the one where the mass is solved; rejection case: exactly one documented rule broken",
    min_nontrivial=120,
    required_hits=["compute_returned", "fixed_point_same_patch", "fixed_point_crossing", "rejects_inconsistent", "mass_table_entry", "evolve_wall_ratio"],
    max_inconclusive_frac=0.05,
)

TOL_EXACT = 1e-4  # quad epsrel 1e-5 on the exponent, fsolve xtol 1.5e-8, Radau rtol 1e-6
TOL_EXPANDED = 2e-6  # same couplings on both sides; fsolve xtol 1.5e-8 on m^2
DEC_TOL = 6e-4


def _alphas_at(mu, rng):
    b0 = 23 / 3
    a = 0.118 / 4 / np.pi
    a_mu = a / (1 + b0 * a * np.log(mu**2 / 91.2**2))
    return float(np.clip(a_mu * 4 * np.pi * np.exp(rng.uniform(-0.1, 0.05)), 0.07, 0.32))


def _lo_mass(m, mu_from, mu_to):
    """crude LO running (nf=5 everywhere) used only to invent plausible reference values"""
    b0, g0 = 23 / 3, 4.0
    a = lambda mu: (0.118 / 4 / np.pi) / (1 + b0 * 0.118 / 4 / np.pi * np.log(mu**2 / 91.2**2))
    return m * (a(mu_to) / a(mu_from)) ** (g0 / b0)


def _gen(rng, simple=False):
    mm = np.array([1.27, 4.18, 163.0]) * np.exp(rng.uniform(-0.08, 0.08, 3))  # target m(m)
    nf_ref = int(rng.integers(3, 7))
    # coupling reference inside the nf_ref patch (between the neighbouring masses)
    lo = [1.6, mm[0] * 1.15, mm[1] * 1.15, mm[2] * 1.15][nf_ref - 3]
    hi = [mm[0] * 0.9, mm[1] * 0.9, mm[2] * 0.9, 1000.0][nf_ref - 3]
    if nf_ref == 3:
        lo, hi = 1.05, mm[0] * 0.97
    mu_ref = float(np.exp(rng.uniform(np.log(lo), np.log(hi))))
    scales, values = [], []
    for i in range(3):
        m = mm[i]
        active = i + 4 <= nf_ref
        if rng.integers(0, 5) == 0:
            q = m  # given at its own scale
        elif active:  # backward: m <= Q (<= mu_ref for the heaviest active one)
            top = mu_ref if i + 4 == nf_ref else [mm[1] * 3, 400.0, 1500.0][i]
            if not simple and i + 4 < nf_ref and rng.integers(0, 2):
                top = max(top, 300.0)  # reference in a higher patch: crossing on the way down
            q = float(np.exp(rng.uniform(np.log(m * 1.03), np.log(max(top, m * 1.05)))))
            if i + 4 == nf_ref:
                q = min(q, mu_ref)
        else:  # forward: Q < m (>= mu_ref for the lightest inactive one)
            bot = mu_ref if i + 4 == nf_ref + 1 else [1.2, 1.4, 1.6][i]
            if simple and i + 4 > nf_ref + 1:
                bot = mm[i - 1] * 1.3
            q = float(np.exp(rng.uniform(np.log(min(bot, m * 0.9)), np.log(m * 0.97))))
            if i + 4 == nf_ref + 1:
                q = max(q, mu_ref)
        scales.append(float(q))
        values.append(float(m if q == m else _lo_mass(m, m, q)))
    order = (int(rng.integers(1, 5)), 0)
    p = dict(
        masses=values,
        scales=scales,
        mu_ref=mu_ref,
        nf_ref=nf_ref,
        alphas=_alphas_at(mu_ref, rng),
        order=order,
        method=str(rng.choice(["exact", "expanded"])),
        matching=[1.0, 1.0, 1.0] if rng.integers(0, 3) == 0 else np.exp(rng.uniform(np.log(0.5), np.log(2.0), 3)).tolist(),
        xif2=1.0 if rng.integers(0, 3) == 0 else float(np.exp(rng.uniform(np.log(0.25), np.log(4.0)))),
        # half of the inputs take the runner's route (theory card -> runcards.masses), which has to hand the
        # squared matching ratios and xif^2 to the solver
        via_card=bool(rng.integers(0, 2)),
    )
    return p


def _call_via_card(p):
    """The route the runner takes: a theory card (linear matching ratios, xif) -> eko.io.runcards.masses."""
    from eko.io import runcards
    from eko.io.types import EvolutionMethod

    from .. import workload as w

    th = w.raw_theory(
        order=tuple(p["order"]), alphas=p["alphas"], alphaem=0.007496, ref=(p["mu_ref"], p["nf_ref"]),
        masses=p["masses"], mass_refs=p["scales"], scheme="MSBAR",
        ratios=[float(np.sqrt(k)) for k in p["matching"]], xif=float(np.sqrt(p["xif2"])),
    )
    card = runcards.TheoryCard.from_dict(th)
    meth = EvolutionMethod("iterate-exact" if p["method"] == "exact" else "truncated")
    return np.array(runcards.masses(card, meth))


def _call_compute(p):
    if p.get("via_card"):
        return _call_via_card(p)
    from eko import msbar_masses
    from eko.quantities.couplings import CouplingEvolutionMethod, CouplingsInfo
    from eko.quantities.heavy_quarks import HeavyQuarkMasses, QuarkMassRef

    hq = HeavyQuarkMasses([QuarkMassRef([m, s]) for m, s in zip(p["masses"], p["scales"])])
    ci = CouplingsInfo(alphas=p["alphas"], alphaem=0.007496, ref=(p["mu_ref"], p["nf_ref"]))
    return msbar_masses.compute(hq, ci, tuple(p["order"]), CouplingEvolutionMethod(p["method"]), list(p["matching"]), p["xif2"])


def _as_provider(p, masses2):
    """a_s^(nf)(mu_R^2): independent ODE model (exact) or the code's Couplings (expanded)."""
    ratios = [k * p["xif2"] for k in p["matching"]]
    aref = np.array([p["alphas"], 0.007496]) / 4 / np.pi
    if p["method"] == "exact":
        orc = cp.OracleCouplings(aref, p["mu_ref"] ** 2, p["nf_ref"], tuple(p["order"]), False, masses2, ratios, "MSBAR")

        def f(mu2, nf):
            a, ok = orc.a(mu2, nf)
            return float(a[0]) if ok else np.nan

        return f
    sc = cp.make_couplings(p["alphas"], 0.007496, p["mu_ref"], p["nf_ref"], tuple(p["order"]), "expanded", False, masses2, ratios, "MSBAR")
    return lambda mu2, nf: float(sc.a(mu2, nf)[0])


def _eval(p):
    warnings.filterwarnings("ignore")
    np.seterr(all="ignore")
    out = dict(p=p, result=None, raised=None, quarks=[])
    try:
        res = _call_compute(p)
        out["result"] = [float(x) for x in res]
    except ValueError as e:
        out["raised"] = ("ValueError", str(e)[:200])
        return out
    except Exception as e:
        import traceback

        out["raised"] = (type(e).__name__, f"{e} @ {traceback.format_exc().strip().splitlines()[-3][:160]}")
        return out
    m2 = out["result"]
    if not (np.all(np.isfinite(m2)) and np.all(np.array(m2) > 0)):
        return out
    n = p["order"][0]
    xif2 = p["xif2"]
    a_s = _as_provider(p, m2)
    for i in range(3):
        mref, q = p["masses"][i], p["scales"][i]
        row = dict(i=i, m_code=float(np.sqrt(m2[i])), Q=q, m_ref=mref)
        if q == mref:
            row["kind"] = "given-at-own-scale"
            out["quarks"].append(row)
            continue
        active = i + 4 <= p["nf_ref"]
        nf_target = i + 4 if active else i + 3
        # which patch does the reference scale sit in?  unambiguous only if Q^2 is on the same
        # side of every plausible location of each other wall
        nf_cur, ambiguous = 3, False
        for j in range(3):
            if j == i:
                nf_cur += 1 if active else 0
                continue
            k = p["matching"][j]
            cands = [m2[j], m2[j] * k, m2[j] * k * xif2, m2[j] * k * k * xif2, m2[j] / xif2, m2[j] * k / xif2]
            if min(cands) * 0.999 <= q * q <= max(cands) * 1.001:
                ambiguous = True
            nf_cur += 1 if q * q > m2[j] else 0
        row.update(nf_target=nf_target, nf_cur=nf_cur, ambiguous=ambiguous)
        if ambiguous:
            row["kind"] = "ambiguous"
            out["quarks"].append(row)
            continue
        row["kind"] = "crossing" if nf_cur != nf_target else "same-patch"

        def model(variant):
            """variant 'rg': walls at k*m_h^2 (mass scale), L = ln(k*xif2), decoupling factor on m.

            The other variants describe two specific mechanisms and are used only to
            *name* a violation: 'unsquared' applies the factor once to m^2; 'placement'
            additionally puts the wall at k^2*xif2*m_h^2 and uses L = ln k."""
            m = mref
            q2 = q * q
            amax = 0.0
            if nf_cur != nf_target:
                step = 1 if nf_target > nf_cur else -1
                nf = nf_cur
                while nf != nf_target:
                    # wall between nf and nf+step: quark index of the (de)activated flavour
                    j = nf - 3 if step > 0 else nf - 4
                    k = p["matching"][j]
                    if variant == "placement":
                        wall, L = m2[j] * k * k * xif2, float(np.log(k))
                    else:
                        wall, L = m2[j] * k, float(np.log(k * xif2))
                    a0, a1 = a_s(q2 * xif2, nf), a_s(wall * xif2, nf)
                    amax = max(amax, a0, a1)
                    m *= om.kernel(a0, a1, nf, n, p["method"])
                    nf_low = min(nf, nf + step)
                    a_up = a_s(wall * xif2, nf_low + 1)
                    F = om.mass_matching_factor(a_up, nf_low, L, n, "up" if step > 0 else "down")
                    m *= F if variant == "rg" else np.sqrt(F)
                    q2 = wall
                    nf += step
            a0, a1 = a_s(q2 * xif2, nf_target), a_s(m2[i] * xif2, nf_target)
            amax = max(amax, a0, a1)
            m *= om.kernel(a0, a1, nf_target, n, p["method"])
            return float(m), float(amax)

        try:
            m, amax = model("rg")
            row.update(m_model_at_m_code=m, amax=amax)
            if row["kind"] == "crossing":
                row["m_unsquared"] = model("unsquared")[0]
                row["m_placement"] = model("placement")[0]
        except Exception as e:
            row["model_error"] = f"{type(e).__name__}: {e}"
        out["quarks"].append(row)
    return out


def _table_checks(ck):
    from eko import msbar_masses as mm

    for nf in (3, 4, 5):
        for direction, fn, orc in (("up", mm.compute_matching_coeffs_up, dc.mass_table_up), ("down", mm.compute_matching_coeffs_down, dc.mass_table_down)):
            got = np.array(fn(nf), dtype=float)
            want = np.array(orc(nf))
            for n in range(4):
                for l in range(4):
                    ck.hit("mass_table_entry")
                    ck.case(("mtable", nf, direction, n, l), nontrivial=want[n][l] != 0.0, sample=dict(nf=nf, direction=direction, n=n, l=l, code=got[n, l], rg_derived=want[n][l]) if (n, l) == (3, 2) and nf == 4 else None)
                    tol = DEC_TOL if (n, l) in ((3, 0), (3, 1)) else 1e-11 * max(1.0, abs(want[n][l]))
                    if abs(got[n, l] - want[n][l]) > tol:
                        ck.violation(
                            f"C18/mass-table/{direction}/d{n}{l}",
                            f"mass decoupling {direction} nf={nf}: d[{n},{l}]={got[n, l]!r}, RG invariance + CKS constants give {want[n][l]!r}",
                            dict(nf=nf, direction=direction, n=n, l=l, code=got[n, l], expected=want[n][l]),
                        )
                    else:
                        ck.ok()


def _break(p, rng):
    """Break exactly one documented rule of a consistent input."""
    q = dict(p, masses=list(p["masses"]), scales=list(p["scales"]))
    nf_ref = p["nf_ref"]
    opts = []
    for i in range(3):
        active = i + 4 <= nf_ref
        if i + 4 == nf_ref:
            opts.append(("Qm-above-Qref", i))
        if i + 4 == nf_ref + 1:
            opts.append(("Qm-below-Qref", i))
        opts.append(("backward-Qm-below-m" if active else "forward-Qm-above-m", i))
    rule, i = opts[int(rng.integers(0, len(opts)))]
    m = q["masses"][i]
    if rule == "Qm-above-Qref":
        q["scales"][i] = p["mu_ref"] * float(rng.uniform(1.01, 1.5))
        q["masses"][i] = min(m, q["scales"][i] * 0.9)  # keep the backward rule satisfied
    elif rule == "Qm-below-Qref":
        q["scales"][i] = p["mu_ref"] * float(rng.uniform(0.6, 0.99))
        q["masses"][i] = max(m, q["scales"][i] * 1.2)
    elif rule == "backward-Qm-below-m":
        q["scales"][i] = m * float(rng.uniform(0.5, 0.98))
        if i + 4 == nf_ref:
            q["scales"][i] = min(q["scales"][i], p["mu_ref"])
    else:
        q["scales"][i] = m * float(rng.uniform(1.02, 1.6))
        if i + 4 == nf_ref + 1:
            q["scales"][i] = max(q["scales"][i], p["mu_ref"])
    q["broken"] = rule
    return q


def _eval_wall(p):
    """msbar_masses.evolve across one wall: observed ratio just above / just below."""
    warnings.filterwarnings("ignore")
    from eko import msbar_masses as mm

    out = dict(p=p)
    try:
        # evolve() places the walls at (walls of the coupling object) x (its thresholds_ratios argument)
        # and uses ln(thresholds_ratios) in the decoupling: unit ratios on the coupling object,
        # distinct ones passed to evolve
        sc = cp.make_couplings(p["alphas"], 0.007496, p["mu_ref"], p["nf_ref"], tuple(p["order"]), p["method"], False, p["masses2"], [1.0, 1.0, 1.0], "MSBAR")
        nf = p["nf_low"]
        wall = p["masses2"][nf - 3] * p["ratios"][nf - 3]
        one = p["ratios"]
        if p["direction"] == "up":
            lo = mm.evolve(1.0, wall * 0.5, sc, one, 1.0, wall, nf_ref=nf, nf_to=nf)
            hi = mm.evolve(1.0, wall * 0.5, sc, one, 1.0, wall, nf_ref=nf, nf_to=nf + 1)
            out.update(src=float(lo), dst=float(hi), a_up=float(sc.a(wall, nf + 1)[0]))
        else:
            hi = mm.evolve(1.0, wall * 2.0, sc, one, 1.0, wall, nf_ref=nf + 1, nf_to=nf + 1)
            lo = mm.evolve(1.0, wall * 2.0, sc, one, 1.0, wall, nf_ref=nf + 1, nf_to=nf)
            out.update(src=float(hi), dst=float(lo), a_up=float(sc.a(wall, nf + 1)[0]))
    except Exception as e:
        out["error"] = f"{type(e).__name__}: {e}"
    return out


def run(ck):
    bad = lit.selfcheck() + dc.selfcheck()
    if bad:
        ck.inconclusive(f"oracle transcriptions disagree: {bad[:2]}")
        return
    _table_checks(ck)
    rng = ck.rng
    n = ck.n(150, 5000)
    inputs = [_gen(rng, simple=(k % 3 == 0)) for k in range(n)]
    inputs = [p for p in inputs if om.classify_inputs(p["masses"], p["scales"], p["mu_ref"], p["nf_ref"]) is None]
    broken = [_break(inputs[int(rng.integers(0, len(inputs)))], rng) for _ in range(ck.n(60, 1500))]
    broken = [q for q in broken if om.classify_inputs(q["masses"], q["scales"], q["mu_ref"], q["nf_ref"]) is not None]
    worst = dict(same=0.0, crossing=0.0)
    for p, st, out in pmap(_eval, inputs + broken, timeout=ck.n(1200, 7200)):
        base = (p["nf_ref"], tuple(p["order"]), p["method"], round(p["mu_ref"], 3), round(p["alphas"], 4), tuple(round(s, 3) for s in p["scales"]))
        cfg = f"nfref{p['nf_ref']}/{p['method']}"
        if st != "ok":
            ck.case(("input",) + base, nontrivial=False)
            ck.inconclusive(f"worker {st}: {str(out)[:100]}")
            continue
        if "broken" in p:
            ck.hit("rejects_inconsistent")
            ck.hit("reject_rule_" + p["broken"])
            ck.case(("reject", p["broken"]) + base, nontrivial=True)
            if out["raised"] is None or out["raised"][0] != "ValueError":
                ck.violation(
                    f"C18/accepts-inconsistent/{p['broken']}/nfref{p['nf_ref']}",
                    f"input breaking the rule '{p['broken']}' was not refused with ValueError: {'returned ' + str(np.sqrt(out['result']).tolist()) if out['raised'] is None else out['raised']}",
                    dict(params=p, seed=ck.seed),
                )
            else:
                ck.ok()
            continue
        # consistent input
        ck.case(("compute",) + base, nontrivial=any(abs(q / m - 1) > 0.02 for q, m in zip(p["scales"], p["masses"])), sample=dict(kind="compute", nf_ref=p["nf_ref"], order=p["order"], method=p["method"], masses=p["masses"], scales=p["scales"], result=None if out["result"] is None else np.sqrt(out["result"]).tolist()))
        if out["raised"] is not None:
            exc, msg = out["raised"]
            site = "sorted" if "sorted" in msg else ("rule" if exc == "ValueError" else exc)
            vkey = f"C18/raises/{site}/{cfg}" if exc == "ValueError" else f"C18/raises/{site}"
            ck.violation(vkey, f"consistent MSbar input raised {exc}: {msg}", dict(params=p, seed=ck.seed))
            continue
        ck.hit("compute_returned")
        r = np.array(out["result"])
        if not np.all(np.isfinite(r)) or np.any(r <= 0) or np.any(np.diff(r) < 0):
            ck.violation(f"C18/result-not-sorted-finite/{cfg}", f"compute returned {r.tolist()}", dict(params=p, seed=ck.seed))
            continue
        ck.ok()
        for row in out["quarks"]:
            qk = "cbt"[row["i"]]
            key = ("quark", qk, row["kind"]) + base
            if row["kind"] == "given-at-own-scale":
                ck.case(key, nontrivial=False)
                if row["m_code"] != row["m_ref"] and abs(row["m_code"] / row["m_ref"] - 1) > 1e-15:
                    ck.violation(f"C18/own-scale-changed/{qk}", f"m({row['Q']})={row['m_ref']} given at its own scale came back as {row['m_code']}", dict(params=p, row=row, seed=ck.seed))
                else:
                    ck.ok()
                continue
            if row["kind"] == "ambiguous":
                continue
            if "model_error" in row or not np.isfinite(row.get("m_model_at_m_code", np.nan)) or row["amax"] * 4 * np.pi > 0.6:
                ck.case(key, nontrivial=False)
                ck.inconclusive(f"model could not evaluate: {row.get('model_error', 'non-perturbative/NaN')}"[:90])
                continue
            res = abs(row["m_model_at_m_code"] / row["m_code"] - 1)
            mon = "fixed_point_same_patch" if row["kind"] == "same-patch" else "fixed_point_crossing"
            ck.hit(mon)
            ck.case(key, nontrivial=abs(row["Q"] / row["m_code"] - 1) > 0.02, sample=dict(kind=row["kind"], quark=qk, nf_ref=p["nf_ref"], order=p["order"], method=p["method"], Q=row["Q"], m_ref=row["m_ref"], m_code=row["m_code"], model_m_at_m_code=row["m_model_at_m_code"]) if row["kind"] == "crossing" else None)
            tol = TOL_EXACT if p["method"] == "exact" else TOL_EXPANDED
            if row["kind"] == "crossing":
                tol += 2 * DEC_TOL * row["amax"] ** 3
            wk = "same" if row["kind"] == "same-patch" else "crossing"
            if res <= tol:
                worst[wk] = max(worst[wk], res)
            if res > tol:
                k1 = all(k == 1.0 for k in p["matching"])
                x1 = p["xif2"] == 1.0
                cls = ("k1" if k1 else "kvar") + "-" + ("xif1" if x1 else "xifvar")
                direction = "fwd" if row["nf_target"] == row["i"] + 3 else "bwd"
                vkey = f"C18/fixed-point/{row['kind']}/{direction}/{p['method']}/{cls}"
                if row["kind"] == "crossing":
                    # name two specific mechanisms (each reproduces the code only if it is the cause)
                    if abs(row["m_unsquared"] / row["m_code"] - 1) <= tol:
                        vkey = "C18/fixed-point/crossing/matching-factor-applied-once-to-m2"
                    elif cls != "k1-xif1" and abs(row["m_placement"] / row["m_code"] - 1) <= tol:
                        vkey = "C18/fixed-point/crossing/wall-at-k2xif2-log-k"
                ck.violation(
                    vkey,
                    f"{qk}: running m({row['Q']:.4g})={row['m_ref']:.6g} to mu=m_code={row['m_code']:.8g} in nf={row['nf_target']} gives {row['m_model_at_m_code']:.8g} (rel {res:.2e} > {tol:.1e})",
                    dict(params=p, row=row, result=np.sqrt(r).tolist(), seed=ck.seed),
                )
            else:
                ck.ok()

    # ---- observed mass ratio across a wall on msbar_masses.evolve (decoupling as applied)
    walls = []
    for _ in range(ck.n(60, 1500)):
        m = np.array([1.27, 4.18, 163.0]) * np.exp(rng.uniform(-0.08, 0.08, 3))
        mu_ref = float(np.exp(rng.uniform(np.log(2.0), np.log(300.0))))
        ratios = np.exp(rng.uniform(np.log(0.5), np.log(2.0), 3)).tolist()
        wl = [a * b for a, b in zip((m**2).tolist(), ratios)]
        walls.append(
            dict(
                masses2=(m**2).tolist(),
                ratios=ratios,
                mu_ref=mu_ref,
                nf_ref=cp.nf_default(mu_ref**2, (m**2).tolist()),
                alphas=_alphas_at(mu_ref, rng),
                order=(int(rng.integers(1, 5)), 0),
                method=str(rng.choice(["exact", "expanded"])),
                nf_low=int(rng.integers(3, 6)),
                direction=str(rng.choice(["up", "down"])),
            )
        )
    for p, st, out in pmap(_eval_wall, walls, timeout=ck.n(600, 3600)):
        key = ("evolve-wall", p["nf_low"], p["direction"], tuple(p["order"]), p["method"], round(p["mu_ref"], 3))
        if st != "ok":
            ck.case(key, nontrivial=False)
            ck.inconclusive(f"wall worker {st}")
            continue
        if "error" in out:
            ck.case(key)
            ck.violation(f"C18/evolve-raises/{p['direction']}", f"msbar_masses.evolve across a wall raised {out['error']}", dict(params=p, seed=ck.seed))
            continue
        nf = p["nf_low"]
        L = float(np.log(p["ratios"][nf - 3]))
        # evolve() works with squared masses: the decoupling factor of m enters squared
        F = om.mass_matching_factor(out["a_up"], nf, L, p["order"][0], p["direction"]) ** 2
        obs = out["dst"] / out["src"]
        ck.hit("evolve_wall_ratio")
        ck.case(key, nontrivial=abs(F - 1) > 1e-7, sample=dict(kind="evolve-wall", nf_low=nf, direction=p["direction"], order=p["order"], a_up=out["a_up"], observed=obs, expected=F))
        if abs(obs - F) > 1e-12 + 4 * DEC_TOL * out["a_up"] ** 3:
            vkey = f"C18/evolve-wall/{p['direction']}/nf{nf}/order{p['order'][0]}"
            if abs(obs - np.sqrt(F)) <= 1e-12 + 4 * DEC_TOL * out["a_up"] ** 3:
                vkey = "C18/evolve-wall/matching-factor-applied-once-to-m2"
            ck.violation(
                vkey,
                f"m^2 ratio across the nf={nf}|{nf + 1} wall ({p['direction']}) is {obs!r}, decoupling relation gives {F!r}",
                dict(params=p, observed=obs, expected=F, a_up=out["a_up"], seed=ck.seed),
            )
        else:
            ck.ok()
    ck.note(worst_held_fixed_point_same_patch=worst["same"], worst_held_fixed_point_crossing=worst["crossing"])
