"""C02: each final EKO is the ordered product of the parts along its matched path; parts computed once."""

import io
import pathlib
import tarfile

import numpy as np

from .. import jobs, scratch, workload as w

META = dict(
    level="exploration",
    design_ref="DESIGN.md §5 C02",
    technique="event-log monitor on the real solve (wrappers on runner.parts.evolve/match, Inventory.__setitem__, operators.join) + offline checker: archive members re-read with plain lz4/numpy and multiplied along an independently computed reference path",
    level_text="Real multi-target solves over random upward/downward/mixed flavour paths; offline the stored operator of every target is compared with the ordered product of the stored parts along a reference path written from the property statement, the error tensor with the first-order rule, and the compute/store event log with exactly-once per required part.",
    level_note="Reference walker is 25 lines written from the statement (trusted). Values compared to 1e-12 relative (association of the fold only affects rounding). Scales in headers compared to 1e-12 relative.",
    rule="case = one (configuration, target) pair; distinct by configuration+target; non-trivial = path has >=2 parts and consecutive parts do not commute (||AB-BA|| > 1e-6 ||AB||) — measured",
    min_nontrivial=10,
    required_hits=["target_product_compared", "evolve_calls", "parts_stored"],
    max_inconclusive_frac=0.25,
)
META["level_text"] += ' A third of the cases are preceded, in the same process, by a decoy solve with the same theory and another starting point.'

RT = 1e-12


# ------------------------------------------------------------- reference walker
def ref_path(walls2, origin, target):
    """Matched path from the property statement. walls2: squared matching scales of c,b,t."""
    mu0, nf0 = origin
    muf, nff = target
    step = 1 if nff > nf0 else -1
    blocks = []
    cur, nf = mu0, nf0
    while nf != nff:
        hq = nf + 1 if step > 0 else nf  # quark being (de)activated
        wall = walls2[hq - 4]
        blocks.append(("E", cur, wall, nf, True))  # intermediate segment: reaches a matching scale
        blocks.append(("M", wall, hq, step < 0))
        cur, nf = wall, nf + step
    blocks.append(("E", cur, muf, nf, False))  # final segment
    return blocks


def nf_default(walls2, mu2):
    return 3 + sum(1 for wl in walls2 if mu2 >= wl)


def close(a, b):
    return abs(a - b) <= 1e-12 * max(abs(a), abs(b), 1e-300)


def dot4(a, b):
    return np.einsum("aibj,bjck->aick", a, b)


def load_op(raw):
    import lz4.frame

    content = np.load(io.BytesIO(lz4.frame.decompress(raw)))
    if isinstance(content, np.ndarray):
        return content, None
    return content["operator"], content["error"]


def read_archive(path):
    """Plain reader: {dir: [(header dict, op, err)]} without eko.io."""
    import yaml

    out = {"parts": [], "parts/matching": [], "operators": [], "recipes": [], "recipes/matching": []}
    with tarfile.open(path) as tar:
        members = {m.name: m for m in tar.getmembers() if m.isfile()}
        byname = {}
        for name, m in members.items():
            rel = str(pathlib.PurePosixPath(name))  # normalises a leading "./"
            byname[rel] = tar.extractfile(m).read()
    for rel, raw in byname.items():
        p = pathlib.PurePosixPath(rel)
        d = str(p.parent)
        if d in out and p.suffix == ".yaml":
            head = yaml.safe_load(raw.decode())
            stem = p.name[: -len(".yaml")]
            ops = [r for r in byname if r.startswith(d + "/" + stem) and r.endswith(".lz4") and str(pathlib.PurePosixPath(r).parent) == d]
            if d.startswith("recipes"):
                out[d].append((head, None, None, ops))
            elif len(ops) == 1:
                o, e = load_op(byname[ops[0]])
                out[d].append((head, o, e, ops))
            else:
                out[d].append((head, None, None, ops))
    return out


def run_case(cfg):
    import eko
    from eko.io import inventory
    from eko.runner import operators as rops
    from eko.runner import parts

    log = []
    orig_evolve, orig_match, orig_join = parts.evolve, parts.match, rops.join
    orig_set = inventory.Inventory.__setitem__

    def rec_evolve(e, recipe):
        log.append(("evolve", (float(recipe.origin), float(recipe.target), int(recipe.nf), bool(recipe.cliff))))
        return orig_evolve(e, recipe)

    def rec_match(e, recipe):
        log.append(("match", (float(recipe.scale), int(recipe.hq), bool(recipe.inverse))))
        return orig_match(e, recipe)

    def rec_join(elements):
        log.append(("join", len(elements)))
        return orig_join(elements)

    def rec_set(self, header, operator):
        log.append(("store", self.name, type(header).__name__, operator is not None))
        return orig_set(self, header, operator)

    parts.evolve, parts.match, rops.join = rec_evolve, rec_match, rec_join
    inventory.Inventory.__setitem__ = rec_set
    d = scratch.mkdtemp()
    p = pathlib.Path(d) / "o.tar"
    try:
        th, op = w.cards(*w.cfg_cards(cfg))
        if cfg.get("_decoy"):
            # an earlier solve in the same process with the same theory but another starting point: nothing of it
            # (cached atlases, couplings, recipes) may reach the solve under observation
            mu0, nf0 = cfg["init"]
            th2, op2 = w.cards(*w.cfg_cards(dict({k: v for k, v in cfg.items() if not k.startswith("_")}, init=[mu0 * 1.37, nf0], targets=[[mu0 * 1.52, nf0]])))
            try:
                eko.solve(th2, op2, pathlib.Path(d) / "decoy.tar")
            except Exception:
                pass
            log.clear()
        try:
            eko.solve(th, op, p)
        except (NotImplementedError, ValueError) as e:
            return dict(status="refused", msg=f"{type(e).__name__}: {str(e)[:120]}")
        except Exception as e:
            import traceback

            return dict(status="crash", msg=f"{type(e).__name__}: {str(e)[:200]}", tb=traceback.format_exc()[-600:])
        arc = read_archive(p)
    finally:
        parts.evolve, parts.match, rops.join = orig_evolve, orig_match, orig_join
        inventory.Inventory.__setitem__ = orig_set
        import shutil

        shutil.rmtree(d, ignore_errors=True)

    walls2 = [(r**2) * (m**2) for r, m in zip(cfg["ratios"], cfg["masses"])]
    origin = (cfg["init"][0] ** 2, cfg["init"][1])
    problems = []
    # --- required parts (reference) ---------------------------------------
    need_e, need_m = [], []
    tinfo = []
    for mu, nf in cfg["targets"]:
        blocks = ref_path(walls2, origin, (mu**2, nf))
        for b in blocks:
            lst = need_e if b[0] == "E" else need_m
            if not any(all(close(x, y) if isinstance(x, float) else x == y for x, y in zip(b[1:], o[1:])) for o in lst):
                lst.append(b)
        tinfo.append(((mu**2, nf), blocks))

    def find_e(b):
        return [h for h in arc["parts"] if close(h[0]["origin"], b[1]) and close(h[0]["target"], b[2]) and h[0]["nf"] == b[3] and bool(h[0]["cliff"]) == b[4]]

    def find_m(b):
        return [h for h in arc["parts/matching"] if close(h[0]["scale"], b[1]) and h[0]["hq"] == b[2] and bool(h[0]["inverse"]) == b[3]]

    # --- exactly-once: computed and stored --------------------------------
    n_ev = [x for x in log if x[0] == "evolve"]
    n_ma = [x for x in log if x[0] == "match"]
    for kind, calls, need in (("evolve", n_ev, need_e), ("match", n_ma, need_m)):
        seen = {}
        for c in calls:
            seen[c[1]] = seen.get(c[1], 0) + 1
        dup = {k: v for k, v in seen.items() if v > 1}
        if dup:
            problems.append(("computed-twice/" + kind, dict(dup=[list(k) + [v] for k, v in dup.items()])))
        if len(seen) != len(need):
            problems.append(("parts-set-mismatch/" + kind, dict(computed=[list(k) for k in seen], required=[list(b[1:]) for b in need])))
    if len(arc["parts"]) != len(need_e) or len(arc["parts/matching"]) != len(need_m):
        problems.append(("stored-set-mismatch", dict(stored_e=len(arc["parts"]), need_e=len(need_e), stored_m=len(arc["parts/matching"]), need_m=len(need_m))))
    for d_ in ("parts", "parts/matching", "operators"):
        for h in arc[d_]:
            if len(h[3]) != 1:
                problems.append(("operator-files/" + d_, dict(header=h[0], files=h[3])))
    stores = {}
    for x in log:
        if x[0] == "store":
            stores[x[1]] = stores.get(x[1], 0) + 1
    # --- per target: ordered product --------------------------------------
    trecs = []
    for (mu2, nf), blocks in tinfo:
        tgt = [h for h in arc["operators"] if close(h[0]["scale"], mu2) and h[0]["nf"] == nf]
        rec = dict(target=[mu2, nf], nparts=len(blocks), path=[list(b) for b in blocks])
        if len(tgt) != 1 or tgt[0][1] is None:
            problems.append(("target-not-stored", rec))
            trecs.append(rec)
            continue
        elems = []
        missing = False
        for b in blocks:
            f = find_e(b) if b[0] == "E" else find_m(b)
            if len(f) != 1 or f[0][1] is None:
                problems.append(("part-missing" if not f else "part-ambiguous", dict(block=list(b), target=[mu2, nf])))
                missing = True
                break
            elems.append(f[0])
        if missing:
            trecs.append(rec)
            continue
        # left fold over reversed elements: later steps to the left
        val, err = elems[-1][1], elems[-1][2]
        for h in reversed(elems[:-1]):
            nval = dot4(val, h[1])
            if err is not None and h[2] is not None:
                err = dot4(np.abs(val), np.abs(h[2])) + dot4(np.abs(err), np.abs(h[1]))
            else:
                err = None
            val = nval
        got, goterr = tgt[0][1], tgt[0][2]
        scale = max(1.0, float(np.abs(val).max()))
        rec["dev"] = float(np.abs(got - val).max() / scale)
        rec["dev_err"] = None
        if (goterr is None) != (err is None):
            rec["dev_err"] = float("inf")
        elif err is not None:
            rec["dev_err"] = float(np.abs(goterr - err).max() / max(1e-300, float(np.abs(err).max())))
        # measured non-commutativity of consecutive parts and of the whole order
        nc = 0.0
        for a, b in zip(elems[1:], elems[:-1]):
            ab, ba = dot4(a[1], b[1]), dot4(b[1], a[1])
            nc = max(nc, float(np.abs(ab - ba).max() / max(1e-300, np.abs(ab).max())))
        rec["noncommut"] = nc
        if len(elems) >= 2:
            rv = elems[0][1]
            for h in elems[1:]:
                rv = dot4(rv, h[1])
            rec["dev_reversed"] = float(np.abs(got - rv).max() / scale)
        # cliff flags: intermediate segments end on a wall
        trecs.append(rec)
    return dict(status="ok", targets=trecs, problems=problems, n_evolve=len(n_ev), n_match=len(n_ma), stores=stores, n_join=sum(1 for x in log if x[0] == "join"))


def configs(ck):
    rng = ck.rng
    cfgs = []
    plan = [(1, 12), (2, 10), (3, 2)] if ck.quick else [(1, 120), (2, 130), (3, 50)]
    pairs = [(3, 4), (4, 5), (4, 3), (5, 4), (3, 5), (5, 3), (4, 4), (3, 3), (4, 6), (5, 6), (3, 6)]
    for qcd, cnt in plan:
        for _ in range(cnt):
            c = w.path_cfg(rng, qcd=qcd, nf_pairs=pairs, max_targets=5 if qcd <= 2 else 2, npts=(3,), methods=["iterate-exact", "truncated", "decompose-exact", "iterate-expanded"])
            # force sharing: add a target in the same final patch and one on the way
            if len(c["targets"]) >= 2 and rng.integers(2):
                c["targets"][1][1] = c["targets"][0][1]
            c["degree"] = 1
            if qcd == 1 and rng.integers(3) == 0:
                # LO evolution with an explicitly requested NLO matching: the matchings are real operators
                c["matching_order"] = [1, 0]
            if rng.integers(3) == 0:
                # a target exactly on a matching scale (lower / upper nf) next to targets crossing it: the same
                # stretch is needed as a final and as an intermediate segment (two distinct parts)
                hq = int(rng.choice([4, 5]))
                wall = c["masses"][hq - 4] * c["ratios"][hq - 4]
                up = bool(rng.integers(2))
                c["init"] = [max(1.3, wall / float(rng.uniform(1.3, 1.9))), hq - 1] if up else [wall * float(rng.uniform(1.4, 2.2)), hq]
                c["targets"] = ([[wall, hq - 1], [wall * float(rng.uniform(1.4, 2.5)), hq], [wall, hq]] if up else [[wall, hq], [max(1.3, wall / float(rng.uniform(1.2, 1.6))), hq - 1], [wall, hq - 1]])[: int(rng.integers(2, 4))]
                c["inversion"] = None if up else str(rng.choice(["exact", "expanded"]))
                c["scvar"], c["xif"] = [(None, 1.0), ("expanded", 2.0), ("exponentiated", 0.5)][int(rng.integers(3))]
            if len(cfgs) % 3 == 1:
                c["_decoy"] = True
            cfgs.append(c)
    return cfgs


def run(ck):
    cfgs = configs(ck)
    if ck.replay:
        cfgs = [ck.replay["witness"]["cfg"]]
    shared = 0
    for cfg, st, res in jobs.pmap(run_case, cfgs, timeout=ck.n(2400, 4 * 3600)):
        ckey = w.cfg_key(cfg)
        if st != "ok":
            ck.case(ckey, nontrivial=False)
            ck.inconclusive(f"job {st}: {str(res)[:120]}")
            continue
        if res["status"] == "refused":
            ck.case(ckey, nontrivial=False)
            ck.hit("refused")
            continue
        if res["status"] == "crash":
            ck.case(ckey, nontrivial=False)
            ck.inconclusive("solver crashed (C04's business): " + res["msg"][:80])
            continue
        ck.hit("evolve_calls", res["n_evolve"])
        ck.hit("match_calls", res["n_match"])
        ck.hit("join_calls", res["n_join"])
        ck.hit("parts_stored", res["stores"].get("parts", 0) + res["stores"].get("parts-matching", 0))
        tot_blocks = sum(t["nparts"] for t in res["targets"])
        if tot_blocks > res["n_evolve"] + res["n_match"]:
            shared += 1
        for pkey, wit in res["problems"]:
            ck.violation("C02/" + pkey, f"{pkey}: {str(wit)[:200]}", dict(cfg=cfg, problem=wit))
        for t in res["targets"]:
            if "dev" not in t:
                ck.case((ckey, tuple(t["target"])), nontrivial=False)
                continue
            ck.hit("target_product_compared")
            nontriv = t["nparts"] >= 2 and t["noncommut"] > 1e-6
            ck.case((ckey, tuple(t["target"])), nontrivial=nontriv, sample=dict(order=cfg["qcd"], init=cfg["init"], **{k: t[k] for k in ("target", "nparts", "dev", "dev_err", "noncommut")}))
            path_kind = "single" if t["nparts"] == 1 else ("down" if t["target"][1] < cfg["init"][1] else "up")
            if t["dev"] > RT:
                ck.violation(f"C02/product/{path_kind}", f"stored operator differs from ordered product of its parts by {t['dev']:.3g} (reversed order: {t.get('dev_reversed')})", dict(cfg=cfg, target=t))
            elif t["dev_err"] is not None and t["dev_err"] > 1e-10:
                ck.violation(f"C02/error-rule/{path_kind}", f"stored error differs from |a||db|+|da||b| fold by {t['dev_err']:.3g}", dict(cfg=cfg, target=t))
            else:
                ck.ok()
    ck.note(configs_with_shared_parts=shared)
