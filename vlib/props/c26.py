"""C26: anomalous dimensions and matching elements are real-analytic in N."""

import importlib
import inspect
import pkgutil

import numpy as np

from .. import jobs

META = dict(
    level="exploration",
    design_ref="DESIGN.md §5 C26",
    technique="metamorphic monitor: every function of ekore.anomalous_dimensions and ekore.operator_matrix_elements (entry points and all building blocks, all variation branches) is executed at N and conj(N) and at real N; Schwarz reflection f(conj N) = conj f(N) is the oracle",
    level_text="All 190-odd functions are discovered by introspection and driven with generated arguments (nf, L, variation index, parity, scheme flag) at random N on and off the Talbot contours; the relation is exact for correct code (IEEE complex arithmetic commutes with conjugation), so the tolerance is rounding level.",
    level_note="Trusted base: none beyond complex conjugation; arguments other than N are real by construction. Functions without an N argument are only required to be real. The generic-parity harmonic continuation ((-1)^N) is not real-analytic by design and is not used by any AD/OME entry point.",
    rule="cases = (function, N, nf, L, variation...) ; distinct by (function, argument tuple); non-trivial = |Im f(N)| > 1e-9 |f(N)| at the complex point (the relation is not satisfied trivially by a real value)",
    min_nontrivial=2000,
    required_hits=["conjugation", "real_axis", "entry_points", "cauchy_riemann"],
    max_inconclusive_frac=0.05,
)
META["level_text"] += ' A fifth of the points lie on / next to the lines Re N = 1..4 away from the real axis.'

TOL = 1e-11
SLOW_MODULES = ("operator_matrix_elements.unpolarized.space_like.as3",)
V0 = (0,) * 7


def discover():
    """[(module, function, signature tuple)] for every plain function below the two packages."""
    import ekore

    out = []
    for m in pkgutil.walk_packages(ekore.__path__, "ekore."):
        if ".harmonics" in m.name:
            continue
        mod = importlib.import_module(m.name)
        for fn, f in sorted(vars(mod).items()):
            if inspect.isfunction(f) and f.__module__ == m.name:
                sig = tuple(inspect.signature(f).parameters)
                if sig and sig[0] in ("gamma_S", "gamma"):
                    continue  # matrix exponentials: C23
                out.append((m.name, fn, sig))
    return out


def talbot(t, r, o):
    theta = np.pi * (2.0 * t - 1.0)
    re = theta / np.tan(theta) if theta != 0 else 1.0
    return complex(o + r * re, r * theta)


def gen_N(rng, kind):
    if kind == "contour_ns":
        x = 10 ** rng.uniform(-4, -0.01)
        return talbot(rng.uniform(0.5, 0.98), 0.4 * 16.0 / (1.0 - np.log(x)), 0.0)
    if kind == "contour_s":
        x = 10 ** rng.uniform(-4, -0.01)
        return talbot(rng.uniform(0.5, 0.98), 0.4 * 16.0 / (1.0 - np.log(x)), 1.0)
    if kind == "near_axis":
        return complex(rng.uniform(1.05, 12), 10 ** rng.uniform(-6, -1))
    if kind == "integer_line":
        # on / next to the lines Re N = 1,2,3,4 but away from the real axis: the guards that handle the
        # special points N = 1, 2, ... must not reach out along the line (in either half plane)
        k = float(rng.choice([1, 1, 1, 2, 2, 3, 4]))
        d = float(rng.choice([0.0, 3e-6, -3e-6, 1e-9, -1e-9]))
        return complex(k + d, 10 ** rng.uniform(-3, 1.5))
    return complex(rng.uniform(0.3, 25), rng.uniform(0.05, 40))


def build_args(sig, modname, N, p):
    """argument list for a signature; p = dict of generated parameters."""
    from ekore.harmonics import cache as c

    fh = ".fhmruvv" in modname
    args = []
    for name in sig:
        if name in ("N", "n", "_N"):
            args.append(N)
        elif name == "nf":
            args.append(p["nf"] if not (fh and p["nf"] == 6) else 5)
        elif name == "cache":
            args.append(c.reset())
        elif name == "variation":
            if p["fn"] in ("gamma_singlet", "gamma_singlet_qed", "gamma_valence_qed"):
                args.append(p["v7"] if fh else p["v7in"])  # matrix builders take the tuple
            else:
                args.append(p["var_fh"] if fh else p["var_in"])
        elif name in ("L", "_L"):
            args.append(p["L"])
        elif name == "is_msbar":
            args.append(p["msbar"])
        elif name == "eta":
            args.append(p["eta"])
        elif name == "mode":
            qed = "qed" in p["fn"] or "aem" in p["fn"]
            args.append(p["mode_qed"] if qed else p["mode"])
        elif name == "order":
            if "qed" in p["fn"]:
                args.append((4 if p["nf"] <= 5 or not p["fhm"] else 3, 2))
            elif "time_like" in modname or "polarized" in modname:
                args.append((3, 0))
            else:
                args.append((4, 0))
        elif name == "matching_order":
            if "time_like" in modname:
                args.append((1, 0))
            elif "polarized" in modname:
                args.append((2, 0))
            else:
                args.append((p["mo"], 0))
        elif name == "n3lo_ad_variation":
            args.append(p["v7"] if p["fhm"] else p["v7in"])
        elif name == "use_fhmruvv":
            args.append(p["fhm"])
        else:
            raise KeyError(name)
    return args


def gen_params(rng, fn, slow):
    nf = int(rng.integers(3, 7))
    fhm = bool(rng.integers(0, 2))
    if fhm and nf == 6:
        nf = int(rng.integers(3, 6))
    return dict(
        fn=fn,
        nf=nf,
        L=float(rng.uniform(-3, 3)) if rng.random() > 0.15 else 0.0,
        var_fh=int(rng.integers(0, 3)),
        var_in=int(rng.integers(0, 21)),
        msbar=bool(rng.integers(0, 2)),
        eta=int(rng.choice([-1, 1])),
        mode=int(rng.choice([10101, 10201, 10200])),
        mode_qed=int(rng.choice([10102, 10103, 10202, 10203])),
        fhm=fhm,
        v7=tuple(int(x) for x in rng.integers(0, 3, 7)),
        v7in=tuple(int(x) for x in (rng.integers(0, 20), rng.integers(0, 16), rng.integers(0, 16), rng.integers(0, 7), 0, 0, 0)),
        mo=2 if not slow else 3,
    )


CR_H = 2e-3
CR_TOL = 1e-5


def do_cr(N, kind):
    """Cauchy-Riemann probe only away from the poles on the real axis (N = 1, 0, -1, ...)."""
    return kind != "real" and (N.real > 1.5 or abs(N.imag) > 1.5)


def _call(modname, fn, sig, N, p):
    mod = importlib.import_module(modname)
    return np.asarray(getattr(mod, fn)(*build_args(sig, modname, N, p)), dtype=complex)


def job(args):
    """One function at a list of (N, params): returns records."""
    modname, fn, sig, pts = args
    out = []
    has_N = any(s in ("N", "n") for s in sig)
    for kind, N, p in pts:
        try:
            build_args(sig, modname, N, p)
        except KeyError as e:  # a parameter this driver does not know: harness gap, not a verdict
            out.append((kind, N, p, "harness", 0.0, 0.0, 0.0, f"unknown parameter {e}"))
            continue
        try:
            a = _call(modname, fn, sig, N, p)
            if not has_N:
                out.append((kind, N, p, "const", float(np.abs(a.imag).max()), float(np.abs(a).max()), 0.0, None))
                continue
            if kind == "real":
                sc = np.abs(a).max()
                out.append((kind, N, p, "real", float(np.abs(a.imag).max()), float(sc), 0.0, None))
                continue
            b = _call(modname, fn, sig, N.conjugate(), p)
        except (ZeroDivisionError, NotImplementedError, OverflowError) as e:
            out.append((kind, N, p, "refused", 0.0, 0.0, 0.0, f"{type(e).__name__}: {e}"))
            continue
        except Exception as e:  # noqa
            out.append((kind, N, p, "error", 0.0, 0.0, 0.0, f"{type(e).__name__}: {e}"))
            continue
        if not (np.all(np.isfinite(a)) and np.all(np.isfinite(b))):
            out.append((kind, N, p, "nonfinite", 0.0, 0.0, 0.0, None))
            continue
        amax = np.abs(a).max()
        if do_cr(N, kind):
            try:
                h = CR_H * max(1.0, abs(N))
                st = {}
                for d in (1.0, 1j):
                    fm2, fm1, fp1, fp2 = (_call(modname, fn, sig, N + k * h * d, p) for k in (-2, -1, 1, 2))
                    st[d] = (-fp2 + 8 * fp1 - 8 * fm1 + fm2) / (12 * h * d)
                dsc = max(np.abs(st[1.0]).max(), amax / max(1.0, abs(N)), 1e-300)
                cr = float(np.abs(st[1.0] - st[1j]).max() / dsc)
                if np.isfinite(cr):
                    out.append((kind, N, p, "cr", cr, float(dsc), 0.0, dict(d_dReN=complex(np.ravel(st[1.0])[int(np.argmax(np.abs(st[1.0] - st[1j])))]), d_dImN_over_i=complex(np.ravel(st[1j])[int(np.argmax(np.abs(st[1.0] - st[1j])))]))))
            except (ZeroDivisionError, NotImplementedError, OverflowError):
                pass
        err = np.abs(b - np.conj(a))
        allowed = TOL * (np.abs(a) + 1e-6 * amax)
        worst = float((err / np.maximum(allowed, 1e-300)).max()) if a.size else 0.0
        imfrac = float(np.abs(a.imag).max() / amax) if amax > 0 else 0.0
        idx = tuple(int(i) for i in np.unravel_index(np.argmax(err / np.maximum(allowed, 1e-300)), a.shape)) if a.ndim else ()
        out.append((kind, N, p, "conj", worst, float(amax), imfrac, dict(index=idx, at_N=complex(a[idx]) if a.ndim else complex(a), at_conjN=complex(b[idx]) if a.ndim else complex(b))))
    return modname, fn, out


def short(modname):
    return modname.replace("ekore.", "").replace("anomalous_dimensions", "ad").replace("operator_matrix_elements", "ome").replace("unpolarized", "u").replace("polarized", "p").replace("space_like", "sl").replace("time_like", "tl")


def run(ck):
    rng = ck.rng
    fns = discover()
    items = []
    entry_mods = {
        "ekore.anomalous_dimensions.unpolarized.space_like",
        "ekore.anomalous_dimensions.unpolarized.time_like",
        "ekore.anomalous_dimensions.polarized.space_like",
        "ekore.operator_matrix_elements.unpolarized.space_like",
        "ekore.operator_matrix_elements.unpolarized.time_like",
        "ekore.operator_matrix_elements.polarized.space_like",
    }
    for modname, fn, sig in fns:
        slow = any(s in modname for s in SLOW_MODULES) or (modname.endswith("operator_matrix_elements.unpolarized.space_like") and fn.startswith("A_"))
        is_entry = modname in entry_mods
        npts = ck.n(3, 20) if slow else (ck.n(60, 1000) if is_entry else ck.n(30, 400))
        pts = []
        kinds = ["contour_ns", "contour_s", "near_axis", "free", "integer_line"]
        for i in range(npts):
            kind = kinds[i % 5]
            p = gen_params(rng, fn, slow and i % 3 == 0)
            if slow and is_entry:
                p["mo"] = 3 if i < ck.n(2, 12) else 2
            pts.append((kind, gen_N(rng, kind), p))
        nreal = ck.n(1, 6) if slow else ck.n(8, 100)
        for i in range(nreal):
            p = gen_params(rng, fn, False)
            if slow and is_entry:
                p["mo"] = 2
            x = float(rng.uniform(1.05, 40)) if i % 3 else float(rng.integers(2, 30))
            pts.append(("real", complex(x, 0.0), p))
        # split slow functions point by point so that the pool balances
        if slow:
            for pt in pts:
                items.append((modname, fn, sig, [pt]))
        else:
            items.append((modname, fn, sig, pts))
    seen_entry = 0
    for item, st, val in jobs.pmap(job, items, timeout=ck.n(1500, 7200)):
        if st != "ok":
            ck.inconclusive(f"{item[0]}.{item[1]}: worker {st}: {str(val)[:200]}")
            ck.case((item[0], item[1], "worker"), nontrivial=False)
            continue
        modname, fn, recs = val
        site = f"{short(modname)}.{fn}"
        for kind, N, p, what, worst, amax, imfrac, info in recs:
            pkey = (p["nf"], round(p["L"], 6), p["var_fh"], p["var_in"], p["msbar"], p["eta"], p["mode"], p["mode_qed"], p["fhm"], p["v7"], p["v7in"], p["mo"])
            key = (site, kind, N, pkey)
            if what == "refused":
                # e.g. FHMRUVV at nf=6, poles: a refusal is not a value
                ck.case(key, nontrivial=False)
                ck.ok()
                continue
            if what == "harness":
                ck.case(key, nontrivial=False)
                ck.inconclusive(f"{site}: driver cannot build arguments ({info})")
                continue
            if what == "error":
                ck.case(key, nontrivial=False)
                ck.violation(f"C26/{site}/raises", f"{site} raised {info} at N={N}", dict(site=site, N=N, params=p, error=info, seed=ck.seed))
                continue
            if what == "nonfinite":
                ck.case(key, nontrivial=False)
                ck.inconclusive(f"{site} non-finite at N={N}")
                continue
            if what == "cr":
                ck.case(key + ("cr",), nontrivial=True, sample=dict(site=site, N=N, cauchy_riemann_residual=worst))
                ck.hit("cauchy_riemann")
                if worst > CR_TOL:
                    ck.violation(f"C26/{site}/not-analytic", f"{site}: derivatives along Re N and Im N differ at N={N} (relative {worst:.2e}): not an analytic function of N", dict(site=site, N=N, params=p, residual=worst, scale=amax, seed=ck.seed, **info))
                else:
                    ck.ok()
                continue
            if what in ("const", "real"):
                ck.case(key, nontrivial=amax > 0, sample=dict(site=site, N=N, max_imag=worst, max_abs=amax))
                ck.hit("real_axis")
                if worst > 1e-13 * amax:
                    ck.violation(f"C26/{site}/real-axis", f"{site} is not real at real N={N.real}: max |Im| {worst:.3e} (|f| {amax:.3e})", dict(site=site, N=N, params=p, max_imag=worst, max_abs=amax, seed=ck.seed))
                else:
                    ck.ok()
                continue
            ck.case(key, nontrivial=imfrac > 1e-9, sample=dict(site=site, N=N, nf=p["nf"], L=p["L"], worst_over_tol=worst, imag_fraction=imfrac))
            ck.hit("conjugation")
            if modname in entry_mods:
                ck.hit("entry_points")
                seen_entry += 1
            if worst > 1.0:
                ck.violation(f"C26/{site}/conjugation", f"{site}: f(conj N) != conj f(N) at N={N} (error {worst:.2e} x tolerance, element {info['index']})", dict(site=site, N=N, params=p, seed=ck.seed, **info))
            else:
                ck.ok()
    ck.note(functions_discovered=len(fns))
