"""C38: failed or interrupted runs never leave a corrupt or partial archive.

Fault enumeration.  A census run of each workload (a real LO solve creating a
new EKO, a user-written session creating a new EKO, an edit session on an
existing archive) records every failpoint hit; then one run per failpoint, each
in a fresh subprocess (``vlib/drivers/c38_driver.py``), raises at exactly that
hit.  The state of the target path is read by ``vlib.oracles.archive_digest``
(no eko code) and compared with the census digests.
"""

import hashlib
import json
import os
import pathlib
import shutil
import subprocess
import sys

from .. import jobs, scratch

META = dict(
    level="fault_enumeration",
    design_ref="DESIGN.md §5 C38",
    technique="failpoint census + one injected exception per failpoint, subprocess per injection; independent tar/lz4/npy reader decides the state of the target path; fault-free rerun on the same path",
    level_text="Every failpoint hit observed in the census of a real small solve, of a user-written creating session and of an edit session is failed once (exception raised before the primitive; additionally a half-completed write for every write into the archive and a failure right after every truncating open in the archive's directory); exhaustive over the censused single faults. Thorough adds exception-after-the-call, KeyboardInterrupt, half-completed writes everywhere, two faults in one run and a second fault during the retry (ordered pairs up to equivalence of the on-disk state left by the first fault).",
    level_note="Trusted base: the failpoint list (Path.write_text/write_bytes/unlink/mkdir/rmdir/rename/replace/touch, open(w)+file.write incl. tarfile's, np.save/savez, lz4.frame.compress, yaml.dump*, TarFile.add/addfile/extractall, shutil.rmtree/copytree/move/copy*, tempfile.mkdtemp/mkstemp, os.replace/rename/remove/sendfile, parts.evolve/match, operators.join/retrieve, recipes.create, user code); failures of primitives not in this list (e.g. os.mkdir inside mkdtemp, power loss between syscalls, fsync) are not modelled. A complete archive equal to the fault-free result is accepted when the fault hit after the archive was committed (e.g. in the final removal of the temporary directory).",
    rule="case = (workload, failpoint ordinal, mode before/partial/after, kind error/interrupt[, second fault]); distinct by that tuple; non-trivial = the injected fault fired at the censused site and the run terminated with an exception",
    min_nontrivial=100,
    required_hits=["state_checked_after_fault", "rerun_checked"],
    max_inconclusive_frac=0.02,
)

DRIVER = "vlib.drivers.c38_driver"
WORKLOADS = ("solve", "user", "edit", "copy")
KIND = dict(solve="new", user="new", edit="edit", copy="new")
JOB_TIMEOUT = 300


def _sig(st):
    """Hashable signature of a target state."""
    if not st.get("exists"):
        return ("absent", tuple(st.get("siblings", [])))
    if "corrupt" in st:
        return ("corrupt", st.get("size"), tuple(st.get("siblings", [])))
    h = hashlib.sha256(json.dumps(st["digest"], sort_keys=True).encode()).hexdigest()[:16]
    return ("archive", h, tuple(st.get("siblings", [])))


def _batch(specs):
    """Run a batch of injection specs through one driver subprocess (one forked child per spec)."""
    root = pathlib.Path(specs[0]["root"])
    bdir = root / ("batch-" + specs[0]["name"])
    bdir.mkdir(parents=True, exist_ok=True)
    jobs_ = [dict(sp, workdir=str(root / sp["name"])) for sp in specs]
    (bdir / "batch.json").write_text(json.dumps(dict(jobs=jobs_, timeout=JOB_TIMEOUT)))
    env = dict(os.environ, PYTHONHASHSEED="0", TMPDIR=str(bdir))
    outs = []
    try:
        err = ""
        try:
            p = subprocess.run([sys.executable, "-m", DRIVER, str(bdir / "batch.json")], env=env, capture_output=True, text=True, timeout=JOB_TIMEOUT * (len(specs) + 1), cwd=str(bdir))
            err = (p.stderr or "")[-1500:]
        except subprocess.TimeoutExpired:
            err = "batch timeout"
        for sp in jobs_:
            wd = pathlib.Path(sp["workdir"])
            if not (wd / "result.json").exists():
                msg = (wd / "driver.err").read_text()[-1500:] if (wd / "driver.err").exists() else err
                outs.append(dict(status="timeout" if msg == "timeout" else "driver-failed", err=msg))
                continue
            res = json.loads((wd / "result.json").read_text())
            hits = res.get("hits", [])
            out = dict(status="ok", phases=res["phases"], initial_state=res["initial_state"])
            if sp.get("want_hits"):
                out["hits"] = hits
            else:
                # only what the pair enumeration needs: hits of run1 after the first fault
                out["post_fault_hits"] = [h for h in hits if h["phase"] == "run1" and h["after_fault"]]
                out["retry_hits"] = [dict(ordinal=h["ordinal"], site=h["site"], caller=h["caller"]) for h in hits if h["phase"] == "retry"]
            outs.append(out)
        return outs
    finally:
        for sp in jobs_:
            shutil.rmtree(sp["workdir"], ignore_errors=True)
        shutil.rmtree(bdir, ignore_errors=True)


def _job(spec):
    return _batch([spec])[0]


def _chunks(items, workers):
    n = max(1, min(40, -(-len(items) // (workers * 3))))
    return [items[i : i + n] for i in range(0, len(items), n)]


class Oracle:
    def __init__(self, ck, ref_final, prev):
        self.ck = ck
        self.ref_final = ref_final  # workload -> digest map of the fault-free result
        self.prev = prev  # digest map of the pre-session archive (edit)

    def classify_state(self, wl, st):
        """-> (ok, symptom)"""
        kind = KIND[wl]
        if kind == "new":
            if not st.get("exists"):
                return True, "absent"
            if "corrupt" in st:
                return False, "target-exists-corrupt"
            if st["digest"] == self.ref_final[wl]:
                return True, "complete-new(post-commit)"
            return False, "target-exists-partial"
        if not st.get("exists"):
            return False, "previous-content-lost"
        if "corrupt" in st:
            return False, "archive-corrupt"
        if st["digest"] == self.prev:
            return True, "previous-content"
        if st["digest"] == self.ref_final[wl]:
            return True, "complete-new(post-commit)"
        return False, "archive-neither-previous-nor-complete"

    def judge(self, case, res, census_hits):
        """Evaluate one injected run. ``case`` = dict(wl, faults=[...], retry=[...]|None)."""
        ck = self.ck
        wl = case["wl"]
        kind = KIND[wl]
        key = case["key"]
        if res["status"] != "ok":
            ck.case(key, nontrivial=False)
            ck.inconclusive(f"{wl}: driver {res['status']} {res.get('err', '')[-200:]}")
            return None
        ph = {p["phase"]: p for p in res["phases"]}
        r1 = ph["run1"]
        fired = r1["fired"]
        want = case["faults"]
        # the schedule must be the censused one
        if len(fired) != len(want) or any(f["ordinal"] != w["ordinal"] for f, w in zip(fired, want)):
            ck.case(key, nontrivial=False)
            ck.inconclusive(f"{wl}: planned faults {[w['ordinal'] for w in want]} but fired {[f['ordinal'] for f in fired]}")
            return None
        f0 = fired[0]
        c0 = census_hits[wl][want[0]["ordinal"]]
        if (f0["site"], f0["caller"]) != (c0["site"], c0["caller"]):
            ck.case(key, nontrivial=False)
            ck.inconclusive(f"{wl}: hit {f0['ordinal']} is {f0['site']}@{f0['caller']} but census saw {c0['site']}@{c0['caller']}")
            return None
        site_of = fired[-1]
        if case.get("retry"):
            r2 = ph["retry"]
            if [f["ordinal"] for f in r2["fired"]] != [w["ordinal"] for w in case["retry"]]:
                ck.case(key, nontrivial=False)
                ck.inconclusive(f"{wl}: retry fault {case['retry']} did not fire")
                return None
            site_of = r2["fired"][-1]
        mech = f"C38/{kind}/{site_of['caller']}"
        sample = dict(workload=wl, faults=[dict(ordinal=f["ordinal"], site=f["site"], caller=f["caller"], detail=f["detail"], mode=f["mode"], kind=f["kind"]) for f in fired])
        if case.get("retry"):
            sample["retry_faults"] = [dict(ordinal=f["ordinal"], site=f["site"], caller=f["caller"], mode=f["mode"]) for f in ph["retry"]["fired"]]
        witness = dict(sample, seed=ck.seed, tier=ck.tier, spec=case["spec"])
        nontrivial = bool(r1["raised"])
        ck.case(key, nontrivial=nontrivial, sample=sample)
        ck.hit("faults_fired", len(fired))
        bad = False
        last_symptom = None
        # --- state after the failed run(s)
        for p in [x for x in (ph.get("run1"), ph.get("retry")) if x is not None]:
            st = p["state"]
            ok, symptom = self.classify_state(wl, st)
            ck.hit("state_checked_after_fault")
            last_symptom = symptom
            if symptom.startswith("complete-new"):
                ck.hit("post_commit_fault")
            if not p["raised"]:
                # the fault was swallowed (or the retry had nothing to do): the run claims success
                ck.hit("run_completed_despite_fault")
                if p["phase"] == "run1" or p["fired"]:
                    complete = st.get("exists") and "corrupt" not in st and st.get("digest") == self.ref_final[wl]
                    if not complete:
                        bad = True
                        ck.violation(
                            f"{mech}/fault-swallowed-incomplete-archive",
                            f"{wl}: {p['phase']} reported success although {site_of['site']} failed, and the archive is not the complete result ({symptom})",
                            dict(witness, state=_short(st)),
                        )
                continue
            if not ok:
                bad = True
                ck.violation(
                    f"{mech}/{symptom}",
                    f"{wl}: after a failure of {site_of['site']} ({site_of['mode']}) in {site_of['caller']} [{p['phase']}] the target path is: {symptom}"
                    + (f" ({st.get('corrupt')})" if "corrupt" in st else "")
                    + (f"; eko reads it: {p.get('eko_reads')}" if p.get("eko_reads") else ""),
                    dict(witness, exc=p.get("exc"), state=_short(st), expected="absent" if kind == "new" else "previous complete content"),
                )
        # --- fault-free rerun on the same path
        r3 = ph.get("rerun")
        if r3 is not None:
            ck.hit("rerun_checked")
            st3 = r3["state"]
            if (
                r3["raised"]
                and kind == "new"
                and (last_symptom or "").startswith("complete-new")
                and r3.get("exc_type") == "OutputExistsError"
                and st3.get("digest") == self.ref_final[wl]
            ):
                # the fault hit after the archive was committed: the complete result is there and a
                # creating run refuses to overwrite it (documented interpretation, see notes/C38.md)
                ck.hit("rerun_refused_on_committed_result")
            elif r3["raised"]:
                bad = True
                ck.violation(
                    f"{mech}/rerun-failed",
                    f"{wl}: after a failure of {site_of['site']} in {site_of['caller']} the fault-free rerun on the same path raises {r3['exc_type']}: {r3['exc'][:160]}",
                    dict(witness, rerun_exc=r3.get("exc"), rerun_tb=r3.get("tb", "")[-600:]),
                )
            else:
                st = r3["state"]
                if not st.get("exists") or "corrupt" in st or st.get("digest") != self.ref_final[wl]:
                    bad = True
                    ck.violation(
                        f"{mech}/rerun-result-differs",
                        f"{wl}: fault-free rerun after a failure of {site_of['site']} in {site_of['caller']} does not produce the fault-free result",
                        dict(witness, state=_short(st)),
                    )
                elif r3.get("eko_reads", {}).get("ok") is False:
                    bad = True
                    ck.violation(f"{mech}/rerun-unreadable", f"{wl}: rerun result is not readable by EKO.read: {r3['eko_reads']}", witness)
        if not bad:
            ck.ok()
        return ph


def _short(st):
    s = dict(st)
    if "digest" in s:
        s["members"] = sorted(s.pop("digest"))[:40]
    return s


def _spec(root, name, wl, run1, retry=None, rerun=True, seed_archive=None, **kw):
    sp = dict(root=str(root), name=name, workload=wl, run1=run1, retry=retry, rerun=rerun, order=[1, 0], want_hits=False)
    if wl in ("edit", "copy"):
        sp["seed_archive"] = str(seed_archive)
    sp.update(kw)
    return sp


def _run_cases(ck, oracle, cases, census_hits):
    """cases: list of dict(key, wl, faults, retry, spec). Returns {key: (phases, job output)}."""
    out = {}
    if not cases:
        return out
    bykey = {c["spec"]["name"]: c for c in cases}
    batches = _chunks([c["spec"] for c in cases], jobs.ncpu())
    total = JOB_TIMEOUT * (2 + len(cases) // max(1, jobs.ncpu()))
    for batch, status, vals in jobs.pmap(_batch, batches, timeout=total):
        for i, spec in enumerate(batch):
            c = bykey[spec["name"]]
            if status != "ok":
                ck.case(c["key"], nontrivial=False)
                ck.inconclusive(f"{c['wl']}: batch {status}: {str(vals)[-200:]}")
                continue
            ph = oracle.judge(c, vals[i], census_hits)
            if ph is not None:
                out[c["key"]] = (ph, vals[i])
    return out


def run(ck):
    with scratch.tmpdir(prefix="c38-") as root:
        root = pathlib.Path(root)
        _run(ck, root)


def _census(ck, root):
    seed_archive = root / "seed.tar"
    census_hits, ref_final = {}, {}
    for wl in WORKLOADS:
        sp = _spec(root, f"census-{wl}", wl, [], rerun=False, seed_archive=seed_archive, want_hits=True)
        if wl == "solve":
            sp["keep_archive"] = str(seed_archive)
        res = _job(sp)
        if res["status"] != "ok":
            ck.inconclusive(f"census {wl}: driver {res['status']} {res.get('err', '')[-300:]}")
            return None
        p = res["phases"][0]
        st = p["state"]
        if p["raised"] or not st.get("exists") or "corrupt" in st or not p.get("eko_reads", {}).get("ok"):
            ck.inconclusive(f"census {wl}: the fault-free run is not usable as reference: raised={p.get('exc')} state={_short(st)} reads={p.get('eko_reads')}")
            return None
        census_hits[wl] = [h for h in res["hits"] if h["phase"] == "run1"]
        ref_final[wl] = st["digest"]
        ck.hit("census_hits", len(census_hits[wl]))
        if wl == "edit":
            prev = res["initial_state"].get("digest")
            if prev != ref_final["solve"] or prev == ref_final["edit"]:
                ck.inconclusive("census edit: the pre-session archive is not the solve result, or the edit session changes nothing")
                return None
    return census_hits, ref_final, seed_archive


def _run(ck, root):
    from ..drivers.c38_driver import COMMIT_SITES, WRITE_SITES

    got = _census(ck, root)
    if got is None:
        return
    census_hits, ref_final, seed_archive = got
    oracle = Oracle(ck, ref_final, ref_final["solve"])
    # development knob (mutation self-test under load): inject only into the named workloads;
    # the run is then never reported as exhaustive
    only = [w for w in os.environ.get("VERIF_C38_WORKLOADS", "").split(",") if w]
    active = [w for w in WORKLOADS if not only or w in only]
    ck.note(
        failpoints={wl: len(census_hits[wl]) for wl in WORKLOADS},
        failpoint_sites=sorted({h["site"] for wl in WORKLOADS for h in census_hits[wl]}),
        failpoint_callers=sorted({h["caller"] for wl in WORKLOADS for h in census_hits[wl]}),
    )

    # ------------------------------------------------------------ single faults
    cases = []
    for wl in active:
        for h in census_hits[wl]:
            k = h["ordinal"]
            variants = [("before", "error")]
            into_archive = h["caller"].endswith("EKO.dump") or h["detail"].startswith("<OUT>")
            if h["site"] in WRITE_SITES and (into_archive or ck.thorough):
                variants.append(("partial", "error"))
            if h["site"] == "open(w)" and into_archive and not ck.thorough:
                # opening for writing truncates: a failure right after it (thorough does this everywhere)
                variants.append(("after", "error"))
            if ck.thorough:
                variants.append(("before", "interrupt"))
                if h["site"] not in COMMIT_SITES:
                    variants.append(("after", "error"))
            for mode, kd in variants:
                f = dict(ordinal=k, mode=mode, kind=kd)
                name = f"{wl}-{k}-{mode}-{kd}"
                cases.append(dict(key=(wl, k, mode, kd), wl=wl, faults=[f], retry=None, spec=_spec(root, name, wl, [f], seed_archive=seed_archive)))
    planned = {(c["wl"], c["faults"][0]["ordinal"]) for c in cases if c["faults"][0]["mode"] == "before" and c["faults"][0]["kind"] == "error"}
    results = _run_cases(ck, oracle, cases, census_hits)
    decided = {(k[0], k[1]) for k in results if k[2] == "before" and k[3] == "error"}
    all_hits = {(wl, h["ordinal"]) for wl in WORKLOADS for h in census_hits[wl]}
    exhaustive_single = planned == all_hits and decided == all_hits and not only
    if only:
        ck.note(restricted_to_workloads=active)
    ck.note(single_faults_injected=len(decided), single_faults_censused=len(all_hits))

    exhaustive_pairs = None
    if ck.thorough:
        exhaustive_pairs = _pairs(ck, root, oracle, census_hits, results, seed_archive)
    ck.note(exhaustive=bool(exhaustive_single and (exhaustive_pairs is not False)), exhaustive_single=bool(exhaustive_single))
    if exhaustive_pairs is not None:
        ck.note(exhaustive_pairs=bool(exhaustive_pairs))


MAX_STATE_CLASSES = 12


def _pairs(ck, root, oracle, census_hits, results, seed_archive):
    """Two faults in one run; second fault during the retry (per class of left-over state)."""
    complete = True
    cases = []
    # (a) second fault in the same run: every hit that occurs after the first fault fired
    for key, (ph, val) in results.items():
        wl, k, mode, kd = key
        if (mode, kd) != ("before", "error"):
            continue
        for h in val.get("post_fault_hits", []):
            f1 = dict(ordinal=k, mode="before", kind="error")
            f2 = dict(ordinal=h["ordinal"], mode="before", kind="error")
            name = f"{wl}-{k}+{h['ordinal']}"
            cases.append(dict(key=(wl, k, "two-in-run", h["ordinal"]), wl=wl, faults=[f1, f2], retry=None, spec=_spec(root, name, wl, [f1, f2], seed_archive=seed_archive)))
    ck.note(pairs_two_in_one_run=len(cases))
    # (b) second fault during the retry: one representative first fault per state class
    classes = {}
    for key, (ph, val) in sorted(results.items(), key=lambda kv: repr(kv[0])):
        wl = key[0]
        sig = (wl, _sig(ph["run1"]["state"]))
        classes.setdefault(sig, []).append(key)
    ck.note(state_classes_after_first_fault=len(classes))
    chosen = sorted(classes.items(), key=lambda kv: repr(kv[0]))
    if len(chosen) > MAX_STATE_CLASSES:
        complete = False
        chosen = chosen[:MAX_STATE_CLASSES]
    probes = []
    for sig, keys in chosen:
        wl, k, mode, kd = keys[0]
        f1 = dict(ordinal=k, mode=mode, kind=kd)
        probes.append((sig, wl, f1, _spec(root, f"probe-{wl}-{k}-{mode}-{kd}", wl, [f1], retry=[], rerun=False, seed_archive=seed_archive)))
    retry_hits = {}
    bysp = {p[3]["name"]: p for p in probes}
    for spec, status, val in jobs.pmap(_job, [p[3] for p in probes], timeout=JOB_TIMEOUT * (2 + len(probes))):
        sig, wl, f1, _ = bysp[spec["name"]]
        if status != "ok" or not isinstance(val, dict) or val.get("status") != "ok":
            ck.inconclusive(f"{wl}: retry census failed: {status}")
            complete = False
            continue
        retry_hits[(sig, wl, json.dumps(f1, sort_keys=True))] = val["retry_hits"]
    n_retry = 0
    for (sig, wl, f1s), hits in retry_hits.items():
        f1 = json.loads(f1s)
        for h in hits:
            f2 = dict(ordinal=h["ordinal"], mode="before", kind="error")
            name = f"{wl}-{f1['ordinal']}{f1['mode'][0]}{f1['kind'][0]}-retry-{h['ordinal']}"
            cases.append(
                dict(
                    key=(wl, f1["ordinal"], f1["mode"], f1["kind"], "retry", h["ordinal"]),
                    wl=wl,
                    faults=[f1],
                    retry=[f2],
                    spec=_spec(root, name, wl, [f1], retry=[f2], seed_archive=seed_archive),
                )
            )
            n_retry += 1
    ck.note(pairs_retry=n_retry)
    _run_cases(ck, oracle, cases, census_hits)
    return complete


def replay(ck, rep):
    """Re-run exactly the witness injection."""
    w = rep["witness"]
    with scratch.tmpdir(prefix="c38-") as root:
        root = pathlib.Path(root)
        got = _census(ck, root)
        if got is None:
            return
        census_hits, ref_final, seed_archive = got
        oracle = Oracle(ck, ref_final, ref_final["solve"])
        sp = dict(w["spec"], root=str(root), name="replay")
        if sp["workload"] in ("edit", "copy"):
            sp["seed_archive"] = str(seed_archive)
        case = dict(key=("replay",), wl=sp["workload"], faults=sp["run1"], retry=sp.get("retry"), spec=sp)
        ck.min_nontrivial = 1
        oracle.judge(case, _job(sp), census_hits)
