"""C38: failed or interrupted runs never leave a corrupt or partial archive.

Fault enumeration.  A census run of each workload (a real LO solve creating a
new EKO, a user-written session creating a new EKO, an edit session on an
existing archive) records every failpoint hit; then one run per failpoint, each
in a fresh subprocess (``vlib/drivers/c38_driver.py``), raises at exactly that
hit.  The state of the target path is read by ``vlib.oracles.archive_digest``
(no eko code) and compared with the census digests.
"""

import hashlib
import json
import os
import pathlib
import shutil
import subprocess
import sys

from .. import jobs, scratch

META = dict(
    level="fault_enumeration",
    design_ref="DESIGN.md §5 C38",
    technique="failpoint census + one injected exception per failpoint, subprocess per injection; independent tar/lz4/npy reader decides the state of the target path; fault-free rerun on the same path",
    level_text="Quick: every failpoint hit of a user-written creating session and of an edit session, every computation step of a real small solve (OSError/RuntimeError, KeyboardInterrupt and SystemExit at computation steps and user code) and every failpoint of the commit phase with the target on another file system than the temporary directory. Thorough: every failpoint hit observed in the census of a real small solve, of a user-written creating session, of an edit session and of a deep copy (and of the commit phase across file systems) is failed once (exception raised before the primitive; additionally a half-completed write for every write into the archive and a failure right after every truncating open in the archive's directory); exhaustive over the censused single faults. Thorough adds exception-after-the-call, KeyboardInterrupt, half-completed writes everywhere, two faults in one run and a second fault during the retry (ordered pairs up to equivalence of the on-disk state left by the first fault).",
    level_note="Trusted base: the failpoint list (Path.write_text/write_bytes/unlink/mkdir/rmdir/rename/replace/touch, open(w)+file.write incl. tarfile's, np.save/savez, lz4.frame.compress, yaml.dump*, TarFile.add/addfile/extractall, shutil.rmtree/copytree/move/copy*, tempfile.mkdtemp/mkstemp, os.replace/rename/remove/sendfile, parts.evolve/match, operators.join/retrieve, recipes.create, user code); failures of primitives not in this list (e.g. os.mkdir inside mkdtemp, power loss between syscalls, fsync) are not modelled. A complete archive equal to the fault-free result is accepted when the fault hit after the archive was committed (e.g. in the final removal of the temporary directory).",
    rule="case = (workload, failpoint ordinal, mode before/partial/after, kind error/interrupt[, second fault]); distinct by that tuple; non-trivial = the injected fault fired at the censused site and the run terminated with an exception",
    min_nontrivial=100,
    required_hits=["state_checked_after_fault", "rerun_checked"],
    max_inconclusive_frac=0.02,
)

DRIVER = "vlib.drivers.c38_driver"
BASE_WORKLOADS = ("solve", "user", "edit", "copy")
XFS_WORKLOADS = ("user@xfs", "edit@xfs")  # target archive on another file system than the temporary directory
_KIND = dict(solve="new", user="new", edit="edit", copy="new")
COMMIT_CALLERS = ("EKO.close", "EKO.dump")
NONEXC_SITES = {"parts.evolve", "parts.match", "operators.join", "operators.retrieve", "recipes.create", "user-code"}


class _Kind(dict):
    def __missing__(self, wl):
        return _KIND[wl.split("@")[0]]


KIND = _Kind()


def second_filesystem(root):
    """A writable directory on another device than ``root`` (or None)."""
    import tempfile

    dev = os.stat(root).st_dev
    for cand in ("/dev/shm", "/tmp", "/var/tmp", os.path.expanduser("~"), "/run/user/%d" % os.getuid()):
        try:
            if os.path.isdir(cand) and os.access(cand, os.W_OK) and os.stat(cand).st_dev != dev:
                d = tempfile.mkdtemp(prefix="eko-verif-c38x-", dir=cand)
                if os.stat(d).st_dev != dev:
                    return d
                shutil.rmtree(d, ignore_errors=True)
        except OSError:
            continue
    return None


def commit_phase(h):
    """Failpoint hit inside the final dump/commit of the archive."""
    return h["caller"].endswith(COMMIT_CALLERS) or h["detail"].startswith("<OUT>")
JOB_TIMEOUT = 300


def _sig(st):
    """Hashable signature of a target state."""
    if not st.get("exists"):
        return ("absent", tuple(st.get("siblings", [])))
    if "corrupt" in st:
        return ("corrupt", st.get("size"), tuple(st.get("siblings", [])))
    h = hashlib.sha256(json.dumps(st["digest"], sort_keys=True).encode()).hexdigest()[:16]
    return ("archive", h, tuple(st.get("siblings", [])))


GROUP = 6  # injections sharing one forked child (violations are re-run alone before being reported)


def _batch(specs, group=None):
    """Run a batch of injection specs through one driver subprocess (zygote + forked children)."""
    if group is None:
        group = GROUP if len(specs) > 1 else 1
    root = pathlib.Path(specs[0]["root"])
    bdir = root / ("batch-" + specs[0]["name"])
    bdir.mkdir(parents=True, exist_ok=True)
    jobs_ = [dict(sp, workdir=str(root / sp["name"])) for sp in specs]
    (bdir / "batch.json").write_text(json.dumps(dict(jobs=jobs_, timeout=JOB_TIMEOUT, group=group)))
    env = dict(os.environ, PYTHONHASHSEED="0", TMPDIR=str(bdir))
    outs = []
    try:
        err = ""
        try:
            p = subprocess.run([sys.executable, "-m", DRIVER, str(bdir / "batch.json")], env=env, capture_output=True, text=True, timeout=JOB_TIMEOUT * (len(specs) + 1), cwd=str(bdir))
            err = (p.stderr or "")[-1500:]
        except subprocess.TimeoutExpired:
            err = "batch timeout"
        for sp in jobs_:
            wd = pathlib.Path(sp["workdir"])
            if not (wd / "result.json").exists():
                msg = (wd / "driver.err").read_text()[-1500:] if (wd / "driver.err").exists() else err
                outs.append(dict(status="timeout" if msg == "timeout" else "driver-failed", err=msg))
                continue
            res = json.loads((wd / "result.json").read_text())
            hits = res.get("hits", [])
            out = dict(status="ok", phases=res["phases"], initial_state=res["initial_state"], devices=res.get("devices"))
            if sp.get("want_hits"):
                out["hits"] = hits
            else:
                # only what the pair enumeration needs: hits of run1 after the first fault
                out["post_fault_hits"] = [h for h in hits if h["phase"] == "run1" and h["after_fault"]]
                out["retry_hits"] = [dict(ordinal=h["ordinal"], site=h["site"], caller=h["caller"]) for h in hits if h["phase"] == "retry"]
            outs.append(out)
        return outs
    finally:
        for sp in jobs_:
            shutil.rmtree(sp["workdir"], ignore_errors=True)
            if sp.get("outdir"):
                shutil.rmtree(sp["outdir"], ignore_errors=True)
        shutil.rmtree(bdir, ignore_errors=True)


def _job(spec):
    return _batch([spec])[0]


def _chunks(items, workers):
    """One batch (= one zygote, one ``import eko``) per worker; striped so that every batch gets the same mix."""
    nb = max(1, min(workers, -(-len(items) // 4)))
    return [items[i::nb] for i in range(nb)]


class Oracle:
    def __init__(self, ck, ref_final, prev):
        self.ck = ck
        self.ref_final = ref_final  # workload -> digest map of the fault-free result
        self.prev = prev  # digest map of the pre-session archive (edit)

    def classify_state(self, wl, st):
        """-> (ok, symptom)"""
        kind = KIND[wl]
        if kind == "new":
            if not st.get("exists"):
                return True, "absent"
            if "corrupt" in st:
                return False, "target-exists-corrupt"
            if st["digest"] == self.ref_final[wl]:
                return True, "complete-new(post-commit)"
            return False, "target-exists-partial"
        if not st.get("exists"):
            return False, "previous-content-lost"
        if "corrupt" in st:
            return False, "archive-corrupt"
        if st["digest"] == self.prev:
            return True, "previous-content"
        if st["digest"] == self.ref_final[wl]:
            return True, "complete-new(post-commit)"
        return False, "archive-neither-previous-nor-complete"

    def judge(self, case, res, census_hits):
        """Evaluate one injected run. ``case`` = dict(wl, faults=[...], retry=[...]|None)."""
        ck = self.ck
        wl = case["wl"]
        kind = KIND[wl]
        key = case["key"]
        if res["status"] != "ok":
            ck.case(key, nontrivial=False)
            ck.inconclusive(f"{wl}: driver {res['status']} {res.get('err', '')[-200:]}")
            return None
        ph = {p["phase"]: p for p in res["phases"]}
        r1 = ph["run1"]
        fired = r1["fired"]
        want = case["faults"]
        # the schedule must be the censused one
        if len(fired) != len(want) or any(f["ordinal"] != w["ordinal"] for f, w in zip(fired, want)):
            ck.case(key, nontrivial=False)
            ck.inconclusive(f"{wl}: planned faults {[w['ordinal'] for w in want]} but fired {[f['ordinal'] for f in fired]}")
            return None
        f0 = fired[0]
        c0 = census_hits[wl][want[0]["ordinal"]]
        if (f0["site"], f0["caller"]) != (c0["site"], c0["caller"]):
            ck.case(key, nontrivial=False)
            ck.inconclusive(f"{wl}: hit {f0['ordinal']} is {f0['site']}@{f0['caller']} but census saw {c0['site']}@{c0['caller']}")
            return None
        site_of = fired[-1]
        if case.get("retry"):
            r2 = ph["retry"]
            if [f["ordinal"] for f in r2["fired"]] != [w["ordinal"] for w in case["retry"]]:
                ck.case(key, nontrivial=False)
                ck.inconclusive(f"{wl}: retry fault {case['retry']} did not fire")
                return None
            site_of = r2["fired"][-1]
        mech = f"C38/{kind}{'@xfs' if wl.endswith('@xfs') else ''}/{site_of['caller']}"
        sample = dict(workload=wl, faults=[dict(ordinal=f["ordinal"], site=f["site"], caller=f["caller"], detail=f["detail"], mode=f["mode"], kind=f["kind"]) for f in fired])
        if case.get("retry"):
            sample["retry_faults"] = [dict(ordinal=f["ordinal"], site=f["site"], caller=f["caller"], mode=f["mode"]) for f in ph["retry"]["fired"]]
        witness = dict(sample, seed=ck.seed, tier=ck.tier, spec=case["spec"])
        nontrivial = bool(r1["raised"])
        ck.case(key, nontrivial=nontrivial, sample=sample)
        ck.hit("faults_fired", len(fired))
        if wl.endswith("@xfs"):
            dv = res.get("devices") or {}
            if dv.get("out") == dv.get("tmp"):
                ck.inconclusive(f"{wl}: output and temporary directory on the same device")
                return None
            ck.hit("cross_fs_faults_fired")
        if any(f["kind"] in ("interrupt", "sysexit") for f in fired):
            ck.hit("non_exception_faults_fired")
        bad = False
        last_symptom = None
        # --- state after the failed run(s)
        for p in [x for x in (ph.get("run1"), ph.get("retry")) if x is not None]:
            st = p["state"]
            ok, symptom = self.classify_state(wl, st)
            ck.hit("state_checked_after_fault")
            last_symptom = symptom
            if symptom.startswith("complete-new"):
                ck.hit("post_commit_fault")
            if not p["raised"]:
                # the fault was swallowed (or the retry had nothing to do): the run claims success
                ck.hit("run_completed_despite_fault")
                if p["phase"] == "run1" or p["fired"]:
                    complete = st.get("exists") and "corrupt" not in st and st.get("digest") == self.ref_final[wl]
                    if not complete:
                        bad = True
                        ck.violation(
                            f"{mech}/fault-swallowed-incomplete-archive",
                            f"{wl}: {p['phase']} reported success although {site_of['site']} failed, and the archive is not the complete result ({symptom})",
                            dict(witness, state=_short(st)),
                        )
                continue
            if not ok:
                bad = True
                ck.violation(
                    f"{mech}/{symptom}",
                    f"{wl}: after a failure of {site_of['site']} ({site_of['mode']}) in {site_of['caller']} [{p['phase']}] the target path is: {symptom}"
                    + (f" ({st.get('corrupt')})" if "corrupt" in st else "")
                    + (f"; eko reads it: {p.get('eko_reads')}" if p.get("eko_reads") else ""),
                    dict(witness, exc=p.get("exc"), state=_short(st), expected="absent" if kind == "new" else "previous complete content"),
                )
        # --- fault-free rerun on the same path
        r3 = ph.get("rerun")
        if r3 is not None:
            ck.hit("rerun_checked")
            st3 = r3["state"]
            if (
                r3["raised"]
                and kind == "new"
                and (last_symptom or "").startswith("complete-new")
                and r3.get("exc_type") == "OutputExistsError"
                and st3.get("digest") == self.ref_final[wl]
            ):
                # the fault hit after the archive was committed: the complete result is there and a
                # creating run refuses to overwrite it (documented interpretation, see notes/C38.md)
                ck.hit("rerun_refused_on_committed_result")
            elif r3["raised"]:
                bad = True
                ck.violation(
                    f"{mech}/rerun-failed",
                    f"{wl}: after a failure of {site_of['site']} in {site_of['caller']} the fault-free rerun on the same path raises {r3['exc_type']}: {r3['exc'][:160]}",
                    dict(witness, rerun_exc=r3.get("exc"), rerun_tb=r3.get("tb", "")[-600:]),
                )
            else:
                st = r3["state"]
                if not st.get("exists") or "corrupt" in st or st.get("digest") != self.ref_final[wl]:
                    bad = True
                    ck.violation(
                        f"{mech}/rerun-result-differs",
                        f"{wl}: fault-free rerun after a failure of {site_of['site']} in {site_of['caller']} does not produce the fault-free result",
                        dict(witness, state=_short(st)),
                    )
                elif r3.get("eko_reads", {}).get("ok") is False:
                    bad = True
                    ck.violation(f"{mech}/rerun-unreadable", f"{wl}: rerun result is not readable by EKO.read: {r3['eko_reads']}", witness)
        if not bad:
            ck.ok()
        return ph


def _short(st):
    s = dict(st)
    if "digest" in s:
        s["members"] = sorted(s.pop("digest"))[:40]
    return s


XROOT = [None]  # scratch directory on the second file system (set by run)


def _spec(root, name, wl, run1, retry=None, rerun=True, seed_archive=None, **kw):
    base = wl.split("@")[0]
    sp = dict(root=str(root), name=name, workload=base, wl=wl, run1=run1, retry=retry, rerun=rerun, order=[1, 0], want_hits=False)
    if wl.endswith("@xfs"):
        sp["outdir"] = str(pathlib.Path(XROOT[0]) / name)
    if base in ("edit", "copy"):
        sp["seed_archive"] = str(seed_archive)
    sp.update(kw)
    return sp


class Rec:
    """Buffer of the verdict calls of one judged case (flushed to the Check once final)."""

    def __init__(self, ck):
        self.seed, self.tier = ck.seed, ck.tier
        self.calls = []
        self.violations = 0

    def case(self, *a, **k):
        self.calls.append(("case", a, k))

    def hit(self, *a, **k):
        self.calls.append(("hit", a, k))

    def ok(self, *a, **k):
        self.calls.append(("ok", a, k))

    def inconclusive(self, *a, **k):
        self.calls.append(("inconclusive", a, k))

    def violation(self, *a, **k):
        self.violations += 1
        self.calls.append(("violation", a, k))

    def flush(self, ck):
        for name, a, k in self.calls:
            getattr(ck, name)(*a, **k)


def _judge_buffered(ck, oracle, case, val, census_hits):
    rec = Rec(ck)
    saved = oracle.ck
    oracle.ck = rec
    try:
        ph = oracle.judge(case, val, census_hits)
    finally:
        oracle.ck = saved
    return rec, ph


def _run_cases(ck, oracle, cases, census_hits):
    """cases: list of dict(key, wl, faults, retry, spec). Returns {key: (phases, job output)}."""
    out = {}
    if not cases:
        return out
    bykey = {c["spec"]["name"]: c for c in cases}
    batches = _chunks([c["spec"] for c in cases], jobs.ncpu())
    total = JOB_TIMEOUT * (2 + len(cases) // max(1, jobs.ncpu()))
    suspects = []
    for batch, status, vals in jobs.pmap(_batch, batches, timeout=total):
        for i, spec in enumerate(batch):
            c = bykey[spec["name"]]
            if status != "ok":
                ck.case(c["key"], nontrivial=False)
                ck.inconclusive(f"{c['wl']}: batch {status}: {str(vals)[-200:]}")
                continue
            rec, ph = _judge_buffered(ck, oracle, c, vals[i], census_hits)
            if rec.violations or vals[i].get("status") != "ok":
                suspects.append(c)  # decided below, alone in a child of its own
                continue
            rec.flush(ck)
            if ph is not None:
                out[c["key"]] = (ph, vals[i])
    # anything suspicious is repeated in isolation (one injection per forked child) and only that verdict counts
    if suspects:
        ck.hit("rerun_in_isolation", len(suspects))
        singles = [[dict(c["spec"], name=c["spec"]["name"] + "-iso")] for c in suspects]
        bysp = {sp[0]["name"]: c for sp, c in zip(singles, suspects)}
        for batch, status, vals in jobs.pmap(_batch, singles, timeout=total):
            c = bysp[batch[0]["name"]]
            if status != "ok":
                ck.case(c["key"], nontrivial=False)
                ck.inconclusive(f"{c['wl']}: isolated rerun {status}: {str(vals)[-200:]}")
                continue
            rec, ph = _judge_buffered(ck, oracle, dict(c, spec=batch[0]), vals[0], census_hits)
            rec.flush(ck)
            if ph is not None:
                out[c["key"]] = (ph, vals[0])
    return out


def run(ck):
    with scratch.tmpdir(prefix="c38-") as root:
        root = pathlib.Path(root)
        XROOT[0] = second_filesystem(root)
        try:
            _run(ck, root)
        finally:
            if XROOT[0]:
                shutil.rmtree(XROOT[0], ignore_errors=True)
                XROOT[0] = None


QUICK_WORKLOADS = ("solve", "user", "edit", "user@xfs", "copy")


def workloads(quick=False):
    wls = BASE_WORKLOADS + (XFS_WORKLOADS if XROOT[0] else ())
    if quick:
        wls = tuple(w for w in wls if w in QUICK_WORKLOADS)
    return wls


def _census(ck, root):
    seed_archive = root / "seed.tar"
    census_hits, ref_final = {}, {}
    for wl in workloads(ck.quick):
        sp = _spec(root, f"census-{wl}", wl, [], rerun=False, seed_archive=seed_archive, want_hits=True)
        if wl == "solve":
            sp["keep_archive"] = str(seed_archive)
        res = _job(sp)
        if res["status"] != "ok":
            ck.inconclusive(f"census {wl}: driver {res['status']} {res.get('err', '')[-300:]}")
            return None
        p = res["phases"][0]
        st = p["state"]
        if p["raised"] or not st.get("exists") or "corrupt" in st or not p.get("eko_reads", {}).get("ok"):
            ck.inconclusive(f"census {wl}: the fault-free run is not usable as reference: raised={p.get('exc')} state={_short(st)} reads={p.get('eko_reads')}")
            return None
        census_hits[wl] = [h for h in res["hits"] if h["phase"] == "run1"]
        ref_final[wl] = st["digest"]
        ck.hit("census_hits", len(census_hits[wl]))
        if wl.endswith("@xfs"):
            dv = res.get("devices") or {}
            if not dv or dv.get("out") == dv.get("tmp"):
                ck.inconclusive(f"census {wl}: output and temporary directory are on the same device {dv}")
                return None
            if ref_final[wl] != ref_final[wl.split("@")[0]]:
                ck.inconclusive(f"census {wl}: result differs from the same-file-system result")
                return None
        if wl.split("@")[0] == "edit":
            prev = res["initial_state"].get("digest")
            if prev != ref_final["solve"] or prev == ref_final[wl]:
                ck.inconclusive("census edit: the pre-session archive is not the solve result, or the edit session changes nothing")
                return None
    return census_hits, ref_final, seed_archive


def _run(ck, root):
    from ..drivers.c38_driver import COMMIT_SITES, WRITE_SITES

    got = _census(ck, root)
    if got is None:
        return
    census_hits, ref_final, seed_archive = got
    oracle = Oracle(ck, ref_final, ref_final["solve"])
    # development knob (mutation self-test under load): inject only into the named workloads;
    # the run is then never reported as exhaustive
    only = [w for w in os.environ.get("VERIF_C38_WORKLOADS", "").split(",") if w]
    WORKLOADS = workloads(ck.quick)
    active = [w for w in WORKLOADS if not only or w in only]
    for wl in WORKLOADS:
        if wl.endswith("@xfs"):
            # with the target on another file system only the commit phase can behave differently
            census_hits[wl] = [h if commit_phase(h) else dict(h, skip=True) for h in census_hits[wl]]
        elif wl == "solve" and ck.quick:
            # quick: the file-system failpoints of a creating session are enumerated in `user` (same
            # Builder/Inventory/close code, fewer members); of the real solve only the computation steps
            census_hits[wl] = [h if h["site"] in NONEXC_SITES else dict(h, skip=True) for h in census_hits[wl]]
    ck.note(
        failpoints={wl: sum(1 for h in census_hits[wl] if not h.get("skip")) for wl in WORKLOADS},
        failpoint_sites=sorted({h["site"] for wl in WORKLOADS for h in census_hits[wl]}),
        failpoint_callers=sorted({h["caller"] for wl in WORKLOADS for h in census_hits[wl]}),
        cross_fs=bool(XROOT[0]),
    )
    if not XROOT[0]:
        ck.case(("cross-fs",), nontrivial=False)
        ck.inconclusive("no second writable file system found: the cross-file-system sub-monitor did not run")

    # ------------------------------------------------------------ single faults
    cases = []
    for wl in active:
        for h in census_hits[wl]:
            if h.get("skip"):
                continue
            k = h["ordinal"]
            variants = [("before", "error")]
            into_archive = commit_phase(h) or "<tmp>.tar" in h["detail"]
            if h["site"] in WRITE_SITES and (into_archive or ck.thorough):
                variants.append(("partial", "error"))
            if h["site"] == "open(w)" and into_archive and not ck.thorough:
                # opening for writing truncates: a failure right after it (thorough does this everywhere)
                variants.append(("after", "error"))
            if h["site"] in NONEXC_SITES:
                # interruptions that are BaseException but not Exception, inside the with block
                variants.append(("before", "sysexit"))
                if not ck.thorough:
                    variants.append(("before", "interrupt"))
            if ck.thorough:
                variants.append(("before", "interrupt"))
                if h["site"] not in COMMIT_SITES:
                    variants.append(("after", "error"))
            for mode, kd in variants:
                f = dict(ordinal=k, mode=mode, kind=kd)
                name = f"{wl}-{k}-{mode}-{kd}"
                cases.append(dict(key=(wl, k, mode, kd), wl=wl, faults=[f], retry=None, spec=_spec(root, name, wl, [f], seed_archive=seed_archive)))
    planned = {(c["wl"], c["faults"][0]["ordinal"]) for c in cases if c["faults"][0]["mode"] == "before" and c["faults"][0]["kind"] == "error"}
    results = _run_cases(ck, oracle, cases, census_hits)
    decided = {(k[0], k[1]) for k in results if k[2] == "before" and k[3] == "error"}
    all_hits = {(wl, h["ordinal"]) for wl in WORKLOADS for h in census_hits[wl] if not h.get("skip")}
    complete_single = planned == all_hits and decided == all_hits and not only
    # "exhaustive" is claimed only when every censused failpoint of every workload was injected (thorough)
    exhaustive_single = complete_single and ck.thorough
    if ck.quick:
        ck.note(
            quick_failpoint_sets_complete=bool(complete_single),
            quick_failpoint_sets="user, edit: every failpoint; solve: every computation step; user@xfs: every failpoint of the commit phase (EKO.close/EKO.dump); file-system failpoints of the real solve, the copy workload and edit@xfs only in the thorough tier",
        )
    if only:
        ck.note(restricted_to_workloads=active)
    ck.note(single_faults_injected=len(decided), single_faults_censused=len(all_hits))

    exhaustive_pairs = None
    if ck.thorough:
        exhaustive_pairs = _pairs(ck, root, oracle, census_hits, results, seed_archive)
    ck.note(exhaustive=bool(exhaustive_single and (exhaustive_pairs is not False)), exhaustive_single=bool(exhaustive_single))
    if exhaustive_pairs is not None:
        ck.note(exhaustive_pairs=bool(exhaustive_pairs))


MAX_STATE_CLASSES = 12


def _pairs(ck, root, oracle, census_hits, results, seed_archive):
    """Two faults in one run; second fault during the retry (per class of left-over state)."""
    complete = True
    cases = []
    # (a) second fault in the same run: every hit that occurs after the first fault fired
    for key, (ph, val) in results.items():
        wl, k, mode, kd = key
        if (mode, kd) != ("before", "error"):
            continue
        for h in val.get("post_fault_hits", []):
            f1 = dict(ordinal=k, mode="before", kind="error")
            f2 = dict(ordinal=h["ordinal"], mode="before", kind="error")
            name = f"{wl}-{k}+{h['ordinal']}"
            cases.append(dict(key=(wl, k, "two-in-run", h["ordinal"]), wl=wl, faults=[f1, f2], retry=None, spec=_spec(root, name, wl, [f1, f2], seed_archive=seed_archive)))
    ck.note(pairs_two_in_one_run=len(cases))
    # (b) second fault during the retry: one representative first fault per state class
    classes = {}
    for key, (ph, val) in sorted(results.items(), key=lambda kv: repr(kv[0])):
        wl = key[0]
        sig = (wl, _sig(ph["run1"]["state"]))
        classes.setdefault(sig, []).append(key)
    ck.note(state_classes_after_first_fault=len(classes))
    chosen = sorted(classes.items(), key=lambda kv: repr(kv[0]))
    if len(chosen) > MAX_STATE_CLASSES:
        complete = False
        chosen = chosen[:MAX_STATE_CLASSES]
    probes = []
    for sig, keys in chosen:
        wl, k, mode, kd = keys[0]
        f1 = dict(ordinal=k, mode=mode, kind=kd)
        probes.append((sig, wl, f1, _spec(root, f"probe-{wl}-{k}-{mode}-{kd}", wl, [f1], retry=[], rerun=False, seed_archive=seed_archive)))
    retry_hits = {}
    bysp = {p[3]["name"]: p for p in probes}
    for spec, status, val in jobs.pmap(_job, [p[3] for p in probes], timeout=JOB_TIMEOUT * (2 + len(probes))):
        sig, wl, f1, _ = bysp[spec["name"]]
        if status != "ok" or not isinstance(val, dict) or val.get("status") != "ok":
            ck.inconclusive(f"{wl}: retry census failed: {status}")
            complete = False
            continue
        retry_hits[(sig, wl, json.dumps(f1, sort_keys=True))] = val["retry_hits"]
    n_retry = 0
    for (sig, wl, f1s), hits in retry_hits.items():
        f1 = json.loads(f1s)
        for h in hits:
            f2 = dict(ordinal=h["ordinal"], mode="before", kind="error")
            name = f"{wl}-{f1['ordinal']}{f1['mode'][0]}{f1['kind'][0]}-retry-{h['ordinal']}"
            cases.append(
                dict(
                    key=(wl, f1["ordinal"], f1["mode"], f1["kind"], "retry", h["ordinal"]),
                    wl=wl,
                    faults=[f1],
                    retry=[f2],
                    spec=_spec(root, name, wl, [f1], retry=[f2], seed_archive=seed_archive),
                )
            )
            n_retry += 1
    ck.note(pairs_retry=n_retry)
    _run_cases(ck, oracle, cases, census_hits)
    return complete


def replay(ck, rep):
    """Re-run exactly the witness injection."""
    w = rep["witness"]
    with scratch.tmpdir(prefix="c38-") as root:
        root = pathlib.Path(root)
        XROOT[0] = second_filesystem(root)
        try:
            got = _census(ck, root)
            if got is None:
                return
            census_hits, ref_final, seed_archive = got
            oracle = Oracle(ck, ref_final, ref_final["solve"])
            old = w["spec"]
            wl = old.get("wl", old["workload"])
            if wl.endswith("@xfs") and not XROOT[0]:
                ck.inconclusive("replay needs a second file system")
                return
            sp = _spec(root, "replay", wl, old["run1"], retry=old.get("retry"), seed_archive=seed_archive)
            case = dict(key=("replay",), wl=wl, faults=sp["run1"], retry=sp.get("retry"), spec=sp)
            ck.min_nontrivial = 1
            oracle.judge(case, _job(sp), census_hits)
        finally:
            if XROOT[0]:
                shutil.rmtree(XROOT[0], ignore_errors=True)
                XROOT[0] = None
