"""C05: evolved PDFs conserve total momentum and valence numbers (polarised: axial charges)."""

import numpy as np

from .. import jobs, workload as w
from ..oracles import interp as oi

META = dict(
    level="exploration",
    design_ref="DESIGN.md §5 C05",
    technique="end-to-end conservation monitor: real eko.solve on 24-40 point grids, stored operators contracted in the harness (C43 ties ekobox.apply to this contraction) with random smooth toy PDFs; moments of the interpolated input and output computed with the oracle's own Lagrange basis and Gauss-Legendre quadrature, compared before/after",
    level_text="Real solves (LO-NNLO, FFNS and one-threshold VFNS, up and down in scale, unpolarised incl. QED, polarised) applied to random smooth PDFs; total momentum, each flavour's valence number and the polarised non-singlet first moments must be unchanged within 1% (abs 0.02 for vanishing valence).",
    level_note="Moments are those of the piecewise-Lagrange interpolant on [x_min,1] with the same quadrature before and after, so the interpolation error of the toy PDF cancels to first order; toy PDFs are chosen so that the region below x_min carries <0.2% of each moment. The interpolation basis used for the quadrature weights is the oracle's (vlib/oracles/interp.py), not eko's.",
    rule="case = (configuration, PDF replica, conserved quantity); distinct by configuration+replica+quantity; non-trivial = mu really changes and the conserved quantity is O(1) or an exactly-zero valence with non-zero sea",
    min_nontrivial=15,
    required_hits=["moments_compared"],
    max_inconclusive_frac=0.2,
)

PIDS = [22, -6, -5, -4, -3, -2, -1, 21, 1, 2, 3, 4, 5, 6]
GL_X, GL_W = np.polynomial.legendre.leggauss(16)


def weights(xs, degree, k, is_log=True):
    """w_j = int_{xmin}^1 x^k p_j(x) dx for the (log- or linear-) Lagrange basis (oracle block choice)."""
    if not is_log:
        return weights_lin(xs, degree, k)
    us = np.log(np.asarray(xs, float))
    n = len(us)
    wj = np.zeros(n)
    for i, (s, e) in enumerate(oi.blocks(n, degree)):
        a, b = us[i], us[i + 1]
        u = 0.5 * (b - a) * GL_X + 0.5 * (b + a)
        jac = 0.5 * (b - a) * GL_W * np.exp((k + 1) * u)  # dx = e^u du
        nodes = us[s : e + 1]
        for jj in range(len(nodes)):
            p = np.ones_like(u)
            for kk in range(len(nodes)):
                if kk != jj:
                    p *= (u - nodes[kk]) / (nodes[jj] - nodes[kk])
            wj[s + jj] += float(np.sum(jac * p))
    return wj


def weights_lin(xs, degree, k):
    us = np.asarray(xs, float)
    n = len(us)
    wj = np.zeros(n)
    for i, (s, e) in enumerate(oi.blocks(n, degree)):
        a, b = us[i], us[i + 1]
        u = 0.5 * (b - a) * GL_X + 0.5 * (b + a)
        jac = 0.5 * (b - a) * GL_W * u**k
        nodes = us[s : e + 1]
        for jj in range(len(nodes)):
            p = np.ones_like(u)
            for kk in range(len(nodes)):
                if kk != jj:
                    p *= (u - nodes[kk]) / (nodes[jj] - nodes[kk])
            wj[s + jj] += float(np.sum(jac * p))
    return wj


def make_grid(nlow, nhigh, xmin):
    low = np.geomspace(xmin, 0.1, nlow, endpoint=False)
    high = np.linspace(0.1, 1.0, nhigh)
    return [float(x) for x in np.concatenate([low, high])]


def toy(rng, active, polarized, qed, shift=0.0):
    """Flavour-basis f(x) (not x f) on demand; valence-like pieces fall like x^(a-1) with a>=0.8."""
    par = {}
    for q in range(1, 7):
        if q > active:
            par[q] = None
            continue
        sea = (float(rng.uniform(0.05, 0.4)), float(rng.uniform(0.8, 1.3)) if polarized else float(rng.uniform(0.1, 0.4)), float(rng.uniform(5, 9)))
        val = (float(rng.uniform(0.5, 3.0)) if q <= 2 or polarized or rng.random() < 0.3 else 0.0, float(rng.uniform(0.8, 1.3)), float(rng.uniform(2.5, 5)))
        par[q] = (sea, val)
    g = (float(rng.uniform(1, 4)), float(rng.uniform(0.8, 1.3)) if polarized else float(rng.uniform(0.1, 0.3)), float(rng.uniform(4, 8)))
    ph = (float(rng.uniform(0.005, 0.03)), 0.1, 4.0)

    def shape(p, x):
        A, a, b = p
        return A * x ** (a + shift - 1.0) * (1 - x) ** b

    def f(pid, x):
        x = np.asarray(x, float)
        if pid == 21:
            return shape(g, x)
        if pid == 22:
            return shape(ph, x) if qed else np.zeros_like(x)
        q = abs(pid)
        if par[q] is None:
            return np.zeros_like(x)
        sea, val = par[q]
        r = shape(sea, x)
        if pid > 0:
            r = r + shape(val, x)
        return r

    return f, dict(quarks={k: v for k, v in par.items()}, g=g)


def run_case(cfg):
    rng = np.random.default_rng(cfg["_seed"])
    c = {k: v for k, v in cfg.items() if not k.startswith("_")}
    try:
        res = w.solve_cfg(c)
    except (NotImplementedError, ValueError) as e:
        return dict(status="refused", msg=f"{type(e).__name__}: {str(e)[:100]}")
    except Exception as e:
        import traceback

        return dict(status="crash", msg=f"{type(e).__name__}: {str(e)[:200]}", tb=traceback.format_exc()[-500:])
    xs = np.array(cfg["xgrid"])
    w1 = weights(xs, cfg["degree"], 1, cfg.get("is_log", True))
    w0 = weights(xs, cfg["degree"], 0, cfg.get("is_log", True))
    polarized = cfg["pt"] == "pol"
    qed = cfg["qed"] > 0
    nf0 = cfg["init"][1]
    out = []
    for rep in range(cfg["_replicas"]):
        # linear interpolation cannot resolve steep small-x shapes on an affordable grid: valence-like inputs there
        lin = not cfg.get("is_log", True)
        f, par = toy(rng, nf0, polarized or lin, qed, shift=0.3 if lin else 0.0)
        fin = np.array([f(pid, xs) for pid in PIDS])  # [pid, x]
        fin[:, -1] = 0.0  # f(1) = 0
        for (mu2, nf), (o, err) in res.items():
            fout = np.einsum("ajbk,bk->aj", o, fin)
            rec = dict(replica=rep, target=[mu2, nf], checks=[])
            if not polarized:
                m_in = float(np.sum(fin @ w1))
                m_out = float(np.sum(fout @ w1))
                rec["checks"].append(dict(q="momentum", before=m_in, after=m_out, rel=abs(m_out - m_in) / abs(m_in), scale=abs(m_in)))
                for q in range(1, 7):
                    i, ib = PIDS.index(q), PIDS.index(-q)
                    v_in = float((fin[i] - fin[ib]) @ w0)
                    v_out = float((fout[i] - fout[ib]) @ w0)
                    sea = float(fin[ib] @ w0)
                    rec["checks"].append(dict(q=f"valence{q}", before=v_in, after=v_out, rel=abs(v_out - v_in) / max(abs(v_in), 1e-300), abs=abs(v_out - v_in), scale=abs(v_in), sea=sea, active=q <= max(nf0, nf)))
            else:
                plus = {q: fin[PIDS.index(q)] + fin[PIDS.index(-q)] for q in range(1, 7)}
                pluso = {q: fout[PIDS.index(q)] + fout[PIDS.index(-q)] for q in range(1, 7)}
                combos = {"T3": {2: 1, 1: -1}, "T8": {2: 1, 1: 1, 3: -2}}
                if min(nf0, nf) >= 4:
                    combos["T15"] = {2: 1, 1: 1, 3: 1, 4: -3}
                for name, cmb in combos.items():
                    a_in = float(sum(cf * (plus[q] @ w0) for q, cf in cmb.items()))
                    a_out = float(sum(cf * (pluso[q] @ w0) for q, cf in cmb.items()))
                    ref = float(sum(abs(cf) * abs(plus[q] @ w0) for q, cf in cmb.items()))
                    rec["checks"].append(dict(q=name, before=a_in, after=a_out, rel=abs(a_out - a_in) / max(ref, 1e-300), abs=abs(a_out - a_in), scale=ref))
            out.append(rec)
    return dict(status="ok", recs=out)


def configs(ck):
    rng = ck.rng
    cfgs = []

    def base(qcd, qed, pt, nf0, nff, up, method="iterate-exact", nlow=16, nhigh=14, xmin=1e-5):
        masses = [1.51, 4.92, 172.5]
        walls = masses
        lo = [1.4, walls[0], walls[1]][nf0 - 3]
        hi = [walls[0], walls[1], walls[2]][nf0 - 3]
        if nff != nf0:  # cross one wall
            if nff > nf0:
                mu0 = float(np.exp(rng.uniform(np.log(max(lo, hi / 2.2)), np.log(hi * 0.95))))
                mu1 = hi * float(rng.uniform(1.5, 4.0))
            else:
                mu0 = lo * float(rng.uniform(1.3, 2.5))
                mu1 = max(1.4, lo / float(rng.uniform(1.3, 2.0)))
        else:
            # fixed number of flavours: move the other walls out of the way
            masses = {3: [150.0, 160.0, 172.5], 4: [1.0, 150.0, 172.5], 5: [1.0, 1.2, 172.5]}[nf0]
            mu0 = float(np.exp(rng.uniform(np.log(1.5), np.log(10.0))))
            fac = float(rng.uniform(2.0, 4.0))
            mu1 = mu0 * fac if up else max(mu0 / min(fac, 2.5), 1.35)
        return dict(
            qcd=qcd, qed=qed, method=method, pt=pt, init=[mu0, nf0], targets=[[mu1, nff]], masses=masses, ratios=[1.0, 1.0, 1.0],
            xgrid=make_grid(nlow, nhigh, xmin), degree=3, scvar=None, xif=1.0, inversion="exact" if nff < nf0 else None,
            iters=int(rng.integers(4, 10)), alphas=0.118, alphaem=0.007496252, em_running=False, max_order=[10, 0], cores=ck_cores, n3lo_var=[0] * 7, fhmruvv=True, matching_order=None, scheme="POLE",
            _seed=int(rng.integers(1 << 30)), _replicas=3,
        )

    ck_cores = -1 if ck.quick else 4  # solves are expensive: use the library's own pool
    if ck.quick:
        c1 = base(1, 0, "unpol", 4, 4, True)
        c1["scvar"], c1["xif"] = "expanded", 2.0  # the expanded scale-variation factor conserves the sum rules as well
        c2 = base(2, 0, "unpol", 3, 4, True)
        c2["init"][0] = c2["masses"][0] * c2["ratios"][0]  # start exactly on the charm matching scale: zero-length first segment
        cfgs += [c1, c2, base(1, 0, "pol", 3, 3, True)]
        lin = base(1, 0, "unpol", 4, 4, True, nlow=14, nhigh=14, xmin=1e-4)
        lin["is_log"] = False  # polynomial-in-x interpolation declared in the card must be honoured and conserve as well
        lin["targets"] = [[lin["init"][0] * 2.0, 4]]
        cfgs.append(lin)
    else:
        for qcd in (1, 2, 3):
            cfgs += [base(qcd, 0, "unpol", 4, 4, True), base(qcd, 0, "unpol", 4, 5, True), base(qcd, 0, "unpol", 4, 4, False, method="truncated"), base(qcd, 0, "pol", 3, 3, True), base(qcd, 0, "pol", 4, 5, True)]
        for q in (1, 2):
            lin = base(q, 0, "unpol", 4, 4, True, nlow=14, nhigh=14, xmin=1e-4)
            lin["is_log"] = False
            lin["targets"] = [[lin["init"][0] * 2.0, 4]]
            cfgs.append(lin)
        for q in (1, 2, 3):
            cz = base(q, 0, "unpol", 3, 4, True)
            cz["init"][0] = cz["masses"][0] * cz["ratios"][0]
            cs = base(q, 0, "unpol", 4, 4, True)
            cs["scvar"], cs["xif"] = ["expanded", "exponentiated"][q % 2], float(rng.choice([0.5, 2.0]))
            cfgs += [cz, cs]
        cfgs += [base(2, 0, "unpol", 5, 4, False), base(1, 0, "unpol", 3, 4, True, nlow=18, nhigh=18), base(1, 1, "unpol", 4, 4, True), base(2, 1, "unpol", 4, 4, True), base(2, 0, "unpol", 3, 3, True, method="iterate-expanded"), base(2, 0, "pol", 4, 4, False)]
    return cfgs


def run(ck):
    cfgs = configs(ck)
    if ck.replay:
        cfgs = [ck.replay["witness"]["cfg"]]
    workers = 1 if ck.quick else 4
    worst = {}
    worst_cfg = {}
    for cfg, st, res in jobs.pmap(run_case, cfgs, workers=workers, timeout=ck.n(3000, 6 * 3600), item_timeout=ck.n(2400, 3 * 3600)):
        ckey = w.cfg_key({k: v for k, v in cfg.items()})
        if st != "ok":
            ck.case(ckey, nontrivial=False)
            ck.inconclusive(f"job {st}: {str(res)[:100]}")
            continue
        if res["status"] != "ok":
            ck.case(ckey, nontrivial=False)
            if res["status"] == "refused":
                ck.hit("refused")
            else:
                ck.inconclusive("solver crashed (C04's business): " + res["msg"][:80])
            continue
        for rec in res["recs"]:
            for chk in rec["checks"]:
                ck.hit("moments_compared")
                kq = "valence" if chk["q"].startswith("valence") else chk["q"]
                worst[kq] = max(worst.get(kq, 0.0), chk["rel"] if chk["scale"] >= 0.05 else 0.0)
                ctag = f"{kq}|{cfg['pt']}|order{cfg['qcd']}{cfg['qed']}|{'log' if cfg.get('is_log', True) else 'lin'}|nf{cfg['init'][1]}->{rec['target'][1]}"
                worst_cfg[ctag] = max(worst_cfg.get(ctag, 0.0), chk["rel"] if chk["scale"] >= 0.05 else 0.0)
                key = (ckey, rec["replica"], tuple(rec["target"]), chk["q"])
                small = chk["q"].startswith("valence") and chk["scale"] < 0.05
                nontriv = (not small) or chk.get("sea", 0) > 0.01
                ck.case(key, nontrivial=nontriv, sample=dict(order=[cfg["qcd"], cfg["qed"]], pt=cfg["pt"], init=cfg["init"], target=rec["target"], **{k: chk[k] for k in ("q", "before", "after")}))
                bad = (chk["abs"] > 0.02) if small else (chk["rel"] > 0.01)
                if chk["q"] == "momentum":
                    bad = chk["rel"] > 0.01
                if bad:
                    kind = "valence" if chk["q"].startswith("valence") else chk["q"]
                    path = "fixed" if rec["target"][1] == cfg["init"][1] else ("up" if rec["target"][1] > cfg["init"][1] else "down")
                    ck.violation(f"C05/{kind}/{cfg['pt']}/order{cfg['qcd']}{cfg['qed']}/{path}" + ("" if cfg.get("is_log", True) else "/linear-interpolation"), f"{chk['q']} changed from {chk['before']:.5g} to {chk['after']:.5g}", dict(cfg=cfg, rec=dict(rec, checks=[chk])))
                else:
                    ck.ok()
    ck.note(worst_relative_change=worst, worst_relative_change_by_config=worst_cfg)
