"""C27: large-N behaviour of the diagonal anomalous dimensions = cusp anomalous dimension."""

import numpy as np

from ..oracles import cusp

META = dict(
    level="exploration",
    design_ref="DESIGN.md §5 C27",
    technique="asymptotic-slope monitor: finite-difference slope of gamma(N) in ln N between N1<N2 in [1e3,1e5] for every diagonal entry (ns+, ns-, nsv, qq, gg; unpolarised incl. both N3LO variants and all variations, time-like, polarised) against the literature cusp coefficients",
    level_text="Every diagonal entry of every order/nf/variant is executed at pairs of large moments; the literature cusp coefficients (exact A_1..A_3, numerical A_4 for quark and gluon) are the oracle. Sampled in the N pairs, exhaustive in nf/order/sector/variation.",
    level_note="Trusted base: my transcription of A_1..A_4 (literature.cusp, cross-checked in oracles/cusp.selfcheck against the decimal forms). Deviation from DESIGN/statement: at four loops the gluon cusp is NOT (C_A/C_F) A_4 (quartic Casimirs); the literature A_{g,4} is used there. Tolerance 2% of |A_k| plus 3e-4 of the summed |nf^i| terms (digits carried by the N3LO tables; nf=5 cancels A_4 down to 141) plus a bound 0.6*scale*ln(N1)/N1 on the sub-leading S1/N terms.",
    rule="cases = (family, entry, order, nf, variant/variation, N pair); distinct by all of these; non-trivial = |A_k| > 0 and N2/N1 >= 10",
    min_nontrivial=400,
    required_hits=["slope_ns", "slope_gg", "slope_timelike", "slope_polarized"],
)

V0 = (0,) * 7


def tol_for(k, nf, rep, A, N1):
    ts = cusp.term_scale(k, nf, rep)
    # 2% of the coefficient + digits of the numerical tables + sub-leading C ln(N)/N terms (measured <= 0.26 ts lnN/N for the in-house N3LO gg variations)
    return 0.02 * abs(A) + 3e-4 * ts + 0.6 * ts * np.log(N1) / N1


def run(ck):
    import ekore.anomalous_dimensions.polarized.space_like as ps
    import ekore.anomalous_dimensions.unpolarized.space_like as us
    import ekore.anomalous_dimensions.unpolarized.time_like as ut

    bad = cusp.selfcheck()
    if bad:
        ck.inconclusive(f"cusp transcriptions disagree: {bad[:3]}")
        return
    rng = ck.rng
    npairs = ck.n(5, 200)
    pairs = [(1e3, 1e5)]
    while len(pairs) < npairs:
        n1 = 10 ** rng.uniform(3, 4)
        n2 = n1 * 10 ** rng.uniform(1, 5 - np.log10(n1))
        pairs.append((float(n1), float(min(n2, 1e5))))

    def observe(hit, family, entry, k, nf, tag, rep, g1, g2, N1, N2):
        """k = loop order (1-based)."""
        A = float(cusp.quark(k, nf) if rep == "q" else cusp.gluon(k, nf))
        slope = complex((g2 - g1) / np.log(N2 / N1))
        tol = tol_for(k, nf, rep, A, N1)
        case = (family, entry, k, nf, tag, N1, N2)
        ck.case(case, nontrivial=abs(A) > 0 and N2 / N1 >= 10, sample=dict(family=family, entry=entry, loops=k, nf=nf, variant=tag, N1=N1, N2=N2, slope=slope.real, cusp=A))
        ck.hit(hit)
        if not np.isfinite(abs(slope)) or abs(slope - A) > tol:
            ck.violation(
                f"C27/{family}/{entry}/order{k - 1}",
                f"{family} {entry} at {k} loops, nf={nf} ({tag}): d gamma/d ln N = {slope.real:.6g} between N={N1:.4g} and {N2:.4g}, cusp coefficient {A:.6g} (tolerance {tol:.3g})",
                dict(family=family, entry=entry, loops=k, nf=nf, variant=tag, N1=N1, N2=N2, gamma_N1=g1, gamma_N2=g2, slope=slope, cusp=A, tol=tol, seed=ck.seed),
            )
        else:
            ck.ok()

    NSMODES = ((10101, "nsp"), (10201, "nsm"), (10200, "nsv"))
    for N1, N2 in pairs:
        c1, c2 = complex(N1), complex(N2)
        for nf in (3, 4, 5, 6):
            # ---------------- unpolarised space-like, orders 1-3 and both N3LO variants
            variants = [("inhouse", False, (V0,))]
            if nf <= 5:
                variants.append(("fhmruvv", True, None))
            for vname, flag, _ in variants:
                # non-singlet: all variations of the respective slot (FHMRUVV), central for in-house
                for mode, entry in NSMODES:
                    slot = {10101: 4, 10201: 5, 10200: 6}[mode]
                    for var in ((0, 1, 2) if flag else (0,)):
                        v7 = [0] * 7
                        v7[slot] = var
                        v7 = tuple(v7)
                        g1 = us.gamma_ns((4, 0), mode, c1, nf, v7, flag)
                        g2 = us.gamma_ns((4, 0), mode, c2, nf, v7, flag)
                        for k in (1, 2, 3, 4):
                            if k < 4 and (var != 0 or not flag and nf <= 5):
                                continue  # lower orders do not depend on the variant: count once
                            observe("slope_ns", "us", entry, k, nf, f"{vname}/var{var}", "q", g1[k - 1], g2[k - 1], N1, N2)
                # singlet diagonal: qq and gg, every variation index of the diagonal slots
                nqq = 3 if flag else 7
                ngg = 3 if flag else 20
                for var in range(max(nqq, ngg)):
                    v7 = (var if var < ngg else 0, 0, 0, var if var < nqq else 0, 0, 0, 0)
                    g1 = us.gamma_singlet((4, 0), c1, nf, v7, flag)
                    g2 = us.gamma_singlet((4, 0), c2, nf, v7, flag)
                    for k in (1, 2, 3, 4):
                        if k < 4 and (var != 0 or not flag and nf <= 5):
                            continue
                        if var < nqq:
                            observe("slope_ns", "us", "qq", k, nf, f"{vname}/var{var}", "q", g1[k - 1][0, 0], g2[k - 1][0, 0], N1, N2)
                        if var < ngg:
                            observe("slope_gg", "us", "gg", k, nf, f"{vname}/var{var}", "g", g1[k - 1][1, 1], g2[k - 1][1, 1], N1, N2)
            # ---------------- time-like and polarised, orders 1-3
            for fam, mod, hit in (("ut", ut, "slope_timelike"), ("ps", ps, "slope_polarized")):
                for mode, entry in NSMODES:
                    g1 = mod.gamma_ns((3, 0), mode, c1, nf)
                    g2 = mod.gamma_ns((3, 0), mode, c2, nf)
                    for k in (1, 2, 3):
                        observe(hit, fam, entry, k, nf, "-", "q", g1[k - 1], g2[k - 1], N1, N2)
                g1 = mod.gamma_singlet((3, 0), c1, nf)
                g2 = mod.gamma_singlet((3, 0), c2, nf)
                for k in (1, 2, 3):
                    observe(hit, fam, "qq", k, nf, "-", "q", g1[k - 1][0, 0], g2[k - 1][0, 0], N1, N2)
                    observe(hit, fam, "gg", k, nf, "-", "g", g1[k - 1][1, 1], g2[k - 1][1, 1], N1, N2)
