"""C45: LHAPDF export (evolve_pdfs / info_file / genpdf export+load) is self-consistent."""

import contextlib
import io
import os
import pathlib
import shutil
import warnings

import numpy as np

from .. import jobs, scratch
from .. import workload as wl
from ..oracles import interp_f, lhagrid_f, synth_f

META = dict(
    level="exploration",
    design_ref="DESIGN.md §5 C45",
    technique="reference-model monitor on ekobox.evol_pdf.evolve_pdfs, info_file.build/build_alphas and genpdf export/load: written files parsed by the harness' own lhagrid1/info readers and compared with the harness contraction of the stored operators, the grids actually written, the runner's couplings and an independent LO/NLO alpha_s ODE",
    level_text="Randomised exploration over synthetic EKOs (random operators, unsorted evolution grids over 1-4 nf blocks, POLE and MSBAR masses with reference scales different from the masses, orders LO-N3LO, exact and expanded couplings), 1-3 members with missing flavours, target grid absent / list or ndarray in ascending, descending or shuffled order / XGrid, install on/off through a fake lhapdf module; plus dump->load round trips of random blocks and generate_pdf from callables and from an installed parent set. Holds on the executions observed only.",
    level_note="Trusted base: numpy einsum, mpmath interpolation oracle, PyYAML for the info values, eko.runner.commons.couplings as the definition of 'the coupling used by the evolution' (cross-checked by an own ODE for LO/NLO, POLE, matching ratio 1), eko's archive reader for the (few) real-solve cases. xif=1 throughout. Printed precision: 6 significant decimals for x and Q nodes (%.6e), 8 for data (%.8e).",
    rule="case = (kind, scheme, order, method, n nf-blocks, members, target-grid form, install, index); non-trivial = evolve case with >= 2 evolution points not in ascending order or >= 2 nf blocks, dense random operators and a PDF with >= 3 flavours; round-trip case with >= 2 blocks of random data",
    min_nontrivial=25,
    required_hits=["data_nodes", "info_ranges", "info_alphas_runner", "info_alphas_ode", "msbar_alphas", "targetgrid_list", "targetgrid_unsorted", "targetgrid_xgrid", "roundtrip_blocks", "generate_pdf", "install", "overlapping_blocks_refused"],
    max_inconclusive_frac=0.1,
)

PREC_GRID = 1.5e-6  # %.6e
PREC_DATA = 1.5e-8  # %.8e


def _evolve_case(seed, i):
    rng = np.random.default_rng([seed, 45, 0, i])
    from eko.io.struct import EKO
    from eko.interpolation import XGrid
    from eko.runner import commons
    from ekobox import evol_pdf

    out = dict(hits={}, viol=[], inc=[], ok=0)
    scheme = ["POLE", "MSBAR", "POLE", "MSBAR-mm"][i % 4]
    tform = ["none", "list", "xgrid", "none", "list"][(i // 4) % 5]  # independent of the scheme (i % 4)
    install = bool((i // 20) % 3 == 0)
    pathform = ["file", "dir"][(i // 20 + i // 4) % 2]
    real_solve = i % 40 == 7
    order = (int(rng.choice([1, 2, 2, 3, 4])), 0)
    method = str(rng.choice(["iterate-exact", "iterate-exact", "truncated", "iterate-expanded"]))
    easy = bool(rng.random() < 0.45) or real_solve  # configuration decidable by the ODE oracle
    if easy:
        order = (int(rng.choice([1, 2])), 0)
        method = "iterate-exact"
    masses = (float(rng.uniform(1.3, 1.7)), float(rng.uniform(4.2, 5.0)), float(rng.uniform(160.0, 175.0)))
    if scheme == "MSBAR":
        # reference scales the library accepts for nf_ref=5: above m for c,b; in [Q_ref, m) for t
        refs = (float(masses[0] * rng.uniform(1.2, 2.0)), float(masses[1] * rng.uniform(1.2, 2.0)), float(masses[2] * rng.uniform(0.6, 0.95)))
    elif scheme == "MSBAR-mm":
        refs = masses
    else:
        refs = (float("nan"),) * 3
    ratios = (1.0, 1.0, 1.0) if (easy or rng.random() < 0.5) else tuple(float(r) for r in rng.uniform(0.7, 2.0, size=3))
    alphas = float(rng.uniform(0.105, 0.125))
    th_raw = wl.raw_theory(order=order, alphas=alphas, masses=masses, scheme="POLE" if scheme == "POLE" else "MSBAR", ratios=ratios, mass_refs=refs)
    # evolution grid: ascending nf blocks with non-overlapping Q ranges (equal edges allowed), shuffled
    nblocks = int(rng.integers(1, 5))
    nfs = sorted(rng.choice([3, 4, 5, 6], size=nblocks, replace=False).tolist())
    edges = np.sort(10 ** rng.uniform(0.15, 2.6, size=nblocks + 1))
    mugrid = []
    for b, nf in enumerate(nfs):
        nq = int(rng.integers(1, 4))
        qs = np.sort(10 ** rng.uniform(np.log10(edges[b]), np.log10(edges[b + 1]), size=nq))
        if rng.random() < 0.4:
            qs[0] = edges[b]  # shared edge with the previous block
        if rng.random() < 0.4:
            qs[-1] = edges[b + 1]
        for q in np.unique(qs):
            mugrid.append((float(q), int(nf)))
    if real_solve:
        mugrid = [(30.0, 5), (3.0, 4), (4.92 if scheme == "POLE" else 6.0, 5)]
        masses = (1.51, 4.92, 172.5)
        th_raw = wl.raw_theory(order=order, alphas=alphas, masses=masses, scheme="POLE", ratios=(1.0, 1.0, 1.0))
        scheme = "POLE"
    bad_scales = (i % 12 == 10) and not real_solve
    if bad_scales:
        # last scale of a lower-nf block above the first scale of the next block
        nfa = int(rng.integers(3, 6))
        mugrid = [(5.0, nfa), (float(rng.uniform(12.0, 20.0)), nfa), (10.0, nfa + 1), (100.0, nfa + 1)]
        nblocks = 2
    perm = rng.permutation(len(mugrid))
    mugrid = [mugrid[k] for k in perm]
    ascending = all(mugrid[k][0] <= mugrid[k + 1][0] for k in range(len(mugrid) - 1))
    nx = int(rng.integers(3, 7))
    deg = int(rng.integers(1, min(2, nx - 1) + 1))
    xg = synth_f.make_xgrid(rng, nx, True)
    mu0 = 1.65 if real_solve else float(rng.uniform(1.0, 3.0))
    op_raw = wl.raw_operator(init=(mu0, 4), mugrid=mugrid, xgrid=xg.tolist(), degree=deg, method=method, iterations=1)
    evolgrid = [(m**2, nf) for m, nf in mugrid]  # as OperatorCard.evolgrid does
    nmem = int(rng.integers(1, 4))
    pdfs = []
    for _ in range(nmem):
        nmiss = int(rng.integers(0, 6))
        miss = [int(p) for p in rng.choice(synth_f.FLAVOR_PIDS, size=nmiss, replace=False)]
        pdfs.append(synth_f.ToyPDF(rng, missing=miss, degree=deg))
    tg = None
    if tform != "none":
        m = int(rng.integers(2, nx + 3))
        tg = np.sort(np.exp(rng.uniform(np.log(xg[0]), 0.0, size=m)))
        if rng.random() < 0.5:
            tg = np.unique(np.concatenate([tg, [xg[0], 1.0]]))
        if rng.random() < 0.3:  # below 1e-8 absolute differences at small x are still differences
            tg = np.unique(np.concatenate([[xg[0]], tg]))
    name = f"Set{i}_{int(rng.integers(1000))}"
    info_update = None if rng.random() < 0.5 else {"SetDesc": "verif set", "VerifExtra": 1.5}
    key = ("evolve", scheme, order[0], method, nblocks, nmem, tform, install, i)
    out["key"] = key
    out["nontrivial"] = (len(mugrid) >= 2 and (not ascending or nblocks >= 2)) and all(14 - len(p.missing) >= 3 for p in pdfs)
    wit = dict(kind="evolve", index=i, bad_scales=bad_scales, scheme=scheme, order=list(order), method=method, masses=masses, refs=[None if r != r else r for r in refs], ratios=ratios,
               alphas=alphas, mugrid=mugrid, xgrid=xg.tolist(), degree=deg, targetgrid=None if tg is None else tg.tolist(), tform=tform,
               members=nmem, install=install, pathform=pathform, real_solve=real_solve, name=name)

    d = pathlib.Path(scratch.mkdtemp())
    cwd0 = os.getcwd()
    try:
        work = d / "work"
        work.mkdir()
        lha = d / "lhapdf_data"
        lha.mkdir()
        lhagrid_f.fake_lhapdf(lha)
        os.chdir(work)
        th, op = wl.cards(th_raw, op_raw)
        # reference couplings first: a configuration the library refuses is not a case
        try:
            sc_ref = commons.couplings(th, op)
            sc_ref.a_s(mugrid[0][0] ** 2, nf_to=mugrid[0][1])
        except Exception as e:
            out["nontrivial"] = False
            out["key"] = ("evolve", "refused-config", i)
            out["sample"] = dict(wit, refused=f"{type(e).__name__}: {str(e)[:100]}")
            out["hits"]["config_refused"] = 1
            return out
        with warnings.catch_warnings():
            warnings.simplefilter("ignore")
            ekodir = d / ("ekodir" if pathform == "dir" else "")
            ekodir.mkdir(exist_ok=True)
            ekopath = (ekodir / "eko.tar") if pathform == "dir" else d / "my.tar"
            if real_solve:
                tens = None
                kwargs = dict(path=None, store_path=ekopath)
            else:
                tens = synth_f.random_tensors(rng, evolgrid, nx, with_err=bool(rng.random() < 0.5))
                synth_f.build_eko(ekopath, th_raw, op_raw, tens)
                kwargs = dict(path=ekodir if pathform == "dir" else ekopath)
            # a plain list/array may be given in any order; the written grid is ascending (LHAPDF)
            r2 = np.random.default_rng([seed, 45, 2, i])
            tg_order = "ascending"
            tg_arg = None
            if tg is not None and tform == "xgrid":
                tg_arg = XGrid(tg)
            elif tg is not None:
                tg_order = ["ascending", "descending", "shuffled", "descending"][int(r2.integers(4))]
                pts = tg[::-1].copy() if tg_order == "descending" else (tg[r2.permutation(len(tg))] if tg_order == "shuffled" else tg.copy())
                if np.array_equal(pts, tg):
                    tg_order = "ascending"
                tg_arg = pts.tolist() if r2.random() < 0.5 else pts
            wit["targetgrid_given"] = None if tg_arg is None else np.asarray(getattr(tg_arg, "raw", tg_arg)).tolist()
            wit["tg_order"] = tg_order
            iu = None if info_update is None else dict(info_update)
            buf = io.StringIO()
            try:
                with contextlib.redirect_stdout(buf):
                    evol_pdf.evolve_pdfs(pdfs, th, op, targetgrid=tg_arg, install=install, name=name, info_update=iu, **kwargs)
            except Exception as e:
                import traceback

                if bad_scales and isinstance(e, ValueError) and "bigger" in str(e):
                    out["hits"]["overlapping_blocks_refused"] = 1
                    out["ok"] = 1
                    out["sample"] = dict(kind="evolve", bad_scales=True, mugrid=mugrid, refused=str(e)[:80])
                    return out
                tb = traceback.format_exc()
                site = "other"
                if tform != "none" and ("raw" in str(e) or "not iterable" in str(e) or "XGrid" in str(e)):
                    site = f"targetgrid-{tform}"
                out["viol"].append((f"C45/evolve/raises/{site}", f"evolve_pdfs raised {type(e).__name__}: {e}", dict(wit, tb=tb[-700:])))
                return out
            if bad_scales:
                out["viol"].append(("C45/evolve/overlapping-blocks-accepted", f"evolution grid {mugrid} with overlapping nf blocks was exported instead of refused (LHAPDF needs ascending sub-grids)", wit))
                return out
            if real_solve:
                tens = {}
                with EKO.read(ekopath) as e:
                    for ep, o in e.items():
                        tens[(float(ep[0]), int(ep[1]))] = (np.array(o.operator), None)
                out["hits"]["real_solve"] = 1
        if tform == "list":
            out["hits"]["targetgrid_list"] = 1
            if tg_order != "ascending":
                out["hits"]["targetgrid_unsorted"] = 1
        if tform == "xgrid":
            out["hits"]["targetgrid_xgrid"] = 1
        # ---------------------------------------------------------- locate output
        setdir = (lha if install else work) / name
        nbad = 0
        if install:
            out["hits"]["install"] = 1
            if (work / name).exists():
                out["viol"].append(("C45/evolve/install/leftover", "installed set still present in the working directory", wit))
                nbad += 1
        if not setdir.is_dir():
            out["viol"].append(("C45/evolve/output-missing", f"no set directory {setdir}", wit))
            return out
        files = sorted(p.name for p in setdir.iterdir())
        want_files = sorted([f"{name}.info"] + [f"{name}_{m:04d}.dat" for m in range(nmem)])
        if files != want_files:
            out["viol"].append(("C45/evolve/files", f"files {files} != {want_files}", wit))
            return out
        info = lhagrid_f.read_info(setdir / f"{name}.info")
        # ---------------------------------------------------------- expected nodes
        out_x = xg if tg is None else tg
        Rx = None if tg is None else interp_f.matrix_float(tg, xg, deg, True)
        by_nf = {}
        for mu, nf in mugrid:
            by_nf.setdefault(nf, []).append(mu)
        block_nfs = sorted(by_nf)
        block_qs = [sorted(by_nf[nf]) for nf in block_nfs]
        mu20 = mu0**2
        all_x, all_q = [], []
        for m in range(nmem):
            try:
                header, blocks = lhagrid_f.read_lhagrid1(setdir / f"{name}_{m:04d}.dat")
            except Exception as e:
                out["viol"].append(("C45/evolve/dat-unparsable", f"member {m}: {type(e).__name__}: {e}", wit))
                return out
            want_head = ["PdfType: central" if m == 0 else "PdfType: replica", "Format: lhagrid1"]
            if [h.strip() for h in header] != want_head:
                out["viol"].append(("C45/evolve/dat-header", f"member {m} header {header} != {want_head}", wit))
                nbad += 1
            if len(blocks) != len(block_nfs):
                out["viol"].append(("C45/evolve/blocks", f"member {m}: {len(blocks)} blocks for nf blocks {block_nfs}", wit))
                return out
            F = pdfs[m].grid(xg, mu20)
            for b, (blk, nf, qs) in enumerate(zip(blocks, block_nfs, block_qs)):
                all_x.append(blk["x"])
                all_q.append(blk["Q"])
                okx = len(blk["x"]) == len(out_x) and np.allclose(blk["x"], out_x, rtol=PREC_GRID, atol=0)
                okq = len(blk["Q"]) == len(qs) and np.allclose(blk["Q"], qs, rtol=PREC_GRID, atol=0)
                if not okx:
                    cls = "targetgrid" if tg is not None else "xgrid"
                    out["viol"].append((f"C45/evolve/block-x/{cls}", f"member {m} block {b}: x nodes {blk['x']} != {out_x}", wit))
                    nbad += 1
                    continue
                if not okq:
                    out["viol"].append(("C45/evolve/block-Q", f"member {m} block {b} (nf={nf}): Q nodes {blk['Q']} != sorted {qs}", wit))
                    nbad += 1
                    continue
                if sorted(blk["pids"]) != sorted(synth_f.FLAVOR_PIDS):
                    out["viol"].append(("C45/evolve/block-pids", f"pids {blk['pids']}", wit))
                    nbad += 1
                    continue
                for iq, q in enumerate(qs):
                    T = tens[(q**2, nf)][0]
                    res = np.einsum("ajbk,bk->aj", T, F)
                    sc = np.einsum("ajbk,bk->aj", np.abs(T), np.abs(F))
                    if Rx is not None:
                        res = np.einsum("ij,aj->ai", Rx, res)
                        sc = np.einsum("ij,aj->ai", np.abs(Rx), sc)
                    want = res * out_x[None, :]  # (a, ix) = x f
                    scx = sc * out_x[None, :]
                    for ip, pid in enumerate(blk["pids"]):
                        a = synth_f.FLAVOR_PIDS.index(pid)
                        got = blk["data"][:, iq, ip]
                        tol = PREC_DATA * np.abs(want[a]) + 1e-9 * scx[a] + 1e-300
                        out["hits"]["data_nodes"] = out["hits"].get("data_nodes", 0) + len(got)
                        if np.any(np.abs(got - want[a]) > tol):
                            worst = float(np.max(np.abs(got - want[a]) / (np.abs(want[a]) + 1e-300)))
                            cls = ("targetgrid" if tg_order == "ascending" else "targetgrid-unsorted") if tg is not None else "plain"
                            out["viol"].append(
                                (f"C45/evolve/data/{cls}", f"member {m} nf={nf} Q={q} pid={pid}: written x*f differs from the applied PDF (rel {worst:.2e})",
                                 dict(wit, member=m, nf=nf, Q=q, pid=pid, got=got, want=want[a]))
                            )
                            nbad += 1
                            break
                    else:
                        continue
                    break
            # blocks ascending in Q as LHAPDF requires
            for b in range(len(blocks) - 1):
                if blocks[b]["Q"][-1] > blocks[b + 1]["Q"][0] * (1 + PREC_GRID):
                    out["viol"].append(("C45/evolve/blocks-order", "Q sub-grids are not in ascending order", wit))
                    nbad += 1
        # ---------------------------------------------------------- info ranges
        out["hits"]["info_ranges"] = 1
        xmin_w, xmax_w = min(a.min() for a in all_x), max(a.max() for a in all_x)
        qmin_w, qmax_w = min(a.min() for a in all_q), max(a.max() for a in all_q)

        def close(a, b):
            return a is not None and isinstance(a, (int, float)) and abs(float(a) - b) <= PREC_GRID * abs(b)

        for k, v, cls in (("XMin", xmin_w, "XMin"), ("XMax", xmax_w, "XMax"), ("QMin", qmin_w, "QMin"), ("QMax", qmax_w, "QMax")):
            if not close(info.get(k), v):
                sub = ("targetgrid" if tg is not None else "xgrid") if k.startswith("X") else ("unsorted" if not ascending else "rounded")
                out["viol"].append((f"C45/info/{cls}/{sub}", f"info {k}={info.get(k)} but the written grids have {v}", dict(wit, key=k, info=info.get(k), written=float(v))))
                nbad += 1
        if sorted(info.get("Flavors") or []) != sorted(synth_f.FLAVOR_PIDS):
            out["viol"].append(("C45/info/Flavors", f"Flavors {info.get('Flavors')} != pids of the data", wit))
            nbad += 1
        if info.get("NumMembers") != nmem:
            out["viol"].append(("C45/info/NumMembers", f"NumMembers {info.get('NumMembers')} != {nmem}", wit))
            nbad += 1
        for k, v in (("OrderQCD", order[0] - 1), ("AlphaS_OrderQCD", order[0] - 1), ("AlphaS_MZ", alphas), ("MZ", 91.2), ("Format", "lhagrid1"),
                     ("MCharm", masses[0]), ("MBottom", masses[1]), ("MTop", masses[2])):
            if info.get(k) != v:
                out["viol"].append((f"C45/info/{k}", f"info {k}={info.get(k)} != {v}", wit))
                nbad += 1
        if info_update is not None and info.get("VerifExtra") != 1.5:
            out["viol"].append(("C45/info/update-lost", "info_update key not written", wit))
            nbad += 1
        # ---------------------------------------------------------- alpha_s table
        qs_flat = [q for qs in block_qs for q in qs]
        nf_flat = [nf for nf, qs in zip(block_nfs, block_qs) for _ in qs]
        aq, av = info.get("AlphaS_Qs"), info.get("AlphaS_Vals")
        if not (isinstance(aq, list) and isinstance(av, list) and len(aq) == len(av) == len(qs_flat)) or not np.allclose(aq, qs_flat, rtol=1e-12, atol=0):
            out["viol"].append(("C45/info/AlphaS_Qs", f"AlphaS_Qs {aq} != Q nodes of the blocks {qs_flat}", wit))
            nbad += 1
        else:
            if scheme == "MSBAR":
                out["hits"]["msbar_alphas"] = 1
            for q, nf, v in zip(qs_flat, nf_flat, av):
                ref = float(4 * np.pi * sc_ref.a_s(q * q, nf_to=nf))
                out["hits"]["info_alphas_runner"] = out["hits"].get("info_alphas_runner", 0) + 1
                if not abs(v - ref) <= 1e-10 * abs(ref):
                    cls = "msbar-masses-not-solved" if scheme == "MSBAR" else "other"
                    out["viol"].append((f"C45/info/AlphaS_Vals/{cls}", f"AlphaS_Vals at Q={q}, nf={nf}: {v} vs coupling of the evolution {ref} (rel {abs(v - ref) / ref:.2e})",
                                        dict(wit, Q=q, nf=nf, got=v, want=ref)))
                    nbad += 1
                    break
                if easy and scheme == "POLE":
                    ode = lhagrid_f.alphas_ode(q * q, nf, alphas, 91.2**2, 5, [m * m for m in masses], order[0] - 1)
                    out["hits"]["info_alphas_ode"] = out["hits"].get("info_alphas_ode", 0) + 1
                    if not abs(v - ode) <= 2e-6 * abs(ode):
                        out["viol"].append(("C45/info/AlphaS_Vals/ode", f"AlphaS_Vals at Q={q}, nf={nf}: {v} vs RGE solution {ode} (rel {abs(v - ode) / ode:.2e})",
                                            dict(wit, Q=q, nf=nf, got=v, want=ode)))
                        nbad += 1
                        break
        out["sample"] = dict(kind="evolve", scheme=scheme, order=order[0], method=method, nf_blocks=block_nfs, points=len(mugrid), ascending=ascending,
                             members=nmem, tform=tform, install=install, QMin=info.get("QMin"), QMax=info.get("QMax"), mismatches=nbad)
        if nbad == 0:
            out["ok"] = 1
    except Exception as e:
        import traceback

        out["inc"].append(f"harness error in evolve case: {type(e).__name__}: {e} {traceback.format_exc()[-300:]}")
    finally:
        os.chdir(cwd0)
        shutil.rmtree(d, ignore_errors=True)
    return out


def _rand_blocks(rng, nblocks):
    blocks = []
    q_lo = 1.0
    for _ in range(nblocks):
        nx, nq = int(rng.integers(2, 6)), int(rng.integers(1, 4))
        x = np.sort(10 ** rng.uniform(-7, 0, size=nx))
        qs = np.sort(q_lo * 10 ** rng.uniform(0.05, 1.0, size=nq))
        q_lo = float(qs[-1])
        npid = int(rng.integers(1, 15))
        pids = [int(p) for p in rng.choice(synth_f.FLAVOR_PIDS, size=npid, replace=False)]
        data = rng.normal(size=(nx * nq, npid)) * 10 ** rng.uniform(-6, 3, size=(nx * nq, npid))
        data[rng.random(data.shape) < 0.1] = 0.0
        blocks.append(dict(xgrid=x, mu2grid=[float(q * q) for q in qs], pids=np.array(pids), data=data))
    return blocks


def _roundtrip_case(seed, i):
    rng = np.random.default_rng([seed, 45, 1, i])
    from ekobox import genpdf
    from ekobox.genpdf import export, load

    out = dict(hits={}, viol=[], inc=[], ok=0)
    d = pathlib.Path(scratch.mkdtemp())
    cwd0 = os.getcwd()
    wit = dict(kind="roundtrip", index=i)
    nbad = 0
    try:
        lha = d / "lhapdf_data"
        lha.mkdir()
        work = d / "work"
        work.mkdir()
        os.chdir(work)
        lhagrid_f.fake_lhapdf(lha)
        # ---- A: dump_set of random blocks into the fake LHAPDF dir, read back by both readers
        name = f"RT{i}"
        nmem = int(rng.integers(1, 4))
        members = [_rand_blocks(rng, int(rng.integers(1, 4))) for _ in range(nmem)]
        heads = None if rng.random() < 0.5 else [f"PdfType: {'central' if m == 0 else 'error'}\n" for m in range(nmem)]
        info_in = {"SetDesc": "round trip", "NumMembers": nmem, "Flavors": [int(p) for p in synth_f.FLAVOR_PIDS], "XMin": 1e-7, "QMax": 1e4,
                   "AlphaS_Vals": [0.3, 0.25], "Format": "lhagrid1"}
        os.chdir(lha)
        export.dump_set(name, dict(info_in), members, pdf_type_list=heads)
        os.chdir(work)
        key = ("roundtrip", nmem, tuple(len(b) for b in members), heads is None, i)
        out["key"] = key
        out["nontrivial"] = sum(len(b) for b in members) >= 2
        for m, blocks in enumerate(members):
            header, mine = lhagrid_f.read_lhagrid1(lha / name / f"{name}_{m:04d}.dat")
            head2, theirs = load.load_blocks_from_file(name, m)
            out["hits"]["roundtrip_blocks"] = out["hits"].get("roundtrip_blocks", 0) + len(blocks)
            want_head = (heads[m] if heads is not None else ("PdfType: central\n" if m == 0 else "PdfType: replica\n"))
            if header[0] + "\n" != want_head or head2 != want_head:
                out["viol"].append(("C45/roundtrip/head", f"member {m}: head {header[0]!r}/{head2!r} != {want_head!r}", wit))
                nbad += 1
            if len(mine) != len(blocks) or len(theirs) != len(blocks):
                out["viol"].append(("C45/roundtrip/nblocks", f"member {m}: wrote {len(blocks)} blocks, own reader {len(mine)}, load {len(theirs)}", wit))
                nbad += 1
                continue
            for b, (src, a, t) in enumerate(zip(blocks, mine, theirs)):
                nx, nq = len(src["xgrid"]), len(src["mu2grid"])
                q_src = np.sqrt(src["mu2grid"])
                d3 = src["data"].reshape(nx, nq, -1)
                checks = [
                    ("x", a["x"], src["xgrid"], PREC_GRID), ("Q", a["Q"], q_src, PREC_GRID),
                    ("load-x", t["xgrid"], src["xgrid"], PREC_GRID), ("load-mu2", np.array(t["mu2grid"]), np.array(src["mu2grid"]), 2 * PREC_GRID),
                    ("data", a["data"], d3, PREC_DATA), ("load-data", np.asarray(t["data"]).reshape(nx, nq, -1) if np.asarray(t["data"]).size == d3.size else np.zeros(0), d3, PREC_DATA),
                ]
                for nm, got, want, prec in checks:
                    got, want = np.asarray(got, float), np.asarray(want, float)
                    if got.shape != want.shape or np.any(np.abs(got - want) > prec * np.abs(want) + 1e-300):
                        out["viol"].append((f"C45/roundtrip/{nm}", f"member {m} block {b}: {nm} not preserved to the printed precision", dict(wit, member=m, block=b)))
                        nbad += 1
                if list(a["pids"]) != [int(p) for p in src["pids"]] or [int(p) for p in t["pids"]] != [int(p) for p in src["pids"]]:
                    out["viol"].append(("C45/roundtrip/pids", f"member {m} block {b}: pids changed", wit))
                    nbad += 1
        info_mine = lhagrid_f.read_info(lha / name / f"{name}.info")
        info_theirs = load.load_info_from_file(name)
        if info_mine != info_in or info_theirs != info_in:
            out["viol"].append(("C45/roundtrip/info", f"info changed in the round trip: {info_mine} / {info_theirs} vs {info_in}", wit))
            nbad += 1
        # ---- B: generate_pdf from callables, installed; then regenerated from the installed parent
        if i % 2 == 0:
            out["hits"]["generate_pdf"] = 1
            gname = f"Gen{i}"
            pids_on = [int(p) for p in rng.choice(synth_f.FLAVOR_PIDS, size=int(rng.integers(3, 15)), replace=False)]
            cf = {p: rng.uniform(0.5, 2.0, size=3) for p in pids_on}
            parent = {p: (lambda x, q2, c=cf[p]: c[0] * x ** c[1] * (1 - x) ** 2 * (1 + c[2] * np.log(q2))) for p in pids_on}
            gx = np.sort(10 ** rng.uniform(-5, 0, size=int(rng.integers(2, 6)))).tolist()
            geg = [(float(q2), 4) for q2 in 10 ** rng.uniform(0.3, 4, size=int(rng.integers(1, 4)))]
            buf = io.StringIO()
            with contextlib.redirect_stdout(buf), warnings.catch_warnings():
                warnings.simplefilter("ignore")
                genpdf.generate_pdf(gname, [int(p) for p in synth_f.FLAVOR_PIDS], parent_pdf_set=parent, xgrid=gx, evolgrid=geg,
                                    info_update={"VerifExtra": 2.5}, install=True)
            if (work / gname).exists() or not (lha / gname).is_dir():
                out["viol"].append(("C45/generate_pdf/install", "generated set not moved into the LHAPDF directory", wit))
                nbad += 1
            else:
                out["hits"]["install"] = 1
                hdr, blk = lhagrid_f.read_lhagrid1(lha / gname / f"{gname}_0000.dat")
                q2s = sorted(q2 for q2, _ in geg)
                ok = len(blk) == 1 and np.allclose(blk[0]["x"], gx, rtol=PREC_GRID, atol=0) and np.allclose(blk[0]["Q"], np.sqrt(q2s), rtol=PREC_GRID, atol=0)
                if not ok:
                    out["viol"].append(("C45/generate_pdf/nodes", "generated nodes differ from the requested grids", wit))
                    nbad += 1
                else:
                    for ip, pid in enumerate(blk[0]["pids"]):
                        want = np.array([[parent[pid](x, q2) if pid in parent else 0.0 for q2 in q2s] for x in gx])
                        got = blk[0]["data"][:, :, ip]
                        if np.any(np.abs(got - want) > PREC_DATA * np.abs(want) + 1e-12):
                            out["viol"].append(("C45/generate_pdf/data", f"pid {pid}: generated data differ from the parent callable", dict(wit, pid=pid, got=got, want=want)))
                            nbad += 1
                            break
                    ginfo = lhagrid_f.read_info(lha / gname / f"{gname}.info")
                    if ginfo.get("VerifExtra") != 2.5 or ginfo.get("NumMembers") != 1 or sorted(ginfo.get("Flavors") or []) != sorted(synth_f.FLAVOR_PIDS):
                        out["viol"].append(("C45/generate_pdf/info", f"info of the generated set inconsistent: {ginfo}", wit))
                        nbad += 1
                    # regenerate from the installed parent: data must survive to printed precision
                    g2 = f"Gen{i}b"
                    with contextlib.redirect_stdout(buf), warnings.catch_warnings():
                        warnings.simplefilter("ignore")
                        genpdf.generate_pdf(g2, [int(p) for p in synth_f.FLAVOR_PIDS], parent_pdf_set=gname, members=True)
                    hdr2, blk2 = lhagrid_f.read_lhagrid1(work / g2 / f"{g2}_0000.dat")
                    same = len(blk2) == 1 and np.allclose(blk2[0]["x"], blk[0]["x"], rtol=PREC_GRID, atol=0) and np.allclose(blk2[0]["Q"], blk[0]["Q"], rtol=2 * PREC_GRID, atol=0)
                    if same:
                        for ip, pid in enumerate(blk[0]["pids"]):
                            ip2 = blk2[0]["pids"].index(pid)
                            w = blk[0]["data"][:, :, ip]
                            if np.any(np.abs(blk2[0]["data"][:, :, ip2] - w) > 2 * PREC_DATA * np.abs(w) + 1e-12):
                                same = False
                    if not same:
                        out["viol"].append(("C45/generate_pdf/reload", "set regenerated from an installed parent differs from the parent", wit))
                        nbad += 1
        out["sample"] = dict(kind="roundtrip", members=nmem, blocks=[len(b) for b in members], custom_heads=heads is not None, mismatches=nbad)
        if nbad == 0:
            out["ok"] = 1
    except Exception as e:
        import traceback

        out.setdefault("key", ("roundtrip", "raised", i))
        out["viol"].append(("C45/roundtrip/raises", f"export/load raised {type(e).__name__}: {e}", dict(wit, tb=traceback.format_exc()[-700:])))
    finally:
        os.chdir(cwd0)
        shutil.rmtree(d, ignore_errors=True)
    return out


def _one(arg):
    seed, kind, i = arg
    return _evolve_case(seed, i) if kind == "evolve" else _roundtrip_case(seed, i)


def _safe(a):
    try:
        return _one(a)
    except Exception as e:  # a harness failure is never a verdict
        import traceback

        return dict(key=("harness-error", a[1], a[2]), nontrivial=False, hits={}, viol=[], ok=0,
                    inc=[f"harness error {type(e).__name__}: {e} {traceback.format_exc()[-300:]}"])


def _chunk(args):
    return [_safe(a) for a in args]


def _merge(ck, rec):
    ck.case(rec.get("key"), nontrivial=rec.get("nontrivial", False), sample=rec.get("sample"))
    for k, v in rec["hits"].items():
        ck.hit(k, v)
    for key, what, wit in rec["viol"]:
        ck.violation(key, what, dict(wit, seed=ck.seed))
    for why in rec["inc"]:
        ck.inconclusive(why)
    if rec["ok"] and not rec["viol"]:
        ck.ok()


def run(ck):
    nev = ck.n(60, 1000)
    nrt = ck.n(30, 500)
    items = [(ck.seed, "evolve", i) for i in range(nev)] + [(ck.seed, "roundtrip", i) for i in range(nrt)]
    size = 5 if ck.quick else 25
    chunks = [items[k : k + size] for k in range(0, len(items), size)]
    for chunk, st, val in jobs.pmap(_chunk, chunks, timeout=ck.n(1200, 3000)):
        if st != "ok":
            for _ in chunk:
                ck.case(None, nontrivial=False)
                ck.inconclusive(f"worker {st}: {str(val)[:200]}")
            continue
        for rec in val:
            _merge(ck, rec)


def replay(ck, rep):
    w = rep["witness"]
    _merge(ck, _one((w.get("seed", rep.get("seed", 0)), w["kind"], w["index"])))
    ck.min_nontrivial = 0
    ck.meta = dict(ck.meta, required_hits=[])
